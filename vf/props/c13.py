"""C13 - Dislocation configurations: reference crystal displaced by the elastic solution.

Postcondition monitors sit on the real ``Dislocation.__init__``, ``.monopole`` and
``.periodicarray`` (every call, also repeated calls on one object) and on
``atomman.defect.disregistry``.  Oracles: vf/oracle/c13_crystal.py (index
arithmetic, the rotation onto the requested axes, same-crystal test) and
vf/oracle/c13_disl.py (boundary regions, deletion count, uniform field, tails,
overlap search) and vf/oracle/c13_record.py (reference records: written and read
without atomman / DataModelDict); the workload comes from vf/gen/c13_configs.py
and vf/gen/c13_records.py.
"""
from __future__ import annotations

import copy
import inspect
import io
import os
import shutil
import tempfile

import numpy as np

from ..core import fingerprint
from ..gen import c13_configs as GEN
from ..gen import c13_records as GR
from ..oracle import c13_crystal as OC
from ..oracle import c13_disl as OD
from ..oracle import c13_record as OR
from .. import monitor, cover

RULE = ('configurations are enumerated round-robin over 8 unit-cell settings (fcc/bcc conventional with centred and '
        'primitive setting, two-type B2, 1-atom primitive cells, hcp with 3- and 4-index input) x 6 m/n axis assignments x 4 line '
        'characters (edge, mixed index<=2, screw, mixed high-index) and, by co-prime strides of the case index, slip '
        'system, line, sign of the line, boundary shape/width mode, shift mode (index/explicit/scaled, at construction or '
        'at the call), centre mode, size mode (list, default, minimum lengths, tuple) ; lattice constants, elastic '
        'constants, symmetry variant (random signed permutation), widths, centres and in-plane shift components are random. '
        'A case is non-trivial when the configuration was built (not refused) and holds more than 40 atoms; distinct = distinct '
        'fingerprint of all inputs.  Sequences are 3-5 generator calls on ONE Dislocation object with changing shift requests.  '
        'Round 4: shift and centre are handed over as ndarray / list / tuple / float32 array (and a centre as Python ints), every 11th cell declares a trailing '
        'unpopulated atom type; group "record" builds through Dislocation.fromrecord / fromdatabase from documents written by the oracle (7 ways of handing the '
        'record over x 12 statements of the shift: absolute / relative / index / none with shiftscale spelled False, false, f, F, True, t, TRUE, JSON Booleans or '
        'absent; Miller strings bare / bracketed / with fraction; axes and setting stated or left to their defaults), judges the object against what the TEXT '
        'states and then generates without shift arguments; group "pair" is a history on two instances sharing the unit cell and elastic-constants objects: A '
        '(shift chosen by array at construction / by index / from a record / by set_shift / in the first call) generates and its results are kept, the caller '
        'overwrites every array it handed over, B is default-constructed from the same (in half the cases edited in place) cell object and generates, then A, '
        'its kept results, a repeat of the first call with equal arguments and a deep copy of A are judged; it ends with a request naming both shift and '
        'shiftindex (to be refused at every entry point) and with the caller writing into the arrays .shift / .shifts handed out.  The disregistry is asked '
        'twice (ndarray, then list / tuple; documented defaults where m = x, n = y).')
ASSUMPTIONS = [
    'the elastic displacement field is taken from the public solution object (dislsol.displacement); its correctness is property C12',
    'Burgers vectors are lattice translations; slip plane kept at least 0.2 of the plane gap away from atomic planes; core centre within L/6 of the middle',
    'cylinder boundary: axis through the Cartesian origin (middle of the symmetric system, as the radius construction and the "at least '
    'boundarywidth thick" guarantee require) along the line cell vector, no end caps; atoms within 1e-9*L of a region surface are exempt',
    'a generator call without shift arguments uses the shift the object holds at that moment (the docstrings disagree with each other here)',
    'periodic array systems are at least 15 A long along m (smaller ones legitimately ask for other dimensions)',
    'periodic-array rows: boundary atoms (within boundarywidth of the free surfaces, +-0.6|b| undecided) carry the uniform field, the others the '
    'elastic solution up to one rigid translation along the plane normal',
    'configurations whose rotated cell is not the transform-rotated crystal (classes anticyclic / oblique, decided from the inputs and the chosen uvws) are '
    'reported once under orientation:<class>; in the oblique classes the later clauses are not evaluated (counted as skipped) and refusals are accepted',
    'a ValueError at construction is accepted as a refusal only for hexagonal lines along c (no elastic solution) and, with non-default axes, for '
    'mixed lines / {123} / hcp planes where mutually orthogonal lattice vectors need not exist',
    'displacements between periodic systems (hence the disregistry) are compared modulo the periodic line vector',
    'oracle shares numpy/LAPACK with the code under test',
    'a record states: Miller strings as documented for miller.fromstring, Booleans as documented for tools.boolean (true/t/false/f in any case, or a Boolean), '
    'm and n defaulting to the constructor\'s y and z, conventional_setting to p, shiftscale to False; records kept in a database always state m and n (required '
    'by the schema and read by the record\'s metadata)',
    'the shift an object holds is the VALUE it was last asked to hold (constructor, set_shift, generator call with a shift argument, record); later changes to '
    'the caller\'s array or to arrays the object handed out do not change that request',
    'a deep copy of a Dislocation is a Dislocation (pickling atomman Systems is not supported and not asked for); an in-place edit of the unit cell object '
    'after construction is only followed by generator calls with absolute boundary widths',
]
CONFIG = {'quick': dict(timeout=600), 'thorough': dict(timeout=3000)}

FILES = ['atomman/defect/Dislocation/__init__.py', 'atomman/defect/Dislocation/_monopole.py',
         'atomman/defect/Dislocation/_periodicarray.py', 'atomman/defect/disregistry.py']

TOLREL = 1e-6      # site matching, in units of the cell vectors


# --------------------------------------------------------------------------- #
# helpers

def bind(real, args, kwargs):
    ba = inspect.signature(real).bind(*args, **kwargs)
    ba.apply_defaults()
    return ba.arguments


def rel_of(system):
    v, o = system.box.vects, system.box.origin
    return np.linalg.solve(v.T, (system.atoms.pos - o).T).T


def axis_index(v):
    return int(np.argmax(np.abs(v)))


def config_class(info, uv3):
    """standard | oblique | anticyclic | anticyclic+oblique.
    oblique: the cell vectors chosen for the rotated cell, expressed in the requested
    axes, cannot be brought to LAMMPS form (a along x, b in the xy plane) by sign
    changes alone."""
    exp = (uv3 @ info['vects']) @ info['T'].T
    L = np.abs(exp).max()
    obl = max(abs(exp[0, 1]), abs(exp[0, 2]), abs(exp[1, 2])) > 1e-7 * L
    # the anticyclic assignments (x,z), (y,x), (z,y) were a separate class while defect A stood (cell turned
    # 180 degrees about n); repaired in /repo 40086d3, so they are judged by the standard clauses now
    anti = False
    return ('anticyclic' if anti else '') + ('+' if anti and obl else '') + ('oblique' if obl else '') or 'standard', exp


def plane_gaps(ncoord, W, tol=1e-6):
    """Distinct plane coordinates modulo W (sorted)."""
    c = np.sort(np.mod(ncoord, W))
    c = c[np.concatenate([[True], np.diff(c) > tol])]
    if len(c) > 1 and c[-1] - c[0] > W - tol:
        c = c[:-1]
    return c


class Monitors:
    """Postconditions on the real entry points; they record and never raise."""

    def __init__(self, rec, am):
        self.rec = rec
        self.am = am
        D = am.defect.Dislocation
        self.real_init = D.__dict__['__init__']
        self.real_mono = D.__dict__['monopole']
        self.real_arr = D.__dict__['periodicarray']
        self.real_set = D.__dict__['set_shift']
        monitor.observe(D, 'set_shift', self.post_set_shift, label='Dislocation.set_shift')
        monitor.observe(D, '__init__', self.post_init, label='Dislocation.__init__')
        monitor.observe(D, 'monopole', self.post_monopole, pre=lambda a, k: self.pre_gen(self.real_mono, a, k), label='Dislocation.monopole')
        monitor.observe(D, 'periodicarray', self.post_array, pre=lambda a, k: self.pre_gen(self.real_arr, a, k), label='Dislocation.periodicarray')
        self.last = None          # summary of the last generator call (for the harness)

    # ------------------------------------------------------------------ init
    def post_init(self, args, kwargs, result, exc, old):
        rec = self.rec
        if exc is not None:
            return
        a = bind(self.real_init, args, kwargs)
        d = a['self']
        ucell = a['ucell']
        info = dict(vects=np.array(ucell.box.vects), rel=rel_of(ucell), atype=np.array(ucell.atoms.atype),
                    xi3=np.array(OC.as3(a['ξ_uvw']), float), hkl3=np.array(OC.as3(a['slip_hkl'], plane=True), float), b3=np.array(OC.as3(a['burgers']), float),
                    mstr=a['m'] if isinstance(a['m'], str) else 'xyz'[axis_index(a['m'])],
                    nstr=a['n'] if isinstance(a['n'], str) else 'xyz'[axis_index(a['n'])])
        m, n = np.array(OC.axis(a['m']), float), np.array(OC.axis(a['n']), float)      # copies: the caller may overwrite what it handed over
        xi = np.cross(m, n)
        info.update(m=m, n=n, xi=xi)
        T = OC.dislocation_rotation(info['vects'], info['xi3'], info['hkl3'], m, n)
        info['T'] = T
        info['b'] = T @ OC.cart(info['b3'], info['vects'])
        info['r0'] = OC.nn_distance(info['vects'], info['rel'])
        bn = np.linalg.norm(info['b'])
        L = np.abs(info['vects']).max()
        rec.close(1e-9, d.transform, T, 'transform takes plane normal -> n, line -> m x n, normal x line -> m', 'init:transform')
        rec.close(1e-7 * bn, d.dislsol.burgers, info['b'], 'Cartesian Burgers vector of the solution = transform . b', 'init:burgers')
        rec.check(abs(info['b'] @ n) < 1e-7 * bn, 'Burgers vector lies in the slip plane (input sanity)', 'init:burgers-in-plane')
        line, cut = axis_index(xi), axis_index(n)
        motion = 3 - line - cut
        rec.check((d.lineindex, d.cutindex, d.motionindex) == (line, cut, motion),
                  'line/cut/motion cell-vector indices follow the requested axes', 'init:indices',
                  got=(d.lineindex, d.cutindex, d.motionindex), exp=(line, cut, motion))
        info.update(line=line, cut=cut, motion=motion)
        # integer cell vectors along line, in plane, out of plane
        uv3 = OC.as3(np.asarray(d.uvws, float))
        up = np.asarray(d.uvws_prim, float)
        rec.check(np.abs(up - np.round(up)).max() < 1e-9, 'cell vectors of the rotated cell are integer in the primitive setting', 'init:uvws-integer', uvws_prim=up)
        cl = np.cross(OC.unit(OC.cart(uv3[line], info['vects'])), OC.unit(OC.cart(info['xi3'], info['vects'])))
        rec.check(np.linalg.norm(cl) < 1e-9, 'the cell vector along the line is parallel to the requested line direction', 'init:uvws-line', uvws=uv3, xi=info['xi3'])
        hn = np.abs(info['hkl3']).max() * np.abs(uv3).max()
        rec.check(abs(info['hkl3'] @ uv3[motion]) < 1e-9 * hn, 'the in-plane cell vector satisfies the zone law with the slip plane', 'init:uvws-inplane', uvws=uv3, hkl=info['hkl3'])
        rec.check(abs(info['hkl3'] @ uv3[cut]) > 1e-9 * hn, 'the third cell vector leaves the slip plane', 'init:uvws-outofplane', uvws=uv3, hkl=info['hkl3'])
        cls, exp_rv = config_class(info, uv3)
        info['cls'] = cls
        rec.count('class:' + cls)
        rv = np.array(d.rcell.box.vects)
        info['rv'] = rv
        Lr = np.abs(rv).max()
        r = OC.same_crystal(d.rcell.atoms.pos, d.rcell.atoms.atype, T, np.zeros(3), info['vects'], info['rel'], info['atype'], TOLREL)
        nexp = OC.expected_natoms(rv, info['vects'], len(info['rel']))
        inside, _ = OC.inside_cell(d.rcell.atoms.pos, rv, d.rcell.box.origin)
        ok_v = rv.shape == exp_rv.shape and np.abs(rv - exp_rv).max() <= 1e-7 * Lr
        ok_l = np.linalg.norm(np.cross(OC.unit(rv[line]), xi)) < 1e-8
        ok_p = abs(rv[motion] @ n) < 1e-8 * Lr and abs(rv[line] @ n) < 1e-8 * Lr
        ok_c = r.frac_on_site == 1.0 and r.distinct and inside and abs(nexp - d.rcell.natoms) < 1e-6
        det = dict(uvws=uv3, m=info['mstr'], n=info['nstr'], vects=rv, expected_vects=exp_rv, on_site=r.frac_on_site, natoms=d.rcell.natoms,
                   expected_natoms=nexp, vects_ok=ok_v, line_parallel_xi=ok_l, inplane_perp_n=ok_p, crystal_ok=ok_c)
        if cls == 'standard':
            rec.check(ok_v, 'rotated cell vectors = transform . (uvws . ucell vectors)', 'rcell:vects', **det)
            rec.check(ok_l, 'the periodic cell vector is parallel to the line direction m x n of the elastic solution', 'rcell:line-parallel-xi', **det)
            rec.check(ok_p, 'line and in-plane cell vectors are perpendicular to n', 'rcell:inplane-perp-n', **det)
            rec.check(ok_c, 'rcell is the ucell crystal rotated by transform (every atom on a lattice site of its type, none twice, inside the cell, count = volume ratio)',
                      'rcell:crystal', **det)
        else:
            # one mechanism, one key: the rotated cell is not the transform-rotated crystal in the requested axes
            rec.check(ok_v and ok_l and ok_p and ok_c,
                      'rcell is the ucell crystal rotated by transform: cell vectors = transform . (uvws . ucell vectors), line vector parallel to m x n, in-plane vectors perpendicular to n, atoms on the rotated lattice sites',
                      'orientation:' + cls, **det)
        info['W'] = abs(rv[cut] @ n)
        info['natypes'] = int(ucell.natypes)                     # declared types (a trailing type may be unpopulated)
        info['shifts0'] = np.array(d.shifts, float)              # the offered shifts as they were at construction
        d._vf = info
        rec.count('monitor_ok:init')
        if 'oblique' in cls:
            rec.count('skipped:oblique-class:shift-clauses')
            return
        # shifts: slip plane halfway between atomic planes
        W = abs(rv[cut] @ n)
        ncoord = d.rcell.atoms.pos @ n
        planes = plane_gaps(ncoord, W)
        shifts = np.asarray(d.shifts, float)
        okpar = np.abs(shifts - np.outer(shifts @ n, n)).max() < 1e-9 * Lr
        rec.check(okpar, 'offered shifts are along the slip-plane normal', 'shifts:along-n')
        half = []
        for s in shifts:
            c = plane_gaps(ncoord + s @ n, W)
            above, below = c.min(), W - c.max()
            half.append(abs(above - below))
        rec.check(max(half) < 1e-6 * max(W, 1.0), 'every offered shift puts the slip plane halfway between two atomic planes', 'shifts:halfway', dev=half)
        sc = np.sort(np.mod(shifts @ n, W))
        distinct = len(sc) < 2 or np.diff(sc).min() > 1e-6
        rec.check(distinct and len(shifts) == len(planes), 'one distinct shift per atomic plane of the rotated cell', 'shifts:count',
                  nshifts=len(shifts), nplanes=len(planes))
        # shift selected at construction
        if a['shift'] is not None:
            req = np.asarray(a['shift'], float) @ rv if a['shiftscale'] else np.asarray(a['shift'], float)
        else:
            req = shifts[a['shiftindex'] if a['shiftindex'] is not None else 0]
        rec.close(1e-12 * (1 + Lr), d.shift, req, 'the shift selected at construction is the requested one', 'init:shift-selection')
        info['held'] = np.array(req, float)
        rec.count('monitor_ok:init-shifts')

    # ------------------------------------------------------------- set_shift
    def post_set_shift(self, args, kwargs, result, exc, old):
        """Every successful shift request (direct, or through a generator) is written down by VALUE: it is what
        the object is taken to hold from then on, whatever happens to the caller's arrays or to arrays the object
        has handed out (the construction-time request is written down by post_init)."""
        if exc is not None:
            return
        a = bind(self.real_set, args, kwargs)
        d = a['self']
        info = getattr(d, '_vf', None)
        if info is None or 'rv' not in info:
            return
        if a['shift'] is not None:
            req = np.asarray(a['shift'], float) @ info['rv'] if a['shiftscale'] else np.array(a['shift'], float)
        else:
            req = np.array(info['shifts0'][a['shiftindex'] if a['shiftindex'] is not None else 0], float)
        info['held'] = np.array(req, float)
        self.rec.count('monitor_ok:set_shift')

    # ------------------------------------------------- common to generators
    def pre_gen(self, real, args, kwargs):
        """Snapshot before the call: the shift the object holds and the arguments as given
        (periodicarray rewrites a size-multiplier list it is handed in place)."""
        a = dict(bind(real, args, kwargs))
        if a.get('sizemults') is not None:
            a['sizemults'] = tuple(a['sizemults']) if isinstance(a['sizemults'], tuple) else list(a['sizemults'])
        return dict(shift=np.array(a['self'].shift, float), a=a)

    def requested(self, d, a, old):
        info = d._vf
        rv = info['rv']
        if a['shift'] is not None:
            req = np.asarray(a['shift'], float) @ rv if a['shiftscale'] else np.asarray(a['shift'], float)
            how = 'explicit'
        elif a['shiftindex'] is not None:
            req = np.asarray(info['shifts0'], float)[a['shiftindex']]
            how = 'index'
        else:
            # the shift the object was last asked to hold (by value); objects the monitors did not see being
            # asked fall back on what the object held just before the call
            req = np.array(info['held']) if 'held' in info else old['shift']
            how = 'held'
        center = np.zeros(3) if a['center'] is None else np.asarray(a['center'], float)
        if a['centerscale']:
            center = center @ rv
        bw = float(a['boundarywidth'])
        if a['boundaryscale'] is True:
            bw *= np.linalg.norm(info['vects'][0])
        # multipliers
        line = info['line']
        if a['sizemults'] is None:
            mults = [2, 2, 2]
            mults[line] = 1
        else:
            mults = [int(x) for x in a['sizemults']]
        lens = np.linalg.norm(rv, axis=1)
        for i, key in enumerate(('amin', 'bmin', 'cmin')):
            if a[key] > 0:
                need = int(np.ceil(a[key] / lens[i]))
                if i != line and need % 2:
                    need += 1
                mults[i] = max(mults[i], need)
        return req, how, center, bw, mults

    def check_reference(self, d, base_pos, base_atype, base_box, req, mults, kind, full=True):
        """The reference system is the rotated cell supersized symmetrically and shifted by
        the REQUESTED shift: cell = multiples of the rcell vectors, every atom on a site of the
        transform-rotated, shifted ucell crystal, no site twice, all inside the cell."""
        rec, info = self.rec, d._vf
        cls, line, rv = info['cls'], info['line'], info['rv']
        Lr = np.abs(rv).max() * max(mults)
        expv = rv * np.array(mults, float)[:, None]
        rec.close(1e-9 * Lr, base_box.vects, expv, 'reference cell vectors = size multipliers x rotated cell vectors', kind + ':base-vects')
        expo = -sum(0.5 * expv[i] for i in range(3) if i != line)
        rec.close(1e-9 * Lr, base_box.origin, expo, 'reference cell is symmetric about the origin in the two non-line directions', kind + ':base-origin')
        r = OC.same_crystal(base_pos, base_atype, info['T'], req, info['vects'], info['rel'], info['atype'], TOLREL)
        inside, _ = OC.inside_cell(base_pos, base_box.vects, base_box.origin)
        ok = r.frac_on_site == 1.0 and r.distinct and inside
        nexp = OC.expected_natoms(expv, info['vects'], len(info['rel']))
        if full:
            ok = ok and abs(nexp - len(base_pos)) < 1e-6
        rec.check(ok, 'reference system is the perfect crystal rotated by transform and shifted by the requested shift',
                  f'{kind}:base-crystal' if cls == 'standard' else 'orientation:' + cls, on_site=r.frac_on_site, mult=r.mult, distinct=r.distinct, inside=inside,
                  natoms=len(base_pos), expected=nexp, shift=req, m=info['mstr'], n=info['nstr'])
        return nexp

    def classify_exception(self, d, a, exc, kind, req=None):
        rec = self.rec
        info = getattr(d, '_vf', None)
        msg = str(exc)
        out = dict(ok=False, exc=exc)
        if a.get('shift') is not None and a.get('shiftindex') is not None and isinstance(exc, ValueError) and 'both' in msg:
            rec.refusal(f'{kind}:shift-and-index-both-given')       # documented: "Cannot be given with shiftindex"
            out['why'] = 'both'
        elif isinstance(a.get('sizemults'), tuple) and isinstance(exc, TypeError) and 'Invalid sizemults' not in msg:
            rec.fail('size multipliers given as a tuple (the documented type) are accepted', f'{kind}:sizemults-tuple:TypeError', exception=exc)
            out['why'] = 'tuple'
        elif info is not None and 'oblique' in info['cls']:
            rec.refusal(f'{kind}:oblique-class:{type(exc).__name__}')
            out['why'] = 'oblique-class'
        elif isinstance(exc, ValueError) and 'slip plane' in msg and info is not None and req is not None:
            # documented refusal: accepted only if the oracle also finds atoms on the plane
            c = plane_gaps(d.rcell.atoms.pos @ info['n'] + req @ info['n'], info['W'])
            on = min(c.min(), info['W'] - c.max()) < 1e-5
            if on:
                rec.refusal(kind + ':atoms-on-slip-plane')
            else:
                rec.fail('refusal "atoms on slip plane" only when atoms are on the plane', kind + ':refusal-unjustified:slip-plane', exception=exc)
            out['why'] = 'onplane'
        elif isinstance(exc, ValueError) and 'not an integer' in msg:
            rec.fail('refusal "non-integer deletion count" only when N|b.m|/(2 L_m) is not integral', kind + ':refusal-unjustified:non-integer', exception=exc)
            out['why'] = 'nonint'
        elif isinstance(exc, ValueError) and 'mismatch' in msg:
            rec.fail('a periodic array of adequate dimensions is built (duplicate detection finds the implied number of atoms)', kind + ':refusal-unjustified:mismatch', exception=exc)
            out['why'] = 'mismatch'
        else:
            rec.fail(f'{kind} builds the configuration', f'{kind}:exception:{type(exc).__name__}', exception=exc)
            out['why'] = 'other'
        return out

    # -------------------------------------------------------------- monopole
    def post_monopole(self, args, kwargs, result, exc, old):
        rec = self.rec
        if isinstance(old, Exception):
            raise old
        a = old['a']
        d = a['self']
        if not hasattr(d, '_vf'):
            return
        info = d._vf
        self.last = None
        if exc is not None:
            self.last = self.classify_exception(d, a, exc, 'monopole')
            rec.count('monitor_ok:monopole-exc')
            return
        if 'oblique' in info['cls']:
            rec.count('skipped:oblique-class:monopole-clauses')
            self.last = dict(ok=False, why='oblique-class')
            return
        req, how, center, bw, mults = self.requested(d, a, old)
        base, disl = d.base_system, d.disl_system
        if a['return_base_system']:
            okret = isinstance(result, tuple) and result[0] is base and result[1] is disl
        else:
            okret = result is disl
        rec.check(okret, 'the returned systems are the ones the object holds', 'monopole:returned')
        line, cls, n, m = info['line'], info['cls'], info['n'], info['m']
        L = np.abs(base.box.vects).max()
        rec.close(1e-12 * (1 + L), d.shift, req, f'the shift used is the requested one ({how})', f'monopole:shift-selection:{how}')
        bpos = np.array(base.atoms.pos)
        nexp = self.check_reference(d, bpos, np.array(base.atoms.atype), base.box, req, mults, 'monopole')
        for i, key in enumerate(('amin', 'bmin', 'cmin')):
            if a[key] > 0:
                rec.check(np.linalg.norm(base.box.vects[i]) >= a[key] * (1 - 1e-12), 'the cell is at least as long as the requested minimum', 'monopole:minimum-length')
        rec.check(disl.natoms == base.natoms and base.natoms == int(round(nexp)), 'every atom of the reference system is kept', 'monopole:natoms',
                  disl=disl.natoms, base=base.natoms, expected=nexp)
        if disl.natoms != base.natoms:
            return
        # displaced by the elastic solution evaluated at the reference position relative to the centre
        u = d.dislsol.displacement(bpos - center)
        resid, k = OD.min_image_residual(np.array(disl.atoms.pos) - bpos - u, disl.box.vects, [line])
        gap = np.abs((bpos - center) @ n).min()
        rec.count('monopole:atoms', len(bpos))
        rec.close(1e-9 * (1 + L), resid, np.zeros_like(resid), 'disl position = reference position + u(reference - centre), modulo the line cell vector only',
                  'monopole:displacement', center=center, gap_to_plane=gap)
        rec.count('monopole:wrapped-along-line', int((np.abs(k[:, line]) > 0).sum()))
        pbc = [bool(x) for x in disl.pbc]
        rec.check(pbc == [i == line for i in range(3)], 'periodic along the dislocation line only', 'monopole:pbc', pbc=pbc, line=line)
        rec.close(1e-9 * L, disl.box.vects[line], base.box.vects[line], 'the periodic cell vector is that of the reference system', 'monopole:line-vector')
        # boundary re-typing
        nat = info['natypes']
        btype = np.array(base.atoms.atype)
        dtype_ = np.array(disl.atoms.atype)
        dpos = np.array(disl.atoms.pos)
        if bw > 0:
            shape = a['boundaryshape']
            if shape == 'cylinder':
                R = OD.cylinder_radius(base.box.vects, base.box.origin, line, bw)
                rr = OD.dist_from_axis(dpos, base.box.vects[line])
                marg = R - rr
            else:
                marg = OD.box_margin(dpos, base.box.vects, base.box.origin, [i for i in range(3) if i != line], bw)
            exempt = np.abs(marg) < 1e-9 * L
            outside = marg < 0
            bad = (dtype_ != btype + nat * outside) & ~exempt
            rec.count(f'boundary:{shape}:atoms-outside', int((outside & ~exempt).sum()))
            rec.count(f'boundary:{shape}:atoms-inside', int((~outside & ~exempt).sum()))
            rec.count('boundary:exempt-on-surface', int(exempt.sum()))
            rec.check(not bad.any(), f'atype += natypes exactly for the atoms whose displaced position is outside the {shape} region',
                      f'monopole:boundary:{shape}', nbad=int(bad.sum()), pos=dpos[bad][:3], margin=marg[bad][:3], width=bw,
                      got=dtype_[bad][:3], base=btype[bad][:3])
            face = OD.box_margin(dpos, base.box.vects, base.box.origin, [i for i in range(3) if i != line], 0.0)
            thin = (face < bw - 1e-9 * L) & (dtype_ == btype)
            rec.check(not thin.any(), 'the boundary region is at least boundarywidth thick everywhere', f'monopole:boundary-thickness:{shape}', n=int(thin.sum()))
            rec.check(disl.natypes == 2 * base.natypes and list(disl.symbols) == 2 * list(base.symbols), 'boundary types get their own symbols', 'monopole:boundary-symbols')
            cellobl = abs(OC.unit(base.box.vects[line]) @ OC.unit(base.box.vects[info['motion']])) > 1e-6
            if shape == 'cylinder' and cellobl:
                along = dpos @ OC.unit(base.box.vects[line])
                beyond = (along < -1e-9) | (along > np.linalg.norm(base.box.vects[line]) + 1e-9)
                rec.count('boundary:cylinder:inside-atoms-beyond-end-planes', int((beyond & ~outside).sum()))
        else:
            rec.check(np.array_equal(dtype_, btype), 'without a boundary width no atom is re-typed', 'monopole:no-boundary')
        self.last = dict(ok=True, base=base, disl=disl, center=center, natoms=disl.natoms, kind='monopole', bw=bw, req=req)
        rec.count('monitor_ok:monopole')

    # -------------------------------------------------------- periodic array
    def post_array(self, args, kwargs, result, exc, old):
        rec = self.rec
        if isinstance(old, Exception):
            raise old
        a = old['a']
        d = a['self']
        if not hasattr(d, '_vf'):
            return
        info = d._vf
        self.last = None
        if exc is not None:
            req = None
            try:
                req = self.requested(d, a, old)[0]
            except Exception:
                pass
            self.last = self.classify_exception(d, a, exc, 'array', req)
            rec.count('monitor_ok:array-exc')
            return
        if 'oblique' in info['cls']:
            rec.count('skipped:oblique-class:array-clauses')
            self.last = dict(ok=False, why='oblique-class')
            return
        req, how, center, bw, mults = self.requested(d, a, old)
        base, disl = d.base_system, d.disl_system
        if a['return_base_system']:
            okret = isinstance(result, tuple) and result[0] is base and result[1] is disl
        else:
            okret = result is disl
        rec.check(okret, 'the returned systems are the ones the object holds', 'array:returned')
        line, cut, motion, cls = info['line'], info['cut'], info['motion'], info['cls']
        m, n, b = info['m'], info['n'], info['b']
        bn = np.linalg.norm(b)
        L = np.abs(base.box.vects).max()
        rec.close(1e-12 * (1 + L), d.shift, req, f'the shift used is the requested one ({how})', f'array:shift-selection:{how}')
        bpos = np.array(base.atoms.pos)
        nfull = self.check_reference(d, bpos, np.array(base.atoms.atype), base.box, req, mults, 'array', full=False)
        N0 = int(round(nfull))
        # deletion count
        vm = base.box.vects[motion]
        Lm = abs(vm @ m)
        expdel = OD.expected_deleted(N0, b, m, vm)
        removed = N0 - disl.natoms
        rec.count('array:removed-atoms', removed)
        rec.count('array:with-edge-component', int(expdel > 0.5))
        rec.check(abs(expdel - round(expdel)) < 1e-6 and removed == int(round(expdel)), 'removed atoms = N |b.m| / (2 L_m), an integer',
                  'array:deleted-count', removed=removed, expected=expdel, N=N0)
        rec.check(base.natoms == disl.natoms, 'reference system trimmed to the remaining atoms', 'array:base-trimmed', base=base.natoms, disl=disl.natoms)
        if base.natoms != disl.natoms:
            return
        oid = np.array(disl.atoms.old_id)
        rec.check(len(np.unique(oid)) == len(oid) and oid.min() >= 0 and oid.max() < N0, 'old_id maps the remaining atoms injectively into the full reference system', 'array:old_id')
        # cell and periodicity
        pbc = [bool(x) for x in disl.pbc]
        rec.check(pbc == [i != cut for i in range(3)], 'non-periodic across the slip-plane normal only', 'array:pbc', pbc=pbc, cut=cut)
        rec.close(1e-9 * L, disl.box.vects[line], base.box.vects[line], 'the line cell vector is that of the reference system', 'array:line-vector')
        screw = abs(b @ m) < 1e-7 * bn
        gotvm = np.array(disl.box.vects[motion])
        if screw:
            # no edge component: the cell volume does not change and either sign of b/2 closes the lattice
            okvm = min(np.abs(gotvm - (vm - b / 2)).max(), np.abs(gotvm - (vm + b / 2)).max()) < 1e-9 * L
            rec.check(okvm, 'pure screw: the in-plane cell vector changes by half a Burgers vector (either sign)', 'array:motion-vector:screw', got=gotvm, vm=vm, b=b)
        else:
            rec.close(1e-9 * L, gotvm, OD.array_motion_vector(vm, b, m), 'the in-plane cell vector shrinks by half a Burgers vector', 'array:motion-vector')
        # overlaps
        dpos = np.array(disl.atoms.pos)
        pairs = OD.close_pairs(dpos, disl.box.vects, [line, motion], 0.5 * info['r0'])
        okey = 'array:overlap:' + ('screw' if screw else 'edge-component')
        cross = [p for p in pairs if p[3]]
        rec.check(not cross, 'no two atoms closer than r0/2 across the two in-plane periodic directions', okey, across=True, pairs=cross[:3], r0=info['r0'])
        rec.check(not [p for p in pairs if not p[3]], 'no two atoms closer than r0/2 inside the cell', okey, across=False, pairs=pairs[:3], r0=info['r0'])
        # types and boundary
        nat = info['natypes']
        btype = np.array(base.atoms.atype)
        dtype_ = np.array(disl.atoms.atype)
        if bw > 0:
            marg = OD.box_margin(dpos, base.box.vects, base.box.origin, [cut], bw)
            exempt = np.abs(marg) < 1e-9 * L
            outside = marg < 0
            bad = (dtype_ != btype + nat * outside) & ~exempt
            rec.count('boundary:array:atoms-outside', int((outside & ~exempt).sum()))
            rec.count('boundary:array:atoms-inside', int((~outside & ~exempt).sum()))
            rec.check(not bad.any(), 'types preserved; atype += natypes exactly for atoms within boundarywidth of the free surfaces', 'array:boundary', nbad=int(bad.sum()))
        else:
            rec.check(np.array_equal(dtype_, btype), 'types preserved', 'array:types')
        # rows aligned: each remaining atom is its reference atom displaced by the documented field
        delta = dpos - bpos
        rpos = bpos - center
        ulin = OD.linear_field(rpos, b, Lm, m, n)
        per = [line, motion]
        tol = 1e-8 * (1 + L)
        rlin, _ = OD.min_image_residual(delta - ulin, disl.box.vects, per)
        elin = np.linalg.norm(rlin, axis=1)
        if a['linear']:
            rec.check(elin.max() < tol, 'linear=True: every atom is its reference atom displaced by the uniform field (modulo the periodic vectors)',
                      'array:rows-aligned:linear', max_err=elin.max())
        else:
            usol = d.dislsol.displacement(rpos)
            rs, _ = OD.min_image_residual(delta - usol, disl.box.vects, per)
            ycoord = bpos @ n
            lo = base.box.origin @ n
            hi = lo + base.box.vects[cut] @ n
            lo, hi = min(lo, hi), max(lo, hi)
            dist = np.minimum(ycoord - lo, hi - ycoord)
            interior = dist > bw + 0.6 * bn
            surface = dist < bw - 0.6 * bn
            rigid = np.median(rs[interior], axis=0) if interior.any() else np.zeros(3)
            esol = np.linalg.norm(rs - rigid, axis=1)
            inplane = rigid - (rigid @ n) * n
            okrigid = np.linalg.norm(OD.min_image_residual(inplane[None], disl.box.vects, per)[0]) < tol
            ok_i = esol[interior] < tol
            ok_s = elin[surface] < tol
            ok_u = (esol < tol) | (elin < tol)
            rec.count('array:rows:interior', int(interior.sum()))
            rec.count('array:rows:surface', int(surface.sum()))
            rec.check(ok_i.all() and ok_s.all() and ok_u.all() and okrigid,
                      'every atom is its reference atom displaced by the elastic solution (interior, up to one rigid translation along n) or the uniform field (surface layers)',
                      'array:rows-aligned:solution', bad_interior=int((~ok_i).sum()), bad_surface=int((~ok_s).sum()), bad_any=int((~ok_u).sum()), rigid=rigid)
        self.last = dict(ok=True, base=base, disl=disl, center=center, natoms=disl.natoms, kind='array', bw=bw, req=req,
                         linear=bool(a['linear']), Lm=Lm, removed=removed)
        rec.count('monitor_ok:array')


# --------------------------------------------------------------------------- #
# disregistry clause (harness calls the real function; monitor counts the calls)

def check_disregistry(rec, am, d, last):
    info = d._vf
    m, n, b = info['m'], info['n'], info['b']
    bn = np.linalg.norm(b)
    base, disl, center = last['base'], last['disl'], last['center']
    kind = last['kind']
    hm, hn, hp = np.array(m, float), np.array(n, float), np.array(center, float)       # handed over; kept to see that they stay as they were
    kept = (np.array(base.atoms.pos), np.array(disl.atoms.pos))
    try:
        coord, dr = am.defect.disregistry(base, disl, m=hm, n=hn, planepos=hp)
    except Exception as e:
        rec.fail('disregistry of a generated configuration can be evaluated', f'disregistry:{kind}:exception', exception=e)
        return
    rec.check(np.array_equal(hm, m) and np.array_equal(hn, n) and np.array_equal(hp, np.asarray(center, float))
              and np.array_equal(kept[0], base.atoms.pos, equal_nan=True) and np.array_equal(kept[1], disl.atoms.pos, equal_nan=True),
              'disregistry leaves the vectors and systems it was handed as they were', 'disregistry:arguments-rewritten')
    # the same question again, vectors as list / tuple (and by the documented defaults m=x, n=y, plane through the origin where they apply)
    asform = (lambda v: [float(x) for x in v]) if disl.natoms % 2 else (lambda v: tuple(float(x) for x in v))
    c0, d0 = np.array(coord), np.array(dr)
    try:
        c2, d2 = am.defect.disregistry(base, disl, m=asform(m), n=asform(n), planepos=asform(center))
        same = c2.shape == c0.shape and d2.shape == d0.shape and np.array_equal(c2, c0) and np.array_equal(d2, d0) and np.array_equal(coord, c0) and np.array_equal(dr, d0)
        rec.check(same, 'disregistry gives the same profile when asked again with equal vectors given as list / tuple, and leaves the earlier result alone', 'disregistry:repeat-or-form')
        rec.count('disregistry:repeat-judged')
        if np.array_equal(m, [1.0, 0, 0]) and np.array_equal(n, [0, 1.0, 0]) and not np.any(center):
            c3, d3 = am.defect.disregistry(base, disl)
            rec.check(c3.shape == c0.shape and np.array_equal(c3, c0) and np.array_equal(d3, d0), 'disregistry with the documented defaults (m = x, n = y, plane through the origin) = the same stated explicitly',
                      'disregistry:defaults')
            rec.count('disregistry:defaults-judged')
    except Exception as e:
        rec.fail('disregistry accepts its vectors as list / tuple', f'disregistry:{kind}:exception:list-or-tuple', exception=e)
    bp = np.array(base.atoms.pos)
    y = bp @ n - center @ n
    ya, yb = y[y > 0].min(), y[y < 0].max()
    h = ya - yb
    xa = np.unique(np.round(bp[np.abs(y - ya) < 1e-6] @ m, 6))
    xb = np.unique(np.round(bp[np.abs(y - yb) < 1e-6] @ m, 6))
    rec.count('disregistry:evaluated')
    if len(xa) < 4 or len(xb) < 4:
        rec.count('disregistry:exempt-too-few-columns')
        return
    # largest distance over which the observer has to interpolate or hold a value constant
    dx = max(np.diff(xa).max(), np.diff(xb).max(), abs(xa[0] - xb[0]), abs(xa[-1] - xb[-1]))
    cx = center @ m
    Wm, Wp = cx - coord[0], coord[-1] - cx
    acc = dr[0] - dr[-1]
    lvec = np.array(disl.box.vects[info['line']])

    def reduced(r):
        # displacements between periodic systems are defined modulo the periodic line vector only
        k = np.round(r @ lvec / (lvec @ lvec))
        if k != 0:
            rec.count('disregistry:reduced-modulo-line-vector')
        return r - k * lvec
    if min(Wm, Wp) < 4 * max(h, dx):
        rec.count('disregistry:exempt-narrow')
        return
    rec.count('disregistry:judged')
    if kind == 'array' and last['linear']:
        exp = b * (coord[-1] - coord[0]) / last['Lm']
        rec.close(2.0 * dx / last['Lm'] * bn + 1e-9, reduced(acc - exp), np.zeros(3), 'uniform field: disregistry accumulates to b (x_end - x_start) / L_m (modulo the line vector)',
                  'disregistry:array-linear', got=acc, expected=exp, h=h, L=last['Lm'], dx=dx)
        return
    # tails of the elastic field beyond the sampled width + the field's variation (|du/dx| <= 4 |b| / (2 pi W)) over dx
    bound = 4.0 * (OD.tail(h, Wm) + OD.tail(h, Wp)) * bn + 4.0 * bn * dx / (2 * np.pi) * (1 / Wm + 1 / Wp)
    if kind == 'array':
        bound += 2.0 * dx / last['Lm'] * bn
    err = np.linalg.norm(reduced(acc - b))
    rec.count('disregistry:bound-used-percent-sum', int(100 * err / bound))
    rec.check(err <= bound, 'disregistry accumulates to one Burgers vector across the slip plane (within the analytic tail bound)',
              f'disregistry:{kind}', got=acc, b=b, err=err, bound=bound, h=h, Wm=Wm, Wp=Wp, dx=dx)


# --------------------------------------------------------------------------- #
# workload

def build_cell(am, cell):
    return am.System(atoms=am.Atoms(atype=cell['atype'].copy(), pos=cell['rel'].copy()),
                     box=am.Box(vects=cell['vects'].copy()), scale=True, symbols=list(cell['symbols']))


def with_trailing_type(cell):
    """The same crystal with one more declared, unpopulated atom type at the end."""
    out = dict(cell)
    out['symbols'] = list(cell['symbols']) + ['Xx']
    return out


def sextic_gap(Cij, vects, xi, hkl, m, n):
    """(smallest distance between two Stroh eigenvalues of the upper half plane, smallest imaginary part) for the
    elastic problem of this orientation, from the C12 oracle.  Small values = (near-)degenerate problem that the
    Stroh solver legitimately refuses (C12 excludes it: gap >= 0.05, Im p >= 0.08)."""
    from ..oracle import c12_volterra as V
    m_, n_ = OC.axis(m), OC.axis(n)
    T = OC.dislocation_rotation(np.asarray(vects, float), OC.as3(xi), OC.as3(hkl, plane=True), m_, n_)
    c4 = V.rotate4(V.c4_from_voigt(np.asarray(Cij, float)), T)
    return V.root_gap(c4, m_, n_)


def make_dislocation(ctx, am, cell, sc, Cd, mn, init_kw, as_vectors=False, ucell=None, C=None, handed=None):
    """handed: optional dict(burgers, xi, hkl, m, n) of argument OBJECTS to hand over instead of fresh ones
    (the caller keeps them and may overwrite them afterwards)."""
    rec = ctx.rec
    if ucell is None:
        ucell = build_cell(am, cell)
    if C is None:
        C = am.ElasticConstants(**Cd)
    m, n = mn
    if as_vectors:
        m, n = OC.axis(m).tolist(), OC.axis(n).tolist()
    h = dict(burgers=sc['burgers'], xi=sc['xi'], hkl=sc['hkl'], m=m, n=n)
    if handed:
        h.update(handed)
    d = None
    try:
        d = am.defect.Dislocation(ucell, C, h['burgers'], h['xi'], h['hkl'], conventional_setting=cell['setting'], m=h['m'], n=h['n'], **init_kw)
    except ValueError as e:
        hexc = cell['family'] == 'hcp' and np.linalg.norm(np.cross(OC.unit(OC.cart(OC.as3(sc['xi']), cell['vects'])), [0, 0, 1.0])) < 1e-9
        may_be_oblique = tuple(mn) != ('y', 'z') and (sc.get('character') not in ('edge', 'screw') or '{123}' in sc['system'] or cell['family'] == 'hcp')
        gap = (1.0, 1.0)
        if 'isotropic' in str(e):
            try:
                gap = sextic_gap(C.Cij, cell['vects'], sc['xi'], sc['hkl'], *mn)
            except Exception:
                pass
        if hexc and 'isotropic' in str(e):
            rec.refusal('init:hexagonal-line-along-c:no-elastic-solution')     # Stroh degenerate, isotropic solver refuses: C12's domain
        elif 'isotropic' in str(e) and (gap[0] < 0.05 or gap[1] < 0.08):
            # accidental near-degeneracy of the sextic for this random stiffness and line (first seen in a thorough run:
            # hcp prismatic<a>, mixed line): the Stroh solver refuses, which is C12's exclusion, not a C13 matter
            rec.refusal('init:near-degenerate-sextic:no-elastic-solution')
        elif may_be_oblique and 'isotropic' not in str(e):
            # non-default axes + a line/plane for which no mutually orthogonal lattice vectors need exist: a refusal is
            # the repaired behaviour for what is otherwise the known 'orientation:oblique' finding
            rec.refusal('init:non-default-axes:cell-vectors-cannot-be-aligned')
        else:
            rec.fail('Dislocation can be constructed for a standard slip system', 'init:exception:ValueError', exception=e, system=sc['system'], xi=sc['xi'])
    except Exception as e:
        rec.fail('Dislocation can be constructed for a standard slip system', f'init:exception:{type(e).__name__}', exception=e, system=sc['system'], xi=sc['xi'])
    return d


def geometry(d):
    """Observed numbers the generator needs to stay inside the domain."""
    info = d._vf
    rv = info['rv']
    n, m = info['n'], info['m']
    lens = np.array([abs(rv[info['line']] @ info['xi']), abs(rv[info['motion']] @ m), abs(rv[info['cut']] @ n)])
    return dict(Lline=lens[0], Lm=lens[1], Ln=lens[2], natoms=d.rcell.natoms)


def half_gap(d, shift):
    """Distance from the slip plane (n-coordinate 0) to the nearest atomic plane for a given shift."""
    info = d._vf
    c = plane_gaps(d.rcell.atoms.pos @ info['n'] + shift @ info['n'], info['W'])
    return min(c.min(), info['W'] - c.max())


def pick_mults(d, rng, target_m, target_n, nline, cap):
    info = d._vf
    g = geometry(d)
    km = max(2, 2 * int(np.ceil(target_m / g['Lm'] / 2)))
    kn = max(2, 2 * int(np.ceil(target_n / g['Ln'] / 2)))
    kl = nline
    while g['natoms'] * km * kn * kl > cap and (km > 2 or kn > 2 or kl > 1):
        if kl > 1:
            kl -= 1
        elif km >= kn and km > 2:
            km -= 2
        elif kn > 2:
            kn -= 2
        else:
            km -= 2
    mults = [0, 0, 0]
    mults[info['line']], mults[info['motion']], mults[info['cut']] = kl, km, kn
    return mults


def shift_request(d, rng, mode, k):
    """kwargs for a shift request + the Cartesian shift it means."""
    info = d._vf
    shifts = np.asarray(d.shifts, float)
    k = k % len(shifts)
    if mode == 'index':
        return dict(shiftindex=int(k)), shifts[k]
    base = shifts[k]
    hg = half_gap(d, base)
    s = base + rng.uniform(-0.3, 0.3) * hg * info['n'] + rng.uniform(-1, 1) * info['rv'][info['motion']] * 0.5 + rng.uniform(-1, 1) * info['rv'][info['line']] * 0.5
    if mode == 'explicit':
        return dict(shift=s.copy()), s
    relshift = np.linalg.solve(info['rv'].T, s)
    return dict(shift=relshift, shiftscale=True), relshift @ info['rv']


def center_request(d, rng, mode, mults, shift):
    info = d._vf
    if mode == 'none':
        return {}
    g = geometry(d)
    hg = half_gap(d, shift)
    c = (rng.uniform(-1, 1) * g['Lm'] * mults[info['motion']] / 6.0 * info['m'] + rng.uniform(-0.5, 0.5) * hg * info['n']
         + rng.uniform(-1, 1) * g['Lline'] * info['xi'])
    if mode == 'nextgap':
        # slip plane through the middle of the NEXT gap between atomic planes (the core sits one plane higher)
        pl = plane_gaps(d.rcell.atoms.pos @ info['n'] + shift @ info['n'], info['W'])
        upper = pl[1] if len(pl) > 1 else pl[0] + info['W']
        c = c - (c @ info['n']) * info['n'] + 0.5 * (pl[0] + upper) * info['n']
        return dict(center=c)
    if mode == 'cart':
        return dict(center=c)
    return dict(center=np.linalg.solve(info['rv'].T, c), centerscale=True)


def slip_plane_clear(d, shift, center_kw):
    """Slip plane (through the centre) at least 0.2 of the half gap away from every atomic plane."""
    info = d._vf
    c = center_kw.get('center')
    if c is None:
        cn = 0.0
    else:
        c = np.asarray(c, float)
        cn = (c @ info['rv'] if center_kw.get('centerscale') else c) @ info['n']
    planes = plane_gaps(d.rcell.atoms.pos @ info['n'] + shift @ info['n'] - cn, info['W'])
    return min(planes.min(), info['W'] - planes.max()) > 0.2 * half_gap(d, shift)


def boundary_request(d, rng, mode, mults, cell):
    info = d._vf
    if mode == 'none':
        return {}
    shape, scaled = mode
    rv = info['rv'] * np.array(mults, float)[:, None]
    origin = -sum(0.5 * rv[i] for i in range(3) if i != info['line'])
    dmin = OD.side_face_distances(rv, origin, info['line']).min()
    w = rng.uniform(0.15, 0.5) * dmin
    kw = dict(boundaryshape=shape) if shape in ('cylinder', 'box') else {}
    if scaled:
        kw.update(boundarywidth=w / np.linalg.norm(cell['vects'][0]), boundaryscale=True)
    else:
        kw.update(boundarywidth=w)
    return kw


BOUNDARY_MODES = ['none', ('cylinder', False), ('box', False), ('cylinder', True), ('box', True), ('cylinder', False)]
SHIFT_MODES = ['default', 'init-index', 'call-index', 'call-explicit', 'call-scaled', 'init-explicit']
CENTER_MODES = ['none', 'cart', 'scaled', 'nextgap']
SIZE_MODES = ['list', 'default', 'min', 'list+min', 'list', 'tuple', 'list', 'list']


def apply_form(rec, kw, form, info, int_center):
    """Hand the array-like arguments (shift, centre) over as ndarray / list / tuple / float32 array; a Cartesian
    centre may also be a list of Python ints (whole Angstroms along m and the line, none along n)."""
    touched = False
    for key in ('shift', 'center'):
        if key not in kw:
            continue
        v = np.asarray(kw[key], float)
        if key == 'center' and int_center and not kw.get('centerscale'):
            v = np.round(v @ info['m']) * info['m'] + np.round(v @ info['xi']) * info['xi']
            kw[key] = [int(x) for x in np.round(v)]
            rec.count('form:center-int')
            touched = True
            continue
        if form == 'list':
            kw[key] = v.tolist()
        elif form == 'tuple':
            kw[key] = tuple(v.tolist())
        elif form == 'float32':
            kw[key] = v.astype(np.float32)
        else:
            kw[key] = v
        touched = True
    if touched:
        rec.count('form:' + form)


def run_generator(ctx, mon, am, d, which, kw, do_disreg=True):
    """Call the real generator (monitors fire inside), then the disregistry clause."""
    rec = ctx.rec
    mon.last = None
    before = {k_: copy.deepcopy(v) for k_, v in kw.items() if isinstance(v, (list, np.ndarray))}
    try:
        getattr(d, which)(**kw)
    except Exception:
        pass                      # recorded and classified by the postcondition monitor
    same = all(type(kw[k_]) is type(v) and (np.array_equal(kw[k_], v) if isinstance(v, np.ndarray) else kw[k_] == v and [type(x) for x in kw[k_]] == [type(x) for x in v])
               for k_, v in before.items())
    if before:
        rec.check(same, 'a generator leaves the argument objects it was handed (size multipliers, shift, centre) as they were', f'args:caller-objects-rewritten:{which}',
                  handed={k_: v for k_, v in before.items()}, after={k_: kw[k_] for k_ in before})
    last = mon.last
    if last is None:
        rec.count('harness:monitor-did-not-complete')       # surfaces as a harness error at the end of run()
        return None
    if last.get('ok') and do_disreg:
        check_disregistry(rec, am, d, last)
    return last



# --------------------------------------------------------------------------- #
# alternative construction paths: records

def record_text(rc, cell, sc, mn, probe, rng, k):
    """(json text, xml text, id) of a dislocation record that states the case's parameters in the case's spellings."""
    style = rc['style']
    params = {}
    hkl, xi, b = np.asarray(sc['hkl'], float), np.asarray(sc['xi'], float), np.asarray(sc['burgers'], float)
    params['slip_hkl'] = OR.miller_text(hkl, 'bracket' if style == 'fraction' else style)
    params[OR.XI] = OR.miller_text(xi, 'bracket' if style == 'fraction' else style)
    params['burgers'] = OR.miller_text(b, style)
    if rc['axes_stated']:
        params['m'] = ' '.join(str(int(x)) for x in OC.axis(mn[0]))
        params['n'] = ' '.join(str(int(x)) for x in OC.axis(mn[1]))
    what, word = rc['shift'], rc['word']
    if what in ('absolute', 'relative'):
        skw, _ = shift_request(probe, rng, 'explicit' if what == 'absolute' else 'scaled', k)
        params['shift'] = ' '.join(OR.number_text(x) for x in np.asarray(skw['shift'], float))
        if word is not None:
            params['shiftscale'] = word
    elif what == 'index':
        idx = k % len(probe.shifts)
        params['shiftindex'] = int(idx) if rc['index_as_int'] else str(int(idx))
    if cell['setting'] != 'p' or rc['setting_stated']:
        params['conventional_setting'] = cell['setting']
    id_ = f"vf--{rc['form']}--{rc['shift']}"
    doc = OR.document(params, id_=id_, character='mixed' if rc['character'] not in ('edge', 'screw') else rc['character'],
                      burgers_text=params['burgers'], plane=np.round(hkl), line=np.round(xi))
    return OR.to_json(doc), OR.to_xml(doc), id_


def from_record(am, rc, jtext, xtext, id_, ucell, C, tmp, tag):
    """Hand the record to the real classmethods in the case's form.  Returns the object and, where the source is an
    object that can be used again (data model, record object, file, database), a callable building from the SAME source again."""
    D = am.defect.Dislocation
    form = rc['form']
    text = jtext if rc['markup'] == 'json' else xtext
    if form == 'json-text':
        return D.fromrecord(jtext, ucell, C), None
    if form == 'xml-text':
        return D.fromrecord(xtext, ucell, C), None
    if form == 'datamodel':
        from DataModelDict import DataModelDict as DM
        src = DM(text)
        return D.fromrecord(src, ucell, C), (lambda: D.fromrecord(src, ucell, C))
    if form == 'record-object':
        src = am.library.load_record('dislocation', model=text)
        return D.fromrecord(src, ucell, C), (lambda: D.fromrecord(src, ucell, C))
    if form == 'bytes-file':
        return D.fromrecord(io.BytesIO(text.encode('utf-8')), ucell, C), None
    if form == 'path':
        fn = os.path.join(tmp, f'{tag}.{rc["markup"]}')
        with open(fn, 'w', encoding='utf-8') as f:
            f.write(text)
        return D.fromrecord(fn, ucell, C), (lambda: D.fromrecord(fn, ucell, C))
    # a local reference database holding the one record
    root = os.path.join(tmp, f'db-{tag}')
    os.makedirs(os.path.join(root, 'dislocation'), exist_ok=True)
    with open(os.path.join(root, 'dislocation', id_ + '.json'), 'w', encoding='utf-8') as f:
        f.write(jtext)
    db = am.library.Database(local=True, remote=False, localpath=root)
    return (D.fromdatabase(name=id_, ucell=ucell, C=C, database=db, prompt=False),
            (lambda: D.fromdatabase(name=id_, ucell=ucell, C=C, database=db, prompt=False)))


def check_stated(rec, d, st, cell, probe, how):
    """The object built from a record is the one the record's TEXT describes (read by the oracle, not by atomman)."""
    info = d._vf
    vects = cell['vects']
    T = OC.dislocation_rotation(vects, OC.as3(st['xi']), OC.as3(st['hkl'], plane=True), st['m'], st['n'])
    rec.close(1e-9, d.transform, T, 'a Dislocation built from a record has the slip plane, line direction and axes the record states', f'{how}:orientation')
    b = T @ OC.cart(OC.as3(st['burgers']), vects)
    rec.close(1e-7 * np.linalg.norm(b), d.dislsol.burgers, b, 'a Dislocation built from a record has the Burgers vector the record states', f'{how}:burgers')
    mult = OR.CENTRING[st['setting']]
    rec.check(d.ucell_prim.natoms * mult == len(cell['rel']), 'a Dislocation built from a record uses the cell setting the record states (primitive cell = 1/multiplicity of the given cell)',
              f'{how}:setting', setting=st['setting'], prim_natoms=d.ucell_prim.natoms, ucell_natoms=len(cell['rel']))
    if 'oblique' in info['cls']:
        rec.count('skipped:oblique-class:record-shift')
        return False
    Lr = np.abs(info['rv']).max()
    req = OR.stated_shift(st, info['rv'], info['shifts0'])
    rec.close(1e-12 * (1 + Lr), d.shift, req, 'a Dislocation built from a record holds the shift the record states (absolute, relative to the rotated cell, by index, or the first offered one)',
              f'{how}:shift:{st["shift_kind"]}', stated={k_: st.get(k_) for k_ in ('shift', 'scale', 'index')})
    info['held'] = np.array(req, float)        # what the generators are judged against from here on
    pi = probe._vf
    same = (np.abs(np.asarray(d.uvws, float) - np.asarray(probe.uvws, float)).max() < 1e-12 and np.abs(info['rv'] - pi['rv']).max() < 1e-12 * (1 + Lr)
            and d.rcell.natoms == probe.rcell.natoms and np.abs(d.rcell.atoms.pos - probe.rcell.atoms.pos).max() < 1e-12 * (1 + Lr)
            and np.abs(info['shifts0'] - pi['shifts0']).max() < 1e-12 * (1 + Lr))
    rec.check(same, 'built from a record = built by the constructor from the stated values (cell vectors, rotated cell, offered shifts)', f'{how}:differs-from-constructor')
    rec.count('monitor_ok:record-stated')
    return True


def snap(system):
    return dict(pos=np.array(system.atoms.pos), atype=np.array(system.atoms.atype), vects=np.array(system.box.vects), origin=np.array(system.box.origin),
                pbc=[bool(x) for x in system.pbc], symbols=tuple(system.symbols), natoms=int(system.natoms))


def snap_equal(a, b, tol):
    return (a['natoms'] == b['natoms'] and a['pbc'] == b['pbc'] and a['symbols'] == b['symbols'] and np.array_equal(a['atype'], b['atype'])
            and np.abs(a['pos'] - b['pos']).max() <= tol and np.abs(a['vects'] - b['vects']).max() <= tol and np.abs(a['origin'] - b['origin']).max() <= tol)


def state_of(d):
    return dict(shift=np.array(d.shift, float), shifts=np.array(d.shifts, float), transform=np.array(d.transform, float), uvws=np.array(d.uvws, float),
                burgers=np.array(d.dislsol.burgers, float), m=np.array(d.dislsol.m, float), n=np.array(d.dislsol.n, float),
                rpos=np.array(d.rcell.atoms.pos), rvects=np.array(d.rcell.box.vects))


def state_equal(a, b, skip=()):
    return all(a[k_].shape == b[k_].shape and np.array_equal(a[k_], b[k_]) for k_ in a if k_ not in skip)


def case_inputs(i, rng, ngroup_offset=0):
    struct = GEN.STRUCTS[i % 8]
    q = i // 8
    mn = GEN.MN[q % 6]
    r = q // 6
    character = GEN.CHARACTERS[r % 4]
    t = r // 4
    cell = GEN.unit_cell(struct, rng)
    sc = GEN.slip_case(cell, rng, isys=i // 3 + t, character=character, iline=i // 5 + t, flip=bool((i // 2 + t) % 2))
    Cd = GEN.elastic_constants(cell, rng, isotropic=(i % 29 == 7 and cell['family'] != 'hcp'))
    return struct, mn, character, cell, sc, Cd, t


def run(ctx):
    import atomman as am
    rec = ctx.rec
    cover.start(FILES)
    mon = Monitors(rec, am)
    real_disreg = am.defect.disregistry
    monitor.observe_function(real_disreg, lambda *x: None, label='disregistry')
    cap = ctx.pick(2500, 6000)

    # ------------------------------------------------------------ monopoles
    for i in ctx.cases('monopole', ctx.pick(192, 1920)):
        rng = ctx.rng
        struct, mn, character, cell, sc, Cd, t = case_inputs(i, rng)
        bmode = BOUNDARY_MODES[(i + i // 8 + i // 48) % 6]
        smode = SHIFT_MODES[(i + i // 6 + t) % 6]
        cmode = CENTER_MODES[(i // 4 + i // 48 + t) % 4]
        zmode = SIZE_MODES[(i + i // 8 + i // 64 + t) % 8]
        k = int(rng.integers(0, 6))
        sig = ('monopole', struct, sc['system'], character, ''.join(mn), str(bmode), smode, cmode, zmode, GR.ARG_FORMS[(i // 2 + i // 24) % 4])
        if i % 11 == 5:
            cell = with_trailing_type(cell)
            rec.count('form:trailing-unpopulated-type')
        init_kw = {}
        if smode == 'init-index':
            init_kw = dict(shiftindex=k % 2)          # every cell here has at least 2 atomic planes per period
        d = make_dislocation(ctx, am, cell, sc, Cd, mn, init_kw, as_vectors=bool(i % 5 == 3))
        if d is None or not hasattr(d, '_vf'):
            rec.case(sig, nontrivial=False)
            continue
        if smode == 'init-explicit':
            # an explicit shift can only be computed once the cell is known: re-construct with it
            skw, shift = shift_request(d, rng, 'explicit', k)
            d = make_dislocation(ctx, am, cell, sc, Cd, mn, skw, as_vectors=bool(i % 5 == 3))
            if d is None:
                rec.case(sig, nontrivial=False)
                continue
            call_shift = {}
        elif smode in ('call-index', 'call-explicit', 'call-scaled'):
            call_shift, shift = shift_request(d, rng, smode.split('-')[1], k)
        else:
            call_shift, shift = {}, np.array(d.shift, float)
        info = d._vf
        mults = pick_mults(d, rng, rng.uniform(18, 45), rng.uniform(18, 45), int(rng.integers(1, 4)), cap)
        kw = dict(call_shift)
        g = geometry(d)
        if zmode in ('list', 'list+min'):
            kw['sizemults'] = list(mults)
        elif zmode == 'tuple':
            kw['sizemults'] = tuple(mults)
        if zmode in ('min', 'list+min'):
            lens = np.linalg.norm(info['rv'], axis=1)
            names = ('amin', 'bmin', 'cmin')
            for j in range(3):
                if j != info['line'] and (zmode == 'min' or rng.random() < 0.6):
                    kw[names[j]] = float(rng.uniform(1.0, 1.6) * lens[j] * mults[j]) if zmode == 'list+min' else float(rng.uniform(14, 40))
        if zmode in ('min', 'default'):
            mults = None
        eff = mults if mults is not None else [2 if j != info['line'] else 1 for j in range(3)]
        for j, nm in enumerate(('amin', 'bmin', 'cmin')):
            if nm in kw:
                need = int(np.ceil(kw[nm] / np.linalg.norm(info['rv'][j])))
                need += need % 2
                eff = list(eff)
                eff[j] = max(eff[j], need)
        ckw = center_request(d, rng, cmode, eff, shift)
        if not slip_plane_clear(d, shift, ckw):
            ckw = {}
            rec.count('generator:centre-dropped')
        elif cmode == 'nextgap':
            rec.count('generator:centre-in-next-gap')
        kw.update(ckw)
        aform = GR.ARG_FORMS[(i // 2 + i // 24) % 4]
        apply_form(rec, kw, aform, info, int_center=(cmode == 'cart' and i % 3 == 0))
        kw.update(boundary_request(d, rng, bmode, eff, cell))
        kw['return_base_system'] = bool(i % 2)
        kwrec = {k_: (list(v) if isinstance(v, list) else v) for k_, v in kw.items()}      # as handed over
        last = run_generator(ctx, mon, am, d, 'monopole', kw)
        kw = kwrec
        ok = bool(last and last.get('ok'))
        rec.case(sig + (info['cls'],), nontrivial=ok and last['natoms'] > 40,
                 fp=fingerprint(struct, mn, sc['hkl'], sc['burgers'], sc['xi'], cell['vects'], Cd, {k_: np.asarray(v).tolist() if not isinstance(v, (str, bool)) else v for k_, v in kw.items()}))
        if i < 12 or (last and not last.get('ok') and i < 400):
            rec.sample(dict(struct=struct, system=sc['system'], hkl=sc['hkl'], burgers=sc['burgers'], xi=sc['xi'], m=mn[0], n=mn[1], cls=info['cls'],
                            uvws=np.asarray(d.uvws), kwargs={k_: v for k_, v in kw.items()}, natoms=last['natoms'] if ok else None,
                            outcome='built' if ok else str(last.get('why') if last else None)))

    # ------------------------------------------------------- periodic arrays
    for i in ctx.cases('array', ctx.pick(192, 1920)):
        rng = ctx.rng
        struct, mn, character, cell, sc, Cd, t = case_inputs(i, rng)
        smode = ['default', 'call-index', 'call-explicit', 'init-index', 'call-scaled'][(i + i // 6 + t) % 5]
        cmode = CENTER_MODES[(i // 4 + i // 48 + t) % 3]
        zmode = ['list', 'list', 'list+min', 'list', 'tuple', 'list', 'list', 'list'][(i + i // 8 + i // 64 + t) % 8]
        linear = bool((i + i // 8 + t) % 2)
        bwm = (i // 2 + i // 16 + t) % 3                       # 0: none, 1: absolute, 2: scaled
        k = int(rng.integers(0, 6))
        sig = ('array', struct, sc['system'], character, ''.join(mn), 'linear' if linear else 'solution', smode, cmode, zmode, bwm, GR.ARG_FORMS[(i // 2 + i // 24 + 1) % 4])
        if i % 11 == 5:
            cell = with_trailing_type(cell)
            rec.count('form:trailing-unpopulated-type')
        init_kw = dict(shiftindex=k % 2) if smode == 'init-index' else {}
        d = make_dislocation(ctx, am, cell, sc, Cd, mn, init_kw, as_vectors=bool(i % 5 == 1))
        if d is None or not hasattr(d, '_vf'):
            rec.case(sig, nontrivial=False)
            continue
        info = d._vf
        if smode.startswith('call-'):
            call_shift, shift = shift_request(d, rng, smode.split('-')[1], k)
        else:
            call_shift, shift = {}, np.array(d.shift, float)
        mults = pick_mults(d, rng, rng.uniform(20, 50), rng.uniform(16, 40), int(rng.integers(1, 3)), cap)
        kw = dict(call_shift)
        kw['sizemults'] = tuple(mults) if zmode == 'tuple' else list(mults)
        if zmode == 'list+min':
            names = ('amin', 'bmin', 'cmin')
            j = info['cut']
            kw[names[j]] = float(rng.uniform(1.0, 1.5) * np.linalg.norm(info['rv'][j]) * mults[j])
            need = int(np.ceil(kw[names[j]] / np.linalg.norm(info['rv'][j])))
            mults[j] = max(mults[j], need + need % 2)
        ckw = center_request(d, rng, cmode, mults, shift)
        if ckw:
            # the array's slip plane stays in the middle of the cell: keep the centre in the plane
            c = np.asarray(ckw['center'], float)
            cc = c @ info['rv'] if ckw.get('centerscale') else c
            cc = cc - (cc @ info['n']) * info['n']
            ckw['center'] = np.linalg.solve(info['rv'].T, cc) if ckw.get('centerscale') else cc
        kw.update(ckw)
        aform = GR.ARG_FORMS[(i // 2 + i // 24 + 1) % 4]
        apply_form(rec, kw, aform, info, int_center=(cmode == 'cart' and i % 3 == 0))
        g = geometry(d)
        if bwm:
            w = rng.uniform(0.1, 0.3) * g['Ln'] * mults[info['cut']]
            if bwm == 2:
                kw.update(boundarywidth=w / np.linalg.norm(cell['vects'][0]), boundaryscale=True)
            else:
                kw.update(boundarywidth=w)
        kw['linear'] = linear
        kw['return_base_system'] = bool(i % 2)
        if i % 7 == 3:
            kw['cutoff'] = float(rng.uniform(0.3, 0.6))
        kwrec = {k_: (list(v) if isinstance(v, list) else v) for k_, v in kw.items()}      # periodicarray rewrites a list it is handed
        last = run_generator(ctx, mon, am, d, 'periodicarray', kw)
        kw = kwrec
        ok = bool(last and last.get('ok'))
        rec.case(sig + (info['cls'],), nontrivial=ok and last['natoms'] > 40,
                 fp=fingerprint(struct, mn, sc['hkl'], sc['burgers'], sc['xi'], cell['vects'], Cd, {k_: np.asarray(v).tolist() if not isinstance(v, (str, bool)) else v for k_, v in kw.items()}))
        if i < 12:
            rec.sample(dict(struct=struct, system=sc['system'], hkl=sc['hkl'], burgers=sc['burgers'], xi=sc['xi'], m=mn[0], n=mn[1], cls=info['cls'],
                            kwargs={k_: v for k_, v in kw.items()}, natoms=last['natoms'] if ok else None, removed=last.get('removed') if ok else None,
                            outcome='built' if ok else str(last.get('why') if last else None)))

    # --------------------------------------------- flagged configurations
    FLAGGED = [('fcc/f', [1, 1, 1], [.5, -.5, 0], [2, 3, -5]), ('fcc/f', [1, 1, 1], [.5, -.5, 0], [1, 3, -4]),
               ('bcc/i', [1, 1, 2], [.5, .5, -.5], [3, 1, -2]), ('fcc/p', [1, 1, 1], [0, .5, -.5], [3, -1, -2])]
    for i in ctx.cases('flagged', ctx.pick(24, 96)):
        rng = ctx.rng
        struct, hkl, b, xi = FLAGGED[i % 4]
        mn = [('y', 'z'), ('z', 'x'), ('x', 'y')][(i // 4) % 3]
        shape = ['cylinder', 'box'][(i // 12) % 2]
        cell = GEN.unit_cell(struct, rng)
        Cd = GEN.elastic_constants(cell, rng)
        sc = dict(system='flagged', hkl=hkl, burgers=b, xi=xi)
        sig = ('flagged', struct, str(xi), ''.join(mn), shape)
        d = make_dislocation(ctx, am, cell, sc, Cd, mn, {})
        if d is None or not hasattr(d, '_vf'):
            rec.case(sig, nontrivial=False)
            continue
        info = d._vf
        mults = pick_mults(d, rng, 20, 20, 1, cap)
        kw = dict(sizemults=list(mults))
        kw.update(boundary_request(d, rng, (shape, False), mults, cell))
        last = run_generator(ctx, mon, am, d, 'monopole', kw)
        ok = bool(last and last.get('ok'))
        if ok and mn == ('y', 'z'):
            rec.count('flagged:default-axes-built')
        rec.case(sig + (info['cls'],), nontrivial=ok, fp=fingerprint(struct, xi, mn, shape, cell['vects'], Cd, kw['boundarywidth']))

    # ---------------------------------------------------------- sequences
    for i in ctx.cases('sequence', ctx.pick(48, 480)):
        rng = ctx.rng
        struct = ['fcc/f', 'bcc/i', 'hcp/3', 'fcc-prim'][i % 4]
        mn = GEN.MN[(i // 4) % 3]                              # cyclic assignments (anticyclic ones are covered above)
        character = ['edge', 'mixed', 'screw'][(i // 12) % 3]
        cell = GEN.unit_cell(struct, rng)
        sc = GEN.slip_case(cell, rng, isys=0, character=character, iline=i // 3, flip=bool(i % 2))
        Cd = GEN.elastic_constants(cell, rng)
        init_kw = dict(shiftindex=1) if i % 3 == 1 else {}
        d = make_dislocation(ctx, am, cell, sc, Cd, mn, init_kw)
        plan = i % 4
        sig = ('sequence', struct, sc['system'], character, ''.join(mn), plan)
        if d is None or not hasattr(d, '_vf'):
            rec.case(sig, nontrivial=False)
            continue
        info = d._vf
        mults = pick_mults(d, rng, 24, 20, 1, cap)
        ekw, _ = shift_request(d, rng, 'explicit', 1)
        skw, _ = shift_request(d, rng, 'scaled', 0)
        S = dict(sizemults=None)
        if plan == 0:
            ops = [('periodicarray', dict(shiftindex=1)), ('periodicarray', dict(shiftindex=0)), ('periodicarray', {}), ('monopole', {})]
        elif plan == 1:
            ops = [('monopole', ekw), ('monopole', {}), ('monopole', dict(shiftindex=0)), ('periodicarray', {})]
        elif plan == 2:
            ops = [('monopole', dict(shiftindex=1)), ('periodicarray', {}), ('monopole', dict(shiftindex=0)), ('periodicarray', dict(shiftindex=0)), ('monopole', skw)]
        else:
            ops = [('set_shift', dict(shiftindex=1)), ('periodicarray', {}), ('set_shift', ekw), ('monopole', {}), ('periodicarray', dict(shiftindex=0)), ('monopole', {})]
        nok = 0
        for which, okw in ops:
            if which == 'set_shift':
                with ctx.guard('set_shift accepts an index or an explicit shift', 'sequence:set_shift'):
                    d.set_shift(**okw)
                    exp = np.asarray(d.shifts)[okw['shiftindex']] if 'shiftindex' in okw else np.asarray(okw['shift'], float)
                    rec.close(1e-12 * (1 + np.abs(exp).max()), d.shift, exp, 'set_shift stores the requested shift', 'sequence:set_shift:value')
                continue
            kw = dict(okw)
            kw['sizemults'] = list(mults)
            if which == 'periodicarray':
                kw['linear'] = bool(i % 2)
            last = run_generator(ctx, mon, am, d, which, kw, do_disreg=False)
            if last and last.get('ok'):
                nok += 1
                rec.count('sequence:calls-built')
                if 'shiftindex' in okw and okw['shiftindex'] == 0:
                    rec.count('sequence:explicit-index0-after-other-shift')
        rec.case(sig, nontrivial=nok >= 3, fp=fingerprint(struct, mn, sc['xi'], cell['vects'], plan, Cd))
        if i < 8:
            rec.sample(dict(struct=struct, system=sc['system'], xi=sc['xi'], ops=[(w, {k_: np.asarray(v).tolist() for k_, v in o.items()}) for w, o in ops], built=nok))

    # ------------------------------------------------ built from a record
    tmp = tempfile.mkdtemp(prefix='vf-c13-')
    D = am.defect.Dislocation
    for i in ctx.cases('record', ctx.pick(112, 840)):
        rng = ctx.rng
        rc = GR.record_case(i)
        cell = GEN.unit_cell(rc['struct'], rng)
        mn = rc['mn']
        sc = GEN.slip_case(cell, rng, isys=i // 5, character=rc['character'], iline=i // 7, flip=bool((i // 3) % 2))
        Cd = GEN.elastic_constants(cell, rng)
        k = int(rng.integers(0, 6))
        sig = ('record', rc['form'], rc['markup'], rc['shift'], str(rc['word']), rc['struct'], sc['system'], rc['character'], ''.join(mn), rc['style'],
               rc['axes_stated'], rc['generator'])
        probe = make_dislocation(ctx, am, cell, sc, Cd, mn, {})
        if probe is None or not hasattr(probe, '_vf') or 'oblique' in probe._vf['cls']:
            rec.case(sig, nontrivial=False)
            rec.count('record:no-probe')
            continue
        jtext, xtext, id_ = record_text(rc, cell, sc, mn, probe, rng, k)
        st = OR.stated(OR.read_parameters(jtext if (rc['form'] in ('json-text', 'database') or (rc['form'] != 'xml-text' and rc['markup'] == 'json')) else xtext))
        ucell, C = build_cell(am, cell), am.ElasticConstants(**Cd)
        how = 'fromdatabase' if rc['form'] == 'database' else 'fromrecord'
        d, again = None, None
        with ctx.guard('a Dislocation can be built from a reference record that states what the constructor accepts', f'{how}:exception:{rc["form"]}'):
            d, again = from_record(am, rc, jtext, xtext, id_, ucell, C, tmp, f'r{i}')
        if d is None or not hasattr(d, '_vf'):
            rec.case(sig, nontrivial=False)
            continue
        rec.count('record:form:' + rc['form'])
        rec.count(f'record:shift:{rc["shift"]}:{rc["word"]!r}')
        written = OR.read_parameters(jtext)
        rec.count('record:axes-omitted', int('m' not in written))
        rec.count('record:setting-omitted', int('conventional_setting' not in written))
        rec.count('record:setting-centred', int(written.get('conventional_setting', 'p') != 'p'))
        rec.count('record:miller:' + rc['style'])
        if not check_stated(rec, d, st, cell, probe, how):
            rec.case(sig, nontrivial=False)
            continue
        info = d._vf
        if again is not None:
            # the same source object / file / database entry used a second time describes the same dislocation
            d2 = None
            with ctx.guard('a record source can be used a second time', f'{how}:second-use:exception'):
                d2 = again()
            if d2 is not None:
                rec.check(state_equal(state_of(d2), state_of(d)), 'a record source used a second time gives the same Dislocation (shift, offered shifts, orientation, rotated cell)',
                          f'{how}:second-use-differs', form=rc['form'])
                rec.count('record:second-use-judged')
        mults = pick_mults(d, rng, 24, 20, 1, cap)
        kw = dict(sizemults=list(mults), return_base_system=bool(i % 2))
        if rc['boundary']:
            kw['boundarywidth'] = float(rng.uniform(0.1, 0.3) * geometry(d)['Ln'] * mults[info['cut']])
        if rc['generator'] == 'periodicarray':
            kw['linear'] = bool((i // 2) % 2)
        last = run_generator(ctx, mon, am, d, rc['generator'], kw)          # no shift argument: the shift the record stated
        ok = bool(last and last.get('ok'))
        if ok:
            rec.count('record:generated-with-stated-shift:' + rc['generator'])
        rec.case(sig, nontrivial=ok and last['natoms'] > 40, fp=fingerprint(rc['form'], jtext, cell['vects'], Cd, kw))
        if i < 6:
            rec.sample(dict(group='record', form=rc['form'], parameters=OR.read_parameters(jtext), stated_shift=info['held'], generator=rc['generator'],
                            natoms=last['natoms'] if ok else None))

    # ------------------------- two instances, kept results, caller's arrays
    for i in ctx.cases('pair', ctx.pick(60, 600)):
        rng = ctx.rng
        pc = GR.pair_case(i)
        cell = GEN.unit_cell(pc['struct'], rng)
        mn, which, route = pc['mn'], pc['generator'], pc['route']
        sc = GEN.slip_case(cell, rng, isys=0, character=pc['character'], iline=i // 3, flip=bool(i % 2))
        Cd = GEN.elastic_constants(cell, rng)
        sig = ('pair', pc['struct'], sc['system'], pc['character'], ''.join(mn), route, which, pc['edit_ucell'], pc['refusal'])
        ucell, C = build_cell(am, cell), am.ElasticConstants(**Cd)

        def handed():
            return dict(burgers=np.array(sc['burgers'], float), xi=np.array(sc['xi'], float), hkl=np.array(sc['hkl'], float),
                        m=OC.axis(mn[0]), n=OC.axis(mn[1]))
        probe = make_dislocation(ctx, am, cell, sc, Cd, mn, {}, ucell=ucell, C=C)
        if probe is None or not hasattr(probe, '_vf') or 'oblique' in probe._vf['cls']:
            rec.case(sig, nontrivial=False)
            rec.count('pair:no-probe')
            continue
        skw, sA_value = shift_request(probe, rng, 'explicit', 1)
        sA = np.array(sA_value, float)                 # the array object handed over where the route hands one over
        hA = handed()
        if route == 'ctor-array':
            A = make_dislocation(ctx, am, cell, sc, Cd, mn, dict(shift=sA), ucell=ucell, C=C, handed=hA)
            stated = sA_value.copy()
        elif route == 'ctor-index':
            A = make_dislocation(ctx, am, cell, sc, Cd, mn, dict(shiftindex=1), ucell=ucell, C=C, handed=hA)
            stated = np.array(probe._vf['shifts0'][1])
        elif route == 'record':
            rc = dict(GR.record_case(0), style='bare', axes_stated=True, setting_stated=True, shift='absolute', word='False', form='json-text', index_as_int=False)
            params_rng = np.random.default_rng(int(rng.integers(1 << 30)))
            jtext, _, _ = record_text(rc, cell, sc, mn, probe, params_rng, 1)
            stated = OR.stated(OR.read_parameters(jtext))['shift']
            A = None
            with ctx.guard('a Dislocation can be built from a reference record that states what the constructor accepts', 'fromrecord:exception:json-text'):
                A = D.fromrecord(jtext, ucell, C)
            if A is not None and hasattr(A, '_vf') and 'rv' in A._vf:
                A._vf['held'] = np.array(stated, float)
        else:
            A = make_dislocation(ctx, am, cell, sc, Cd, mn, {}, ucell=ucell, C=C, handed=hA)
            stated = sA_value.copy()
            if route == 'set_shift-array' and A is not None:
                with ctx.guard('set_shift accepts an explicit shift', 'pair:set_shift'):
                    A.set_shift(sA)
        if A is None or not hasattr(A, '_vf'):
            rec.case(sig, nontrivial=False)
            continue
        info = A._vf
        L = np.abs(info['rv']).max()
        mults = pick_mults(A, rng, 24, 20, 1, cap)
        cvec = float(rng.uniform(-1, 1)) * geometry(A)['Lm'] * mults[info['motion']] / 8.0 * info['m']
        bw = float(rng.uniform(0.1, 0.25) * geometry(A)['Ln'] * mults[info['cut']])

        def call_kw():
            kw_ = dict(sizemults=list(mults), center=np.array(cvec, float), boundarywidth=bw, return_base_system=True)
            if which == 'periodicarray':
                kw_['linear'] = bool(i % 2)
            return kw_
        K1 = call_kw()
        if route == 'call-array':
            K1['shift'] = sA
        last = run_generator(ctx, mon, am, A, which, K1, do_disreg=False)
        if not (last and last.get('ok')):
            rec.case(sig, nontrivial=False)
            rec.count('pair:first-call-not-built')
            continue
        keepA = (A.base_system, A.disl_system)
        S1 = (snap(keepA[0]), snap(keepA[1]))
        rec.check(np.abs(np.asarray(A.shift, float) - stated).max() <= 1e-12 * (1 + L), 'the object holds the shift it was asked to hold', 'pair:shift-after-first-call', route=route)
        stA = state_of(A)
        stA['shift'] = np.array(stated, float)
        # (1) the caller overwrites every array it handed over
        for arr in list(hA.values()) + [sA, K1['center']]:
            arr[...] = 977.0 + np.arange(arr.size).reshape(arr.shape)
        K1['sizemults'][:] = [7, 9, 11]
        now = state_of(A)
        rec.count('alias:judged')
        ok_shift = np.array_equal(now['shift'], stA['shift']) or np.abs(now['shift'] - stA['shift']).max() <= 1e-12 * (1 + L)
        if route in ('ctor-array', 'set_shift-array', 'call-array'):
            rec.count('alias:shift-array-routes')
        rec.check(ok_shift, 'the shift a Dislocation holds does not follow later changes to the array the caller handed over', 'alias:caller-shift-array',
                  route=route, held=now['shift'], stated=stated)
        rec.check(state_equal(now, stA, skip=('shift',)), 'orientation, Burgers vector, rotated cell and offered shifts do not follow later changes to the arrays the caller handed over',
                  'alias:caller-arrays', route=route)
        rec.check(snap_equal(snap(keepA[0]), S1[0], 0.0) and snap_equal(snap(keepA[1]), S1[1], 0.0),
                  'systems already returned do not follow later changes to the arrays the caller handed over', 'alias:returned-systems-follow-caller-arrays', route=route)
        if not ok_shift:
            rec.count('alias:shift-reset-after-detection')
            A.set_shift(np.array(stated, float))                       # carry on with the stated shift
        A2 = None
        with ctx.guard('a Dislocation object can be deep-copied', 'path:deepcopy:exception'):
            A2 = copy.deepcopy(A)
        # (2) a default-constructed instance from the SAME unit cell / elastic constants objects (after an in-place edit of the cell)
        cellB = dict(cell)
        if pc['edit_ucell']:
            f = float(rng.uniform(1.03, 1.12))
            cellB['vects'] = cell['vects'] * f
            ucell.box_set(vects=cellB['vects'], scale=True)
            rec.count('pair:ucell-edited-in-place')
        B = make_dislocation(ctx, am, cellB, sc, Cd, mn, {}, ucell=ucell, C=C)
        okB = False
        if B is not None and hasattr(B, '_vf'):
            lastB = run_generator(ctx, mon, am, B, which, {k_: v for k_, v in call_kw().items() if k_ != 'center'})
            okB = bool(lastB and lastB.get('ok'))
            rec.count('pair:second-instance-judged', int(okB))
        # (3) A and the results kept from it after B was built and used
        now = state_of(A)
        rec.check(state_equal(now, stA), 'building and using another Dislocation leaves this one as it was (shift, offered shifts, orientation, rotated cell)',
                  'leak:instance-state-changed-by-other-instance', route=route, edited=pc['edit_ucell'])
        rec.check(snap_equal(snap(keepA[0]), S1[0], 0.0) and snap_equal(snap(keepA[1]), S1[1], 0.0),
                  'systems returned earlier are not overwritten by later constructions', 'leak:earlier-results-overwritten', route=route)
        # (4) the same call again with equal arguments
        K2 = call_kw()
        if route == 'call-array':
            K2['shift'] = np.array(stated, float)
        last2 = run_generator(ctx, mon, am, A, which, K2, do_disreg=False)
        nok = 1 + int(okB)
        if last2 and last2.get('ok'):
            nok += 1
            S2 = (snap(A.base_system), snap(A.disl_system))
            tol = 1e-12 * (1 + np.abs(S1[0]['vects']).max())
            rec.check(snap_equal(S2[0], S1[0], tol) and snap_equal(S2[1], S1[1], tol), 'the same call with equal arguments gives the same configuration whatever happened in between',
                      f'repeat:{which}:different-result', route=route)
            rec.check(snap_equal(snap(keepA[0]), S1[0], 0.0) and snap_equal(snap(keepA[1]), S1[1], 0.0) and A.base_system is not keepA[0] and A.disl_system is not keepA[1],
                      'systems returned earlier are not overwritten by a later call on the same object', 'leak:earlier-results-overwritten', route=route, same_object=True)
            rec.count('repeat:judged')
        # (5) the deep copy generates the same configuration
        if A2 is not None:
            last3 = run_generator(ctx, mon, am, A2, which, call_kw() if route != 'call-array' else dict(call_kw(), shift=np.array(stated, float)), do_disreg=False)
            if last3 and last3.get('ok'):
                nok += 1
                tol = 1e-12 * (1 + np.abs(S1[0]['vects']).max())
                rec.check(snap_equal(snap(A2.base_system), S1[0], tol) and snap_equal(snap(A2.disl_system), S1[1], tol),
                          'a deep copy of a Dislocation generates the configuration the original generates', 'path:deepcopy:different-result', route=route)
                rec.count('path:deepcopy-judged')
        # (6) a request naming both a shift and a shift index is refused, at every entry point, and changes nothing
        ent = pc['refusal']
        before = np.array(A.shift, float)
        raised = None
        try:
            if ent == 'set_shift':
                A.set_shift(np.array(stated, float), 0)
            elif ent in ('monopole', 'periodicarray'):
                getattr(A, ent)(sizemults=list(mults), shift=np.array(stated, float), shiftindex=0)
            elif ent == 'init':
                D(ucell, C, sc['burgers'], sc['xi'], sc['hkl'], conventional_setting=cell['setting'], m=mn[0], n=mn[1], shift=np.array(stated, float), shiftindex=0)
            else:
                rc = dict(GR.record_case(0), style='bare', axes_stated=True, setting_stated=True, shift='absolute', word=None, form='json-text', index_as_int=False)
                jt, _, _ = record_text(rc, cell, sc, mn, probe, np.random.default_rng(5), 1)
                jt = jt.replace('"shift":', '"shiftindex": "0",\n   "shift":', 1)
                assert OR.stated(OR.read_parameters(jt))['both']
                D.fromrecord(jt, ucell, C)
        except ValueError as e:
            raised = e
        except Exception as e:
            raised = e
            rec.fail('a request naming both a shift and a shift index is refused with ValueError', f'refusal:shift-and-index:{ent}:other-exception', exception=e)
        rec.count('refusal:judged')
        rec.check(raised is not None, 'a request naming both a shift and a shift index is refused (documented: "cannot be given with shiftindex")',
                  f'refusal:shift-and-index:{ent}:accepted')
        rec.check(np.array_equal(np.array(A.shift, float), before), 'a refused shift request leaves the held shift as it was', f'refusal:shift-and-index:{ent}:state-changed')
        # (7) arrays the object hands out are not its state: the caller scribbles on them (last: nothing is generated afterwards)
        want_shift, want_shifts = np.array(A.shift, float), np.array(A.shifts, float)
        for name in ('shifts', 'shift'):
            out = getattr(A, name)
            try:
                out += 0.37
            except (ValueError, TypeError):
                rec.count('alias:handed-out-array-read-only')
        rec.count('alias:exposure-judged')
        rec.check(np.array_equal(np.array(A.shift, float), want_shift) and np.array_equal(np.array(A.shifts, float), want_shifts),
                  'writing into the arrays handed out by .shift / .shifts does not change the shift the object holds or the shifts it offers',
                  'alias:shift-property-exposes-state', route=route)
        rec.case(sig, nontrivial=nok >= 3, fp=fingerprint(pc['struct'], mn, sc['xi'], cell['vects'], route, which, Cd, mults, cvec, bw))
        if i < 5:
            rec.sample(dict(group='pair', struct=pc['struct'], route=route, generator=which, stated_shift=stated, edited_ucell=pc['edit_ucell'], refusal=ent, built=nok))
    shutil.rmtree(tmp, ignore_errors=True)

    # ------------------------------------------------------------ bookkeeping
    for k, v in monitor.calls.items():
        if isinstance(v, int):
            rec.count('monitor_calls:' + k, v)
    errs = {k: v for k, v in monitor.calls.items() if k.endswith(':post_error') or k.endswith(':pre_error')}
    if errs:
        raise RuntimeError(f'monitor raised internally: {errs} {monitor.calls.get("_post_tracebacks")}')
    f = 'atomman/defect/Dislocation/__init__.py'
    for ln in (420, 422, 426, 428, 432, 434):
        rec.count('reach:set_cells-orientation-branches', int(cover.hit(f, ln)))
    rec.count('reach:identify_shifts', cover.hits(f, 454, 475))
    rec.count('reach:monopole-body', cover.hits('atomman/defect/Dislocation/_monopole.py', 241, 335))
    rec.count('reach:cylinder_boundary', cover.hits('atomman/defect/Dislocation/_monopole.py', 71, 132))
    rec.count('reach:box_boundary', cover.hits('atomman/defect/Dislocation/_monopole.py', 35, 48))
    rec.count('reach:build_disl_array', cover.hits('atomman/defect/Dislocation/_periodicarray.py', 305, 427))
    rec.count('reach:disregistry', cover.hits('atomman/defect/disregistry.py', 50, 112))
    rec.floor('reach:set_cells-orientation-branches', 6)
    rec.floor('reach:identify_shifts', 10)
    rec.floor('reach:monopole-body', 40)
    rec.floor('reach:cylinder_boundary', 25)
    rec.floor('reach:box_boundary', 6)
    rec.floor('reach:build_disl_array', 50)
    rec.floor('reach:disregistry', 25)
    rec.floor('monitor_ok:init', 100)
    rec.floor('monitor_ok:monopole', 80)
    rec.floor('monitor_ok:array', 60)
    rec.floor('disregistry:judged', 100)
    rec.floor('array:with-edge-component', 30)
    rec.floor('array:removed-atoms', 200)
    rec.floor('array:rows:interior', 1000)
    rec.floor('array:rows:surface', 200)
    rec.floor('boundary:cylinder:atoms-outside', 200)
    rec.floor('boundary:cylinder:atoms-inside', 200)
    rec.floor('boundary:box:atoms-outside', 200)
    rec.floor('boundary:box:atoms-inside', 200)
    rec.floor('boundary:array:atoms-outside', 200)
    rec.floor('boundary:cylinder:inside-atoms-beyond-end-planes', 1)
    rec.floor('flagged:default-axes-built', 4)
    rec.floor('sequence:explicit-index0-after-other-shift', 8)
    rec.floor('monopole:wrapped-along-line', 1)
    rec.floor('class:standard', 100)
    rec.floor('generator:centre-in-next-gap', 10)
    # round 4: alternative construction paths, argument forms, two-instance histories
    for form in GR.FORMS:
        rec.floor('record:form:' + form, 8)
    for what, word in GR.SHIFT_STATEMENTS:
        rec.floor(f'record:shift:{what}:{word!r}', 3)
    rec.floor('monitor_ok:record-stated', 70)
    rec.floor('record:axes-omitted', 4)
    rec.floor('record:second-use-judged', 30)
    rec.floor('disregistry:repeat-judged', 150)
    rec.floor('disregistry:defaults-judged', 5)
    rec.floor('record:setting-omitted', 10)
    rec.floor('record:setting-centred', 15)
    for style in GR.MILLER_STYLES:
        rec.floor('record:miller:' + style, 15)
    rec.floor('record:generated-with-stated-shift:monopole', 20)
    rec.floor('record:generated-with-stated-shift:periodicarray', 20)
    rec.floor('monitor_ok:set_shift', 300)
    for form in GR.ARG_FORMS:
        rec.floor('form:' + form, 30)
    rec.floor('form:center-int', 8)
    rec.floor('form:trailing-unpopulated-type', 20)
    rec.floor('alias:judged', 30)
    rec.floor('alias:shift-array-routes', 18)
    rec.floor('alias:exposure-judged', 30)
    rec.floor('pair:second-instance-judged', 25)
    rec.floor('pair:ucell-edited-in-place', 15)
    rec.floor('repeat:judged', 25)
    rec.floor('path:deepcopy-judged', 25)
    rec.floor('refusal:judged', 30)
