"""C14 - Surface and stacking-fault cells cut the right plane, between atomic layers."""
from __future__ import annotations

import math

import numpy as np

from ..core import fingerprint
from ..gen import c14_crystals as GC
from ..oracle import c14_crystal as X
from ..oracle import geometry as G
from .. import cover, monitor

RULE = ('basis: every integer plane with |h|,|k|,|l| <= 2 (thorough: 3) is enumerated EXHAUSTIVELY for 15 cell classes '
        '(7 crystal families in the primitive setting, hexagonal with Miller-Bravais indices, 7 centred settings '
        'f,i,a,b,c,t1,t2 with a primitive unit cell), each call in a freshly drawn cell of the class; x 3 cut vectors '
        '(quick: the 7 centred classes see every plane with the cut vector cycled instead); rcell: FreeSurface objects '
        'for every plane within the bound x 8 (thorough 15) classes (cut c); surface/fault: cases are '
        'stratified round-robin over cell class x flagged/cycled plane x cut vector x basis kind x size/minwidth/'
        'vacuum/even/shift options; sequences of surface()/fault() calls run on ONE object.  A case is non-trivial '
        'when the call returned a cell (not a refusal); distinct = distinct fingerprint of (cell, plane, options).')
ASSUMPTIONS = ['unit cells are right-handed, LAMMPS-oriented, volume >= 10% of abc, origin within 0.3 L of zero',
               'with a centred conventional_setting the given ucell is the primitive cell whose vectors are the '
               'documented centring vectors of the conventional cell (miller.vector_primitive_to_conventional)',
               'cells whose atomic layers lie between 1e-10 L and 1.5x the code\'s merge tolerance (1e-7 / 1e-8) apart are exempt from the shift '
               'and between-layers clauses (undecidable whether they are one layer); the between-layers margin is min(1e-6 L, 0.4 x smallest gap)',
               '"same crystal" allows one rigid translation of the whole crystal (System.rotate may re-base atoms when the box origin is not zero)',
               'atoms within 1e-7 L of the fault plane are exempt from the above/below clauses (counted)',
               'oracle shares numpy/LAPACK with the code under test']
CONFIG = {'quick': {'timeout': 1800}, 'thorough': {'seeds': 2, 'timeout': 7200}}

STATE = {'basis_last': None}
SYMS = ('Al', 'Ni', 'Ti')


# --------------------------------------------------------------------------- helpers

def build_ucell(am, cell):
    """The real System for a generated cell (copies: atomman converts arrays in place)."""
    box = am.Box(vects=cell['vects'].copy(), origin=cell['origin'].copy())
    nt = int(cell['types'].max())
    atoms = am.Atoms(atype=cell['types'].copy(), pos=cell['sites'].copy())
    atoms.tag = np.arange(len(cell['types']), dtype=float)
    u = am.System(box=box, atoms=atoms, scale=True, symbols=SYMS[:nt])
    return u


def argdict(names, args, kwargs, skip_self=True):
    a = args[1:] if skip_self else args
    d = dict(zip(names, a))
    d.update(kwargs)
    return d


def hkl3_of(hkl):
    hkl = np.asarray(hkl)
    if hkl.shape == (4,):
        return X.hkil_to_hkl(np.rint(hkl).astype(int)), True
    return np.rint(hkl).astype(int), False


# --------------------------------------------------------------------------- free_surface_basis monitor

BASIS_ARGS = ['hkl', 'box', 'cutboxvector', 'maxindex', 'return_hexagonal', 'return_planenormal', 'conventional_setting']


def make_post_basis(rec):
    def post(args, kwargs, result, exc, old):
        p = argdict(BASIS_ARGS, args, kwargs, skip_self=False)
        box = p.get('box')
        vects = np.array(box.vects, float) if box is not None else np.eye(3)
        setting = p.get('conventional_setting') or 'p'
        hkl3, four = hkl3_of(p['hkl'])
        cut = 'abc'.index(p.get('cutboxvector', 'c'))
        M = p.get('maxindex')
        M_default = X.default_maxindex(hkl3, setting)
        Meff = int(M) if M is not None else M_default
        conv = X.conv_vects(vects, setting)
        g = X.plane_normal(hkl3, conv)
        info = dict(hkl3=hkl3, setting=setting, cut=cut, ok=False, exc=exc, uvws=None, degenerate=False, flagged=False)
        STATE['basis_last'] = info
        det = dict(hkl=hkl3, setting=setting, cut='abc'[cut], maxindex=M, vects=vects)
        if exc is not None:
            if isinstance(exc, AssertionError):
                n_in, rank, n_out, _ = X.search_space(hkl3, setting, Meff)
                if rank >= 2 and n_out >= 1:
                    info['flagged'] = True
                    rec.count('basis:assertion-unjustified')
                    rec.fail('the vector search succeeds whenever two independent in-plane vectors and an out-of-plane '
                             'vector exist inside the index bound it was given (or documented to default to)',
                             'basis:search-misses-vectors-within-maxindex:' + ('default-bound' if M is None else 'explicit-bound'),
                             exception=exc, bound=Meff,
                             inplane_within_bound=n_in, **det)
                else:
                    rec.refusal('basis:no-admissible-vectors-within-maxindex')
                    rec.count('basis:assertion-justified')
            else:
                info['flagged'] = True
                rec.fail('free_surface_basis accepts integer planes of any cell', 'basis:exception',
                         exception=exc, **det)
            return
        rec.count('monitor:basis-evaluated')
        uv = result[0] if isinstance(result, tuple) else result
        normal = result[1] if isinstance(result, tuple) else None
        uv = np.asarray(uv, float)
        want4 = p.get('return_hexagonal')
        if want4 is None:
            want4 = four
        rec.check(uv.shape == ((3, 4) if want4 else (3, 3)), 'uvws has the documented shape', 'basis:shape', got=uv.shape, **det)
        if uv.shape == (3, 4):
            rec.check(np.abs(uv[:, :3].sum(axis=1)).max() < 1e-9, 'Miller-Bravais vectors satisfy u+v+t=0', 'basis:uvtw-sum', uvws=uv, **det)
            uv = X.uvtw_to_uvw(uv)
        if uv.shape != (3, 3):
            return
        okint = rec.check(X.is_integer(uv), 'the three vectors have integer indices', 'basis:integer', uvws=uv, **det)
        info['uvws'] = uv
        if not okint:
            return
        uvi = np.rint(uv).astype(int)
        inpl = [i for i in range(3) if i != cut]
        z = X.zone_products(hkl3, uvi, setting)
        rec.check(z[inpl[0]] == 0 and z[inpl[1]] == 0,
                  'the two in-plane vectors satisfy the zone law in the cell the indices refer to', 'basis:zone-law',
                  uvws=uvi, products=[str(q) for q in z], **det)
        rec.check(z[cut] != 0, 'the third vector does not lie in the plane', 'basis:out-of-plane',
                  uvws=uvi, products=[str(q) for q in z], **det)
        indep = bool(np.any(np.cross(uvi[inpl[0]], uvi[inpl[1]]) != 0))
        if not rec.check(indep, 'the two in-plane vectors are not parallel', 'basis:inplane-rows-parallel', uvws=uvi, **det):
            info['degenerate'] = True
            info['flagged'] = True
        cart = uvi @ vects
        if indep:
            dn = np.linalg.det(cart) / np.prod(np.linalg.norm(cart, axis=1))
            rec.check(dn > 1e-9, 'the three vectors are right-handed in Cartesian space', 'basis:handed', uvws=uvi, det=dn, **det)
            if z[cut] != 0:
                rec.check(np.sign(z[cut]) > 0, 'the out-of-plane vector points to the +(hkl) side', 'basis:out-of-plane-side',
                          uvws=uvi, products=[str(q) for q in z], **det)
        if normal is not None:
            normal = np.asarray(normal, float)
            nn, ng = np.linalg.norm(normal), np.linalg.norm(g)
            okn = nn > 0 and np.linalg.norm(np.cross(normal, g)) <= 1e-9 * nn * ng and np.dot(normal, g) > 0
            rec.check(okn, 'the reported normal is parallel to and co-directed with h a* + k b* + l c* of the cell the '
                      'indices refer to', 'basis:normal', normal=normal, recip_direction=g, **det)
            rec.count('monitor:basis-normal-evaluated')
        info['ok'] = True
    return post


# --------------------------------------------------------------------------- object-level checks (after __init__)

def check_object(rec, fs, cell, hkl, cutname, setting, kind='FreeSurface'):
    """rcell/uvws/transform/shifts of a freshly built FreeSurface or StackingFault.  Returns the info dict that the
    surface()/fault() monitors use, or None if the object cannot be analysed further."""
    hkl3, four = hkl3_of(hkl)
    L = cell['L']
    vects, conv = cell['vects'], cell['conv']
    cut = 'abc'.index(cutname)
    key = 'object:'
    det = dict(hkl=hkl3, setting=setting, cut=cutname, family=cell['family'], vects=vects)
    T = np.asarray(fs.transform, float)
    rec.check(G.is_rotation(T, 1e-9), 'transform is a proper rotation', key + 'transform', T=T, **det)
    rec.check(fs.cutindex == cut, 'cutindex names the Cartesian axis of the cut vector', key + 'cutindex')
    uv = np.asarray(fs.uvws, float)
    if uv.shape == (3, 4):
        uv = X.uvtw_to_uvw(uv)
    up = X.conv_to_prim_indices(uv, setting)
    if not rec.check(X.is_integer(up, 1e-8), 'FreeSurface.uvws are lattice vectors (integer in the primitive cell)',
                     key + 'uvws-lattice', uvws=uv, **det):
        return None
    up = np.rint(up)
    last = STATE['basis_last']
    if last is not None and last.get('uvws') is not None:
        rec.close(1e-9, uv, X.prim_to_conv_indices(last['uvws'], setting),
                  'FreeSurface.uvws are the conventional-cell indices of the vectors chosen by free_surface_basis',
                  key + 'uvws-conventional', **det)
    inpl = [i for i in range(3) if i != cut]
    z = X.zone_products(hkl3, up, setting)
    rec.check(z[inpl[0]] == 0 and z[inpl[1]] == 0 and z[cut] != 0,
              'object: in-plane cell vectors satisfy the zone law of the conventional (hkl), the cut vector does not',
              key + 'zone-law', uvws=uv, **det)
    rv_exp = up @ vects @ T.T
    r = fs.rcell
    rv = np.asarray(r.box.vects, float)
    rec.close(1e-8 * L * max(1.0, np.abs(up).max()), rv, rv_exp, 'rcell box vectors are uvws.ucell vectors rotated by transform',
              key + 'rcell-vects', **det)
    rec.check(np.abs(rv[inpl][:, cut]).max() <= 1e-9 * L, 'the in-plane rcell vectors have no component along the cut axis',
              key + 'inplane-flat', vects=rv)
    g = X.plane_normal(hkl3, conv)
    gh = g / np.linalg.norm(g)
    e = np.zeros(3)
    e[cut] = 1.0
    rec.close(1e-8, T @ gh, e, 'the slab normal (Cartesian cut axis) is the rotated reciprocal-lattice direction of the '
              'conventional (hkl), co-directed', key + 'slab-normal', **det)
    # same crystal
    cr = X.Crystal(vects, cell['origin'], cell['sites'], cell['types'])
    pos = np.asarray(r.atoms.pos, float)
    tol = 1e-7 * L
    # "the same crystal": every atom, mapped back by transform, sits on a site of the ucell crystal up to ONE rigid
    # translation t0 of the whole crystal (System.rotate is free to re-base the atoms when the box origin is not zero)
    pos_u = pos @ T
    t0 = np.zeros(3)
    site, _, dist = cr.match(pos_u, r.atoms.atype, tol)
    nbad = int((site < 0).sum())
    if nbad:
        tr = cr.find_translation(pos_u, r.atoms.atype, tol, prefer=int(np.asarray(r.atoms.tag)[0]))
        if tr is not None and tr[1] == 0:
            t0 = tr[0]
            rec.count('object:rcell-rigidly-translated')
            site, _, dist = cr.match(pos_u - t0, r.atoms.atype, tol)
            nbad = int((site < 0).sum())
    rec.check(nbad == 0, 'every rcell atom sits on a site of the ucell crystal mapped by transform (up to one rigid translation), '
              'with that site\'s type', key + 'rcell-sites', unmatched=nbad, natoms=r.natoms, worst=float(dist.max()), **det)
    if nbad == 0:
        rec.check(np.array_equal(np.asarray(r.atoms.tag).astype(int), site), 'per-atom properties follow their atoms into rcell',
                  key + 'rcell-props')
    nexp = int(round(abs(np.linalg.det(up)))) * len(cell['types'])
    rec.check(r.natoms == nexp, 'rcell holds |det uvws| x natoms(ucell) atoms', key + 'rcell-natoms', got=r.natoms, expected=nexp, **det)
    rec.check(X.coincident_pairs(pos, rv, r.box.origin, (True, True, True), tol) == 0, 'no two rcell atoms coincide',
              key + 'rcell-coincident', **det)
    fr = X.frac(pos, rv, r.box.origin)
    rec.check(fr.min() >= -1e-9 and fr.max() <= 1 + 1e-9, 'rcell atoms are inside the rcell box', key + 'rcell-inside')
    rec.check(tuple(r.symbols) == SYMS[:len(r.symbols)] and r.natypes == int(cell['types'].max()),
              'rcell keeps the symbols', key + 'rcell-symbols')
    # width and offered shifts
    D = abs(float((up[cut] @ vects) @ gh))
    rec.close(1e-9 * L * max(1.0, np.abs(up).max()), fs.rcellwidth, D, 'rcellwidth is the extent of the cut vector along the plane normal',
              key + 'rcellwidth', **det)
    # absolute heights (rotated frame, along the cut axis) of every atomic layer of the crystal
    heights = (cr.sites @ vects + cr.origin + t0) @ gh
    # lattice planes of the primitive lattice along g: spacing d = gcd(h_p)/|g|
    den = X.DENOM[setting]
    hp = np.rint((X.CENTRING[setting] @ hkl3) * den).astype(int)
    gg = math.gcd(math.gcd(int(abs(hp[0])), int(abs(hp[1]))), int(abs(hp[2])))
    d = gg / (den * np.linalg.norm(g))
    nper = D / d
    rec.check(abs(nper - round(nper)) < 1e-8 and round(nper) >= 1, 'rcellwidth is a whole number of lattice-plane spacings',
              key + 'rcellwidth-multiple', ratio=nper, **det)
    nper = int(round(nper))
    allh = (heights[:, None] + d * np.arange(nper)[None, :]).ravel()
    # the code merges layers by rounding to its tol (1e-7 FreeSurface, 1e-8 StackingFault, absolute): heights further apart
    # than tol are distinct layers, heights within 1e-10 L are one layer, anything in between is undecidable (exempt)
    ctol = 1e-7 if kind == 'FreeSurface' else 1e-8
    hs = np.sort(allh % D)
    dh = np.diff(np.append(hs, hs[0] + D))
    ambiguous = bool(np.any((dh > 1e-10 * L) & (dh <= 1.5 * ctol)))
    layers, mingap = X.layer_heights(allh, D, 1e-10 * L)
    o_cut = float(r.box.origin[cut])
    shifts = np.asarray(fs.shifts, float)
    info = dict(cell=cell, cr=cr, hkl3=hkl3, setting=setting, cut=cut, inpl=inpl, T=T, up=up, rv=rv_exp, D=D, L=L, e=e, t0=t0,
                layers=layers, mingap=mingap, shifts_exp=None, nrcell=nexp, kind=kind, conv=conv, steps=0, ambiguous=ambiguous)
    fs._vf = info
    if ambiguous:
        rec.count('exempt:layers-closer-than-the-merge-tolerance')
    else:
        # a shift s is a termination iff it carries a gap mid-point onto the slab boundary (the box origin along the cut)
        mids = (layers + np.diff(np.append(layers, layers[0] + D)) / 2.0)
        sexp = np.sort((o_cut - mids) % D)
        info['shifts_exp'] = sexp
        okshape = shifts.ndim == 2 and shifts.shape[1] == 3
        rec.check(okshape and len(shifts) == len(sexp), 'one shift is offered per gap between neighbouring atomic layers',
                  key + 'shifts-count', offered=len(shifts), layers=len(layers), **det)
        if okshape and len(shifts) == len(sexp):
            sc = shifts[:, cut] % D
            dd = np.abs(sc[:, None] - sexp[None, :])
            dd = np.minimum(dd, D - dd)
            rec.check(dd.min(axis=1).max() <= 1e-8 * L and dd.min(axis=0).max() <= 1e-8 * L,
                      'the offered shifts put the cut at the mid-points between neighbouring layers', key + 'shifts-midway',
                      offered=sc, expected=sexp, **det)
            rec.check(np.abs(shifts[:, inpl]).max() == 0.0, 'offered shifts are along the cut axis only', key + 'shifts-axis')
    rec.count('monitor:object-evaluated')
    return info


# --------------------------------------------------------------------------- surface() monitor

SURF_ARGS = ['shift', 'shiftindex', 'shiftscale', 'vacuumwidth', 'minwidth', 'sizemults', 'even', 'faultpos_rel', 'faultpos_cart']


def _abs_mult(m):
    if isinstance(m, tuple):
        return int(m[1] - m[0])
    return abs(int(m))


def make_surface_monitor(rec):
    def pre(args, kwargs):
        fs = args[0]
        p = argdict(SURF_ARGS, args, kwargs)
        sm = p.get('sizemults')
        try:
            cur = np.array(fs.shift, float)
        except Exception:
            cur = None
        return dict(sizemults=None if sm is None else list(sm), shift_before=cur)

    def post(args, kwargs, result, exc, old):
        fs = args[0]
        info = getattr(fs, '_vf', None)
        if info is None or exc is not None or not isinstance(old, dict):
            return
        p = argdict(SURF_ARGS, args, kwargs)
        check_slab(rec, fs, result, info, p, old)
    return pre, post


def check_slab(rec, fs, slab, info, p, old):
    cut, inpl, L, D, T, e = info['cut'], info['inpl'], info['L'], info['D'], info['T'], info['e']
    key = 'surface:'
    sm = old['sizemults'] if old['sizemults'] is not None else [1, 1, 1]
    det = dict(hkl=info['hkl3'], setting=info['setting'], cut='abc'[cut], sizemults=sm, minwidth=p.get('minwidth'),
               vacuumwidth=p.get('vacuumwidth'), even=p.get('even'), shiftindex=p.get('shiftindex'), step=info['steps'])
    info['steps'] += 1
    rec.count('monitor:surface-evaluated')
    rec.check(slab is fs.system, 'surface() returns the system it stores', key + 'system-attr')
    # expected shift
    if p.get('shiftindex') is not None:
        sexp = np.asarray(fs.shifts, float)[p['shiftindex']]     # the offered set itself is checked in check_object
        offered = True
    elif p.get('shift') is not None:
        s = np.asarray(p['shift'], float)
        sexp = s @ info['rv'] if p.get('shiftscale') is True else s
        offered = True                                       # the harness only passes offered shifts + in-plane translations
    else:
        sexp = old['shift_before']
        offered = True
    shift = np.asarray(fs.shift, float)
    rec.close(1e-8 * L, shift, sexp, 'the shift used is the one requested', key + 'shift-used', **det)
    # multipliers
    m = [_abs_mult(x) for x in sm]
    mc = m[cut]
    if p.get('minwidth') is not None:
        mc = max(mc, int(math.ceil(p['minwidth'] / D - 1e-12)))
    if p.get('even') and mc % 2 == 1:
        mc += 1
    m[cut] = mc
    vac = p.get('vacuumwidth') or 0.0
    bv = np.asarray(slab.box.vects, float)
    bv_exp = np.diag(m) @ info['rv']
    bv_exp[cut, cut] += vac
    Ls = np.linalg.norm(bv_exp, axis=1).max()
    tolL = 1e-8 * Ls
    rec.close(tolL, bv, bv_exp, 'slab box = size multipliers x rcell vectors (+ vacuum along the cut)', key + 'box', **det)
    if p.get('minwidth') is not None:
        rec.check(bv[cut, cut] - vac >= p['minwidth'] - tolL, 'slab is at least minwidth wide across the cut', key + 'minwidth', **det)
    pbc_exp = [True, True, True]
    pbc_exp[cut] = False
    rec.check(list(np.asarray(slab.pbc, bool)) == pbc_exp, 'the slab is non-periodic across the cut only', key + 'pbc',
              pbc=list(slab.pbc), **det)
    nexp = info['nrcell'] * m[0] * m[1] * m[2]
    rec.check(slab.natoms == nexp, 'slab holds natoms(rcell) x multipliers atoms', key + 'natoms', got=slab.natoms, expected=nexp, **det)
    pos = np.asarray(slab.atoms.pos, float)
    cr = info['cr']
    tol = 1e-7 * L
    site, _, dist = cr.match((pos - shift) @ T - info['t0'], slab.atoms.atype, tol)
    nbad = int((site < 0).sum())
    rec.check(nbad == 0, 'every slab atom sits on a site of the ucell crystal (mapped by transform and shift) with that site\'s type',
              key + 'sites', unmatched=nbad, natoms=slab.natoms, worst=float(dist.max()), **det)
    if nbad == 0:
        rec.check(np.array_equal(np.asarray(slab.atoms.tag).astype(int), site), 'per-atom properties follow their atoms into the slab',
                  key + 'props')
        cnt = np.bincount(site, minlength=len(cr.types))
        rec.check(cnt.min() == cnt.max(), 'every crystal site is represented equally often in the slab', key + 'site-counts', counts=cnt, **det)
    if slab.natoms <= 1600:
        per = [True, True, True]
        per[cut] = False
        rec.check(X.coincident_pairs(pos, bv, slab.box.origin, per, tol) == 0, 'no two slab atoms coincide (modulo the in-plane vectors)',
                  key + 'coincident', **det)
    else:
        rec.count('skipped:coincident-large-slab')
    fr = X.frac(pos, bv, slab.box.origin)
    if vac:
        fr = fr[:, [cut]]            # widening a tilted cut vector moves the periodic in-plane faces; only the cut direction matters
    rec.check(fr.min() >= -1e-9 and fr.max() <= 1 + 1e-9, 'slab atoms are inside the slab box', key + 'inside', lo=fr.min(), hi=fr.max(), **det)
    # the cut passes between layers
    lo = slab.box.origin[cut]
    hi = lo + bv[cut, cut]
    c = pos[:, cut]
    mlo, mhi = float(c.min() - lo), float(hi - c.max())
    if offered and info['ambiguous']:
        rec.count('exempt:between-layers-undecidable')
    elif offered:
        rec.count('monitor:between-layers-evaluated')
        thr = min(1e-6 * L, 0.4 * info['mingap'])          # the cut opens a gap >= mingap and sits in its middle
        rec.check(mlo > thr and mhi > thr, 'with an offered shift every atom is strictly inside (lo,hi) along the cut '
                  'by more than 1e-6 L (0.4 x the smallest interlayer gap if that is smaller)', key + 'between-layers',
                  margin_lo=mlo, margin_hi=mhi, threshold=thr, **det)
        if not vac:
            rec.close(1e-7 * L, mlo, mhi, 'the cut is midway between the two layers it separates (documented for .shifts)', key + 'midway',
                      margin_lo=mlo, margin_hi=mhi, **det)
        gaps = np.diff(np.append(info['layers'], info['layers'][0] + D))
        rec.check(np.abs(gaps - (mlo + mhi - vac)).min() <= 2e-7 * L, 'the opened gap is one of the crystal\'s interlayer gaps',
                  key + 'gap', got=mlo + mhi - vac, gaps=gaps, **det)
    area_exp = np.linalg.norm(np.cross(bv_exp[inpl[0]], bv_exp[inpl[1]]))
    rec.close(1e-9 * area_exp, fs.surfacearea, area_exp, 'surfacearea = |cross| of the in-plane vectors', key + 'area', **det)
    info['slab'] = dict(m=m, vac=vac, bv=bv_exp, pos=pos.copy(), lo=lo, hi=hi, natoms=slab.natoms)


# --------------------------------------------------------------------------- StackingFault monitors

def make_sfsurface_post(rec):
    def post(args, kwargs, result, exc, old):
        sf = args[0]
        info = getattr(sf, '_vf', None)
        if info is None or exc is not None:
            return
        p = argdict(SURF_ARGS, args, kwargs)
        L, cut = info['L'], info['cut']
        key = 'sfsurface:'
        slab = sf.system
        o = slab.box.origin[cut]
        w = slab.box.vects[cut, cut]
        rec.count('monitor:sfsurface-evaluated')
        det = dict(hkl=info['hkl3'], setting=info['setting'], step=info['steps'], faultpos_rel=p.get('faultpos_rel'),
                   faultpos_cart=p.get('faultpos_cart'))
        rec.close(1e-9 * (abs(o) + abs(w)), sf.faultpos_cart, o + sf.faultpos_rel * w,
                  'faultpos_cart = origin + faultpos_rel x width of the CURRENT slab', key + 'faultpos-consistent', **det)
        if p.get('faultpos_cart') is not None:
            rec.close(1e-12 * (abs(o) + abs(w)), sf.faultpos_cart, p['faultpos_cart'], 'the requested Cartesian fault position is used', key + 'faultpos-cart', **det)
        else:
            rel = p['faultpos_rel'] if p.get('faultpos_rel') is not None else 0.5
            rec.close(1e-12, sf.faultpos_rel, rel, 'the requested (default 0.5) relative fault position is used', key + 'faultpos-rel', **det)
        c = np.asarray(slab.atoms.pos, float)[:, cut]
        mask = np.asarray(sf.abovefault)
        if rec.check(mask.shape == (slab.natoms,), 'the above-fault mask has one entry per atom of the CURRENT slab', key + 'mask-shape',
                     got=mask.shape, natoms=slab.natoms, **det):
            far = np.abs(c - sf.faultpos_cart) > 1e-7 * L
            rec.count('exempt:atoms-on-fault-plane', int((~far).sum()))
            rec.check(np.array_equal(mask[far], (c > sf.faultpos_cart)[far]), 'the above-fault mask is exactly the atoms above the fault plane '
                      'of the CURRENT slab', key + 'mask-current', wrong=int((mask[far] != (c > sf.faultpos_cart)[far]).sum()), **det)
    return post


FAULT_ARGS = ['a1', 'a2', 'outofplane', 'faultshift', 'minimum_r', 'a1vect_uvw', 'a2vect_uvw', 'faultpos_cart', 'faultpos_rel']


def shift_vector_cart(info, uvw):
    """Cartesian (rotated frame) vector of a conventional-cell crystal vector."""
    uvw = np.asarray(uvw, float)
    if uvw.shape == (4,):
        uvw = X.uvtw_to_uvw(uvw)
    return (uvw @ info['conv']) @ info['T'].T


def make_fault_monitor(rec):
    def pre(args, kwargs):
        sf = args[0]
        return dict(pos=np.array(sf.system.atoms.pos, float), natoms=sf.system.natoms, sysid=id(sf.system))

    def post(args, kwargs, result, exc, old):
        sf = args[0]
        info = getattr(sf, '_vf', None)
        if info is None or exc is not None or not isinstance(old, dict):
            return
        p = argdict(FAULT_ARGS, args, kwargs)
        L, cut, inpl, e = info['L'], info['cut'], info['inpl'], info['e']
        key = 'fault:'
        slab = sf.system
        pos0 = old['pos']
        rec.count('monitor:fault-evaluated')
        det = dict(hkl=info['hkl3'], setting=info['setting'], cut='abc'[cut], a1=p.get('a1'), a2=p.get('a2'), outofplane=p.get('outofplane'),
                   faultshift=p.get('faultshift'), minimum_r=p.get('minimum_r'), step=info['steps'])
        rec.check(id(slab) == old['sysid'] and np.array_equal(np.asarray(slab.atoms.pos), pos0), 'fault() does not alter the stored slab',
                  key + 'slab-untouched')
        # shift vector
        A1 = shift_vector_cart(info, sf.a1vect_uvw)
        A2 = shift_vector_cart(info, sf.a2vect_uvw)
        rec.close(1e-9 * L * (1 + np.abs(np.asarray(sf.a1vect_uvw, float)).max()), sf.a1vect_cart, A1,
                  'a1vect_cart is the rotated Cartesian vector of a1vect_uvw (conventional cell)', key + 'a1vect', **det)
        rec.close(1e-9 * L * (1 + np.abs(np.asarray(sf.a2vect_uvw, float)).max()), sf.a2vect_cart, A2,
                  'a2vect_cart is the rotated Cartesian vector of a2vect_uvw (conventional cell)', key + 'a2vect', **det)
        if p.get('faultshift') is not None:
            sv = np.asarray(p['faultshift'], float)
        else:
            sv = (p.get('a1') or 0.0) * A1 + (p.get('a2') or 0.0) * A2 + (p.get('outofplane') or 0.0) * e
        if result.natoms != old['natoms']:
            rec.fail('the faulted system has the atoms of the slab', key + 'natoms', got=result.natoms, **det)
            return
        rpos = np.asarray(result.atoms.pos, float)
        c = pos0[:, cut]
        fp = sf.faultpos_cart
        far = np.abs(c - fp) > 1e-7 * L
        below = (c <= fp) & far
        above = (c > fp) & far
        rec.count('fault:atoms-below', int(below.sum()))
        rec.count('fault:atoms-above', int(above.sum()))
        bv = np.asarray(slab.box.vects, float)
        if below.any():
            # atoms sitting on a periodic in-plane face may be re-wrapped to the opposite face (same crystal)
            fr0 = X.frac(pos0, bv, slab.box.origin)[:, inpl]
            onface = (np.minimum(np.abs(fr0), np.abs(fr0 - 1)).min(axis=1) < 1e-9) | (fr0.min(axis=1) < 0) | (fr0.max(axis=1) > 1)
            strict = below & ~onface
            rec.count('fault:below-on-periodic-face', int((below & onface).sum()))
            rec.close(1e-10 * L, rpos[strict], pos0[strict], 'atoms below the fault plane keep their positions', key + 'below-stay', **det)
            if (below & onface).any():
                cf = np.linalg.solve(bv.T, (rpos - pos0)[below & onface].T).T
                rec.check(np.abs(cf - np.rint(cf)).max() <= 1e-9 and np.abs(cf[:, cut]).max() <= 1e-9,
                          'atoms below the fault plane that sit on a periodic face stay in place modulo the in-plane cell vectors',
                          key + 'below-stay-face', **det)
        if above.any():
            dl = rpos[above] - pos0[above] - sv
            coef = np.linalg.solve(bv.T, dl.T).T          # coefficients along the three slab vectors
            if p.get('minimum_r') is not None:
                # an additional uniform, non-negative push along the cut axis is allowed
                extra = dl[:, cut]
                rec.check(extra.min() >= -1e-9 * L and np.ptp(extra) <= 1e-9 * L, 'the minimum_r push is one common non-negative out-of-plane shift',
                          key + 'minimum_r-uniform', extra_min=extra.min(), extra_max=extra.max(), **det)
                dl = dl - np.outer(extra, e)
                coef = np.linalg.solve(bv.T, dl.T).T
                rec.count('fault:minimum_r-pushed', int(extra.max() > 1e-9 * L))
            nint = np.rint(coef[:, inpl])
            okv = np.abs(coef[:, inpl] - nint).max() <= 1e-8 and np.abs(coef[:, cut]).max() <= 1e-8
            rec.check(okv, 'atoms above the fault plane move by exactly the requested vector modulo the two in-plane cell vectors',
                      key + 'above-move', worst_inplane=float(np.abs(coef[:, inpl] - nint).max()), worst_cut=float(np.abs(coef[:, cut]).max()),
                      shiftvector=sv, **det)
        rec.check(np.array_equal(np.asarray(result.atoms.atype), np.asarray(slab.atoms.atype)) and
                  list(np.asarray(result.pbc, bool)) == list(np.asarray(slab.pbc, bool)), 'types and periodicity are those of the slab', key + 'types-pbc')
        rec.close(1e-9 * L, np.asarray(result.box.vects)[inpl], bv[inpl], 'the in-plane cell vectors are unchanged', key + 'inplane-vects')
        # full in-plane lattice translation restores the perfect crystal
        a1, a2 = p.get('a1') or 0.0, p.get('a2') or 0.0
        full = p.get('faultshift') is None and not p.get('outofplane') and p.get('minimum_r') is None and \
            float(a1).is_integer() and float(a2).is_integer() and (a1 != 0 or a2 != 0)
        if full and getattr(sf, '_vf_lattice_shift', True) and result.natoms <= 1600:
            per = [True, True, True]
            per[cut] = False
            bad = X.match_sets(rpos, result.atoms.atype, pos0, slab.atoms.atype, bv, slab.box.origin, per, 1e-8 * L)
            rec.count('monitor:full-shift-evaluated')
            rec.check(bad == 0, 'a shift by a full in-plane lattice vector restores the perfect crystal', key + 'full-shift-restores',
                      unmatched=bad, **det)
            if info['slab']['m'][inpl[0]] == 1 and info['slab']['m'][inpl[1]] == 1 and getattr(sf, '_vf_default_vects', False):
                dl = rpos - pos0
                coef = np.linalg.solve(bv.T, dl.T).T
                rec.check(np.abs(coef - np.rint(coef)).max() <= 1e-8 and np.abs(coef[:, cut]).max() <= 1e-8,
                          'with unit in-plane multipliers the unfaulted system comes back atom by atom', key + 'full-shift-atomwise', **det)
    return pre, post


# --------------------------------------------------------------------------- refusal classification at the call site

def classify_init_exception(rec, ex, cell, hkl, cutname, setting, maxindex, where):
    """An exception escaped FreeSurface/StackingFault.__init__."""
    last = STATE['basis_last']
    hkl3, _ = hkl3_of(hkl)
    det = dict(hkl=hkl3, setting=setting, cut=cutname, family=cell['family'], vects=cell['vects'], exception=ex)
    if last is not None and last.get('exc') is ex:
        rec.count('init:basis-exception-propagated')
        return 'basis'
    msg = str(ex)
    if isinstance(ex, ValueError) and 'cannot have' in msg and last is not None and last.get('uvws') is not None:
        cut = 'abc'.index(cutname)
        ok, worst = X.cut_compatible(np.rint(last['uvws']) @ cell['vects'], cut)
        if 1e-12 < worst < 1e-7:
            rec.count('exempt:cut-compatibility-borderline')
            return 'exempt'
        g = X.plane_normal(hkl3, cell['conv'])
        M = maxindex if maxindex is not None else max(abs(int(x)) for x in hkl3)
        exists = X.normal_parallel_vector_exists(g, cell['vects'], int(M))
        rec.count('monitor:refusal-classified')
        if ok or exists:
            rec.fail('an orientation is refused only when it is incompatible with the requested cut vector',
                     where + ':refusal-on-compatible-orientation', offending_component=worst, normal_parallel_vector_within_bound=exists, **det)
            return 'violation'
        rec.refusal(f'orientation incompatible with cutboxvector (cut {cutname})')
        rec.count('refusal:incompatible-cut:' + cutname)
        return 'refusal'
    if isinstance(ex, ValueError) and 'no atoms/volume' in msg and last is not None and last.get('degenerate'):
        rec.count('init:degenerate-basis-refused')
        return 'basis'
    rec.fail('FreeSurface/StackingFault can be built for integer planes of any cell', where + ':exception', **det)
    return 'violation'


def check_accept_compatible(rec, info, where):
    """The constructor accepted the orientation: the oracle must agree it is compatible."""
    ok, worst = X.cut_compatible(info['up'] @ info['cell']['vects'], info['cut'])
    rec.count('monitor:accept-classified')
    if 1e-12 < worst < 1e-7:
        rec.count('exempt:cut-compatibility-borderline')
        return
    rec.check(ok, 'an accepted orientation is compatible with the requested cut vector', where + ':accepts-incompatible-orientation',
              offending_component=worst)


# --------------------------------------------------------------------------- workload pieces

def cell_for(rng, cls, basis_kind, origin_class='zero'):
    setting, family = cls
    if setting == 'p4':
        return GC.gen_cell(rng, 'p', 'hexagonal', basis_kind, origin_class), 'p'
    return GC.gen_cell(rng, setting, family, basis_kind, origin_class), setting


def size_options(rng, k, cut, D, L):
    """Deterministic option class k -> kwargs for surface() (fresh objects each time)."""
    opt = {}
    kinds = ['default', 'list', 'tuple', 'list+minwidth', 'list+even', 'neg+pairs', 'vacuum', 'tuple-big+minwidth', 'list+minwidth+even+vacuum']
    kind = kinds[k % len(kinds)]
    mi = [int(rng.integers(1, 3)), int(rng.integers(1, 3)), int(rng.integers(1, 3))]
    mi[cut] = int(rng.integers(1, 4))
    if kind == 'default':
        pass
    elif kind == 'list':
        opt['sizemults'] = list(mi)
    elif kind == 'tuple':
        opt['sizemults'] = tuple(mi)
    elif kind == 'list+minwidth':
        opt['sizemults'] = list(mi)
        opt['minwidth'] = float(rng.uniform(0.5, 4.5) * D)
    elif kind == 'list+even':
        opt['sizemults'] = list(mi)
        opt['even'] = True
    elif kind == 'neg+pairs':
        s = [(-1, 1), -mi[1], mi[2]]
        s[cut] = -mi[cut] if rng.random() < 0.5 else mi[cut]
        opt['sizemults'] = s
    elif kind == 'vacuum':
        opt['sizemults'] = list(mi)
        opt['vacuumwidth'] = float(rng.uniform(0.2, 3.0) * L)
    elif kind == 'tuple-big+minwidth':
        mi[cut] = 6                                              # already wide enough and even: the tuple is never assigned into
        opt['sizemults'] = tuple(mi)
        opt['minwidth'] = float(rng.uniform(0.5, 4.5) * D)
        opt['even'] = True
    else:
        opt['sizemults'] = list(mi)
        opt['minwidth'] = float(rng.uniform(0.5, 4.5) * D)
        opt['even'] = True
        opt['vacuumwidth'] = float(rng.uniform(0.2, 3.0) * L)
    return kind, opt


def fresh(opt):
    o = dict(opt)
    if isinstance(o.get('sizemults'), list):
        o['sizemults'] = list(o['sizemults'])
    return o


def natoms_estimate(info, opt):
    sm = opt.get('sizemults') or [1, 1, 1]
    m = [_abs_mult(x) for x in sm]
    if opt.get('minwidth') is not None:
        m[info['cut']] = max(m[info['cut']], int(math.ceil(opt['minwidth'] / info['D'])))
    if opt.get('even') and m[info['cut']] % 2:
        m[info['cut']] += 1
    return info['nrcell'] * m[0] * m[1] * m[2], m


def shrink(info, opt, limit=1200):
    """Keep slabs small: reduce in-plane multipliers when the rotated cell is already large."""
    n, m = natoms_estimate(info, opt)
    if n <= limit or 'sizemults' not in opt:
        return opt
    sm = list(opt['sizemults'])
    for i in info['inpl']:
        sm[i] = 1
    if natoms_estimate(info, dict(opt, sizemults=sm))[0] > limit and not isinstance(opt['sizemults'], tuple):
        sm[info['cut']] = 1
        if 'minwidth' in opt:
            opt = dict(opt, minwidth=min(opt['minwidth'], 1.5 * info['D']))
    opt = dict(opt)
    opt['sizemults'] = tuple(sm) if isinstance(opt['sizemults'], tuple) else sm
    return opt


def plane_choice(i, setting, plist):
    fl = GC.FLAGGED.get(setting)
    if fl and (i // 7) % 2 == 0:
        return fl[(i // 14) % len(fl)]
    return plist[(i * 37 + 11) % len(plist)]


# --------------------------------------------------------------------------- run

def run(ctx):
    import atomman as am
    from atomman.defect import FreeSurface, StackingFault
    import atomman.defect as amd
    rec = ctx.rec

    # monitors on the real entry points
    real_basis = amd.free_surface_basis
    monitor.observe_function(real_basis, make_post_basis(rec), label='free_surface_basis')
    fsb = amd.free_surface_basis                                  # patched alias
    pre_s, post_s = make_surface_monitor(rec)
    monitor.observe(FreeSurface, 'surface', post_s, pre_s)
    monitor.observe(StackingFault, 'surface', make_sfsurface_post(rec))
    pre_f, post_f = make_fault_monitor(rec)
    monitor.observe(StackingFault, 'fault', post_f, pre_f)
    cover.start(['atomman/defect/free_surface_basis.py', 'atomman/defect/FreeSurface.py', 'atomman/defect/StackingFault.py'])

    import time as _time
    tmark = [_time.time()]

    def lap(name):
        now = _time.time()
        rec.count('wall_ms:' + name, int(1000 * (now - tmark[0])))
        tmark[0] = now

    bound = ctx.pick(2, 3)
    plist = GC.planes(bound)
    classes = GC.cell_classes()
    classes.insert(7, ('p4', 'hexagonal'))
    ncls = len(classes)

    # ---------------------------------------------------------------- group 1: exhaustive basis enumeration
    # quick: the (cheap) primitive-setting classes see every plane with all three cut vectors, the centred classes
    # (search bound 2-3x larger, ~4x the cost) see every plane with the cut vector cycled; thorough: everything x 3 cuts
    combos = []
    for pi in range(len(plist)):
        for c in range(3):
            for ci, cls in enumerate(classes):
                if ctx.quick and cls[0] not in ('p', 'p4') and c != (ci + pi) % 3:
                    continue
                combos.append((ci, pi, c))
    nb = len(combos)
    for i in ctx.cases('basis', nb):
        rng = ctx.rng
        ci, pi, c = combos[i]
        cls = classes[ci]
        hkl = plist[pi]
        cutname = GC.CUTS[c]
        cell, setting = cell_for(rng, cls, 'one')
        kw = dict(box=am.Box(vects=cell['vects'].copy()), cutboxvector=cutname, return_planenormal=True)
        if setting != 'p':
            kw['conventional_setting'] = setting
        elif i % 4 == 1:
            kw['conventional_setting'] = 'p'
        arg = hkl
        if cls[0] == 'p4':
            arg = (hkl[0], hkl[1], -(hkl[0] + hkl[1]), hkl[2])
            if i % 5 == 0:
                kw['return_hexagonal'] = False
        elif cls == ('p', 'hexagonal') and i % 5 == 0:
            kw['return_hexagonal'] = True
        if i % 3 == 0:
            arg = np.array(arg)
        elif i % 3 == 1:
            arg = list(arg)
        res = None
        try:
            res = fsb(arg, **kw)
        except Exception:
            pass                                               # classified by the monitor
        last = STATE['basis_last']
        rec.case(('basis', cls[0], cls[1], cutname), nontrivial=res is not None, fp=fingerprint(cell['vects'], hkl, cutname, cls))
        rec.count('basis:planes-enumerated')
        rec.count(f'exhaustive:basis:all-planes-|hkl|<={bound}-x-15-cell-classes' + ('-x-3-cuts' if (not ctx.quick or cls[0] in ('p', 'p4')) else '-cut-cycled'))
        if res is not None:
            rec.count('basis:returned:' + cls[0])
            if setting != 'p':
                up = np.rint(last['uvws']) if last and last.get('uvws') is not None else None
                if up is not None:
                    uc = X.prim_to_conv_indices(up, setting)
                    if not X.is_integer(uc):
                        rec.count('basis:centred:fractional-conventional-indices')
        if i < ncls:
            rec.sample(dict(cls=cls, hkl=hkl, cut=cutname, vects=cell['vects'], result=None if res is None else res[0]))

    lap('basis')
    # explicit maxindex: too small for the plane (documented AssertionError refusal) and ample
    nmx = ctx.pick(120, 600)
    for i in ctx.cases('basis-maxindex', nmx):
        rng = ctx.rng
        cls = classes[i % ncls]
        if cls[0] == 'p4':
            cls = ('p', 'hexagonal')
        hkl = [(2, 1, 0), (1, 2, -2), (2, -1, 1), (0, 1, 2), (1, 0, 0), (1, 1, 1)][(i // ncls) % 6]
        cell, setting = cell_for(rng, cls, 'one')
        M = [1, 1, 4, 5][(i // (ncls * 6)) % 4 if nmx > ncls * 6 else i % 4]
        kw = dict(box=am.Box(vects=cell['vects'].copy()), cutboxvector=GC.CUTS[i % 3], return_planenormal=True, maxindex=M)
        if setting != 'p':
            kw['conventional_setting'] = setting
        res = None
        try:
            res = fsb(hkl, **kw)
        except Exception:
            pass
        rec.case(('basis-maxindex', cls[0], M), nontrivial=res is not None, fp=fingerprint(cell['vects'], hkl, M))
        rec.count('basis-maxindex:returned' if res is not None else 'basis-maxindex:raised')

    lap('basis-maxindex')
    # ---------------------------------------------------------------- group 2: FreeSurface objects, every plane (cut c)
    if ctx.quick:
        rc_classes = [c for c in classes if c[0] not in ('p', 'p4')] + [('p4', 'hexagonal')]
    else:
        rc_classes = classes
    nrc = len(rc_classes) * len(plist)
    for i in ctx.cases('rcell', nrc):
        rng = ctx.rng
        cls = rc_classes[i % len(rc_classes)]
        hkl = plist[(i // len(rc_classes)) % len(plist)]
        cell, setting = cell_for(rng, cls, GC.BASIS_KINDS[(i // 3) % 3], 'zero' if i % 4 else 'near')
        if cls[0] == 'p4':
            hkl = (hkl[0], hkl[1], -(hkl[0] + hkl[1]), hkl[2])
        u = build_ucell(am, cell)
        fs = None
        try:
            fs = FreeSurface(hkl, u, conventional_setting=setting)
        except Exception as ex:
            classify_init_exception(rec, ex, cell, hkl, 'c', setting, None, 'FreeSurface')
        rec.case(('rcell', cls[0], cls[1], cell['basis']), nontrivial=fs is not None, fp=fingerprint(cell['vects'], cell['sites'], hkl))
        rec.count('rcell:planes-enumerated')
        rec.count(f'exhaustive:rcell:all-planes-|hkl|<={bound}-x-{len(rc_classes)}-cell-classes-cut-c')
        if fs is None:
            continue
        info = check_object(rec, fs, cell, hkl, 'c', setting)
        if info is None:
            continue
        rec.count('rcell:objects:' + cls[0])
        ns = len(fs.shifts)
        for k in sorted({0, ns - 1, int(rng.integers(0, ns))}):
            with ctx.guard('surface(shiftindex=k) builds the slab for every offered shift', 'surface:exception'):
                fs.surface(shiftindex=k)
        if i < 6:
            rec.sample(dict(cls=cls, hkl=hkl, uvws=fs.uvws, nshifts=ns, natoms_rcell=fs.rcell.natoms))

    lap('rcell')
    # ---------------------------------------------------------------- group 3: free-surface systems (options, all shifts, sequences)
    nsurf = ctx.pick(240, 2400)
    sclasses = classes
    for i in ctx.cases('surface', nsurf):
        rng = ctx.rng
        cls = sclasses[i % ncls]
        cutname = 'cacb'[(i // ncls) % 4]
        if cutname != 'c' and (i // (4 * ncls)) % 2 == 0:
            # orientations that are compatible by construction: cubic cells (every plane normal is a lattice direction)
            cls = [('p', 'cubic'), ('f', 'cubic'), ('i', 'cubic')][(i // ncls) % 3]
        setting0 = cls[0]
        hkl = plane_choice(i, setting0, plist)
        cell, setting = cell_for(rng, cls, GC.BASIS_KINDS[i % 3], 'zero' if i % 5 else 'near')
        if cls[0] == 'p4':
            hkl = (hkl[0], hkl[1], -(hkl[0] + hkl[1]), hkl[2])
        u = build_ucell(am, cell)
        fs = None
        res = None
        try:
            fs = FreeSurface(hkl, u, cutboxvector=cutname, conventional_setting=setting)
        except Exception as ex:
            res = classify_init_exception(rec, ex, cell, hkl, cutname, setting, None, 'FreeSurface')
        sig = ('surface', cls[0], cls[1], cutname, cell['basis'])
        if fs is None:
            rec.case(sig + (res,), nontrivial=False)
            continue
        info = check_object(rec, fs, cell, hkl, cutname, setting)
        if info is None:
            rec.case(sig + ('unanalysable',), nontrivial=False)
            continue
        check_accept_compatible(rec, info, 'FreeSurface')
        rec.count('surface:accepted:cut-' + cutname)
        if setting != 'p':
            rec.count('surface:accepted:centred')
            if tuple(np.abs(hkl3_of(hkl)[0])) in [tuple(np.abs(q)) for q in GC.FLAGGED.get(setting, [])]:
                rec.count('surface:accepted:centred-flagged-plane')
        optkind, opt = size_options(rng, i // 3, info['cut'], info['D'], info['L'])
        opt = shrink(info, opt)
        rec.case(sig + (optkind,), nontrivial=True, fp=fingerprint(cell['vects'], cell['sites'], hkl, cutname, opt))
        ns = len(fs.shifts)
        ks = list(range(ns)) if ns <= 6 else sorted({0, 1, ns - 1, *[int(x) for x in rng.integers(0, ns, 3)]})
        if i % 2:
            ks = ks[::-1]
        for k in ks:                                            # a sequence of surface() calls on ONE object
            with ctx.guard('surface() builds the slab for every offered shift and option set', 'surface:exception'):
                fs.surface(shiftindex=k, **fresh(opt))
                rec.count('surface:shiftindex-calls')
        rec.count('surface:all-shifts-covered', int(ns <= 6))
        # the current shift is kept when none is given
        with ctx.guard('surface() without a shift re-uses the current one', 'surface:exception'):
            fs.surface(**fresh(opt))
        # explicit shifts: same termination, translated in-plane (absolute and box-relative)
        k = int(rng.integers(0, ns))
        sh = np.array(fs.shifts[k], float)
        inplane = rng.uniform(-1, 1, 2) @ info['rv'][info['inpl']]
        with ctx.guard('surface(shift=vector) accepts an absolute shift', 'surface:exception'):
            fs.surface(shift=sh + inplane, **fresh(opt))
            rec.count('surface:explicit-shift-calls')
        with ctx.guard('surface(shift=vector, shiftscale=True) accepts a box-relative shift', 'surface:exception'):
            rel = np.linalg.solve(info['rv'].T, sh + inplane)
            fs.surface(shift=rel, shiftscale=True, **fresh(opt))
            rec.count('surface:explicit-shift-calls')
        # the documented tuple type where the code has to enlarge / make even the cut multiplier
        if i % 4 == 0:
            t = [1, 1, 1]
            kwt = dict(sizemults=tuple(t))
            if (i // 4) % 2:
                kwt['minwidth'] = 1.5 * info['D']
            else:
                kwt['even'] = True
            rec.count('surface:tuple-sizemults-adjusted-calls')
            with ctx.guard('sizemults may be a tuple (documented) also when minwidth/even change the cut multiplier',
                           'surface:tuple-sizemults'):
                fs.surface(shiftindex=0, **kwt)
        if i < 8:
            rec.sample(dict(cls=cls, hkl=hkl, cut=cutname, options=opt, nshifts=ns, natoms=fs.system.natoms))

    lap('surface')
    # ---------------------------------------------------------------- group 4: stacking faults (sequences on one object)
    nflt = ctx.pick(200, 2000)
    for i in ctx.cases('fault', nflt):
        rng = ctx.rng
        cls = sclasses[(i * 4 + i // ncls) % ncls]
        cutname = 'ccab'[(i // 3) % 4]
        if cutname != 'c':
            cls = [('p', 'cubic'), ('f', 'cubic'), ('i', 'cubic'), ('p', 'tetragonal')][(i // 12) % 4]
        setting0 = cls[0]
        hkl = plane_choice(i + 3, setting0, plist)
        cell, setting = cell_for(rng, cls, GC.BASIS_KINDS[(i + 1) % 3])
        if cls[0] == 'p4':
            hkl = (hkl[0], hkl[1], -(hkl[0] + hkl[1]), hkl[2])
        u = build_ucell(am, cell)
        sf = None
        res = None
        custom = (i % 5 == 2)
        try:
            sf = StackingFault(hkl, u, cutboxvector=cutname, conventional_setting=setting)
        except Exception as ex:
            res = classify_init_exception(rec, ex, cell, hkl, cutname, setting, None, 'StackingFault')
        sig = ('fault', cls[0], cls[1], cutname, cell['basis'], 'custom-vects' if custom else 'default-vects')
        if sf is None:
            rec.case(sig + (res,), nontrivial=False)
            continue
        info = check_object(rec, sf, cell, hkl, cutname, setting, kind='StackingFault')
        if info is None:
            rec.case(sig + ('unanalysable',), nontrivial=False)
            continue
        check_accept_compatible(rec, info, 'StackingFault')
        rec.case(sig, nontrivial=True, fp=fingerprint(cell['vects'], cell['sites'], hkl, cutname, i))
        cut, inpl, D, L = info['cut'], info['inpl'], info['D'], info['L']
        # default a1/a2 are the two in-plane cell vectors (cyclic order after the cut vector)
        a1i, a2i = (cut + 1) % 3, (cut + 2) % 3                 # cyclic (right-handed) order after the cut vector
        uvc = np.asarray(sf.uvws, float)
        if uvc.shape == (3, 4):
            uvc3 = X.uvtw_to_uvw(uvc)
        else:
            uvc3 = uvc
        rec.close(1e-9, X.uvtw_to_uvw(np.asarray(sf.a1vect_uvw, float)) if np.asarray(sf.a1vect_uvw).shape == (4,) else sf.a1vect_uvw,
                  uvc3[a1i], 'default a1vect_uvw is the first in-plane cell vector', 'fault:default-a1')
        rec.close(1e-9, X.uvtw_to_uvw(np.asarray(sf.a2vect_uvw, float)) if np.asarray(sf.a2vect_uvw).shape == (4,) else sf.a2vect_uvw,
                  uvc3[a2i], 'default a2vect_uvw is the second in-plane cell vector', 'fault:default-a2')
        sf._vf_default_vects = not custom
        if custom:
            # other in-plane lattice vectors (integer combinations of the cell's in-plane vectors, conventional indices)
            c1 = uvc3[a1i] + uvc3[a2i]
            c2 = uvc3[a2i] * (2 if i % 2 else 1) - (uvc3[a1i] if i % 3 == 0 else 0)
            with ctx.guard('in-plane lattice vectors are accepted as shift vectors', 'fault:custom-vects-refused'):
                sf.a1vect_uvw = c1
                sf.a2vect_uvw = c2
                rec.count('fault:custom-vects')
        ns = len(sf.shifts)
        nsteps = 2 + (i % 2)
        mcut = [2, 4, 3, 2][i % 4]
        mi = [int(rng.integers(1, 3)), int(rng.integers(1, 3)), int(rng.integers(1, 3))]
        mi[cut] = mcut
        if info['nrcell'] * mi[0] * mi[1] * mi[2] > 1200:
            for q in inpl:
                mi[q] = 1
        if info['nrcell'] * mi[0] * mi[1] * mi[2] > 1600:
            mi[cut] = 2
            mcut = 2
        fpmode = ['default', 'rel', 'cart', 'rel'][(i // 2) % 4]
        if mcut % 2 and fpmode == 'default':
            fpmode = 'rel'
        jgap = int(rng.integers(1, mcut))                       # the fault goes into the jgap-th cell boundary: a gap mid-point
        vac = float(rng.uniform(0.5, 2.0) * L) if i % 7 == 3 else None
        prev_k = None
        for step in range(nsteps):
            # a different termination each time, the same fault position request
            k = int(rng.integers(0, ns))
            if ns > 1 and k == prev_k:
                k = (k + 1) % ns
            prev_k = k
            kw = dict(sizemults=list(mi))
            if vac is not None:
                kw['vacuumwidth'] = vac
            W = mcut * D + (vac or 0.0)
            if step == nsteps - 1 and i % 3 == 0:
                sh = np.array(sf.shifts[k], float) + rng.uniform(-1, 1, 2) @ info['rv'][inpl]
                kw['shift'] = sh
            else:
                kw['shiftindex'] = k
            if fpmode == 'default':
                pass                                            # 0.5 of an even number of cells: a cell boundary = gap mid-point
            elif fpmode == 'rel':
                kw['faultpos_rel'] = ((vac or 0.0) / 2 + jgap * D) / W
                # the two faces of the slab are cell boundaries too (gap mid-points, or vacuum): a fault position of exactly
                # 0 (every atom above) or 1 (none above), given as float or int
                if (i // 8) % 3 == 1 and step == nsteps - 1:
                    kw['faultpos_rel'] = [0.0, 0, 1.0, 1][(i // 24) % 4]
                    rec.count('fault:faultpos-on-a-face')
                    rec.count('fault:faultpos-on-a-face:%r' % (kw['faultpos_rel'],))
            else:
                # Cartesian: slab origin along the cut is the rcell origin minus half the vacuum; cell boundaries are gap mid-points
                kw['faultpos_cart'] = float(sf.rcell.box.origin[cut]) - (vac or 0.0) / 2 + jgap * D
            ok = False
            with ctx.guard('StackingFault.surface() builds the slab', 'sfsurface:exception'):
                sf.surface(**kw)
                ok = True
                rec.count('fault:surface-calls')
                if step > 0:
                    rec.count('fault:surface-recalled-same-faultpos')
            if not ok:
                break
            # fault() calls on the current slab
            calls = []
            a1f, a2f = (int(rng.integers(0, 5)) / 5.0, int(rng.integers(0, 5)) / 5.0)
            calls.append(dict(a1=a1f, a2=a2f))
            calls.append([dict(a1=1.0), dict(a2=1.0), dict(a1=1.0, a2=1.0)][(i + step) % 3])
            if (i + step) % 2:
                calls.append(dict(a1=float(rng.uniform(-1, 1)), a2=float(rng.uniform(-1, 1)), outofplane=float(rng.uniform(0, 0.3) * L)))
            else:
                calls.append(dict(faultshift=rng.uniform(-1, 1, 2) @ info['rv'][inpl] + info['e'] * float(rng.uniform(0, 0.2) * L)))
            if (i + step) % 4 == 1:
                calls.append(dict(a1=a1f, a2=a2f, minimum_r=float(rng.uniform(0.3, 1.2) * L)))
            if (i + step) % 4 == 2:
                calls.append(dict())                            # no shift at all
            if (i + step) % 5 == 3:
                calls.append(dict(a1=a1f, a2=a2f, faultpos_rel=[0.0, 1.0, 0][(i // 5) % 3]))     # fault position moved to a face by fault() itself
                rec.count('fault:fault()-faultpos-on-a-face')
            for c in calls:
                with ctx.guard('fault() builds the faulted configuration', 'fault:exception'):
                    sf.fault(**c)
                    rec.count('fault:calls')
        # the 5x5 fractional grid through iterfaultmap on the last slab
        if i % 4 == 0:
            with ctx.guard('iterfaultmap yields the grid of fractional shifts', 'fault:iterfaultmap-exception'):
                seen = []
                for a1, a2, s_ in sf.iterfaultmap(num_a1=5, num_a2=5):
                    seen.append((round(float(a1), 12), round(float(a2), 12)))
                exp = sorted((a / 5.0, b / 5.0) for a in range(5) for b in range(5))
                rec.check(sorted(seen) == [(round(a, 12), round(b, 12)) for a, b in exp], 'iterfaultmap visits the regular num_a1 x num_a2 grid of fractional shifts',
                          'fault:iterfaultmap-grid', seen=seen[:6])
                rec.count('fault:iterfaultmap-runs')
        if i < 6:
            rec.sample(dict(cls=cls, hkl=hkl, cut=cutname, a1vect=sf.a1vect_uvw, a2vect=sf.a2vect_uvw, nshifts=ns, sizemults=mi, faultpos=fpmode))

    lap('fault')
    # ---------------------------------------------------------------- counters and floors
    for k, v_ in monitor.calls.items():
        if isinstance(v_, int):
            rec.count('monitor_calls:' + k, v_)
    if ctx.only is None:
        f = 'atomman/defect/free_surface_basis.py'
        for name, lo, hi in (('hkl', 120, 127), ('hk0', 128, 133), ('h0l', 135, 140), ('h00', 141, 146), ('0kl', 147, 153),
                             ('0k0', 154, 159), ('00l', 160, 165)):
            rec.count('reach:basis-branch-' + name, int(cover.hits(f, lo + 3, hi) > 0))
        rec.count('reach:basis-centred-conversion', int(cover.hits(f, 171, 173) > 0))
        rec.count('reach:FreeSurface-vacuum', int(cover.hits('atomman/defect/FreeSurface.py', 439, 442) > 0))
        rec.count('reach:StackingFault-minimum_r', int(cover.hits('atomman/defect/StackingFault.py', 558, 562) > 0))
    rec.floor('basis:planes-enumerated', nb)
    rec.floor('rcell:planes-enumerated', nrc)
    rec.floor('monitor:basis-evaluated', ctx.pick(4000, 25000))
    rec.floor('monitor:basis-normal-evaluated', ctx.pick(3000, 20000))
    rec.floor(f'exhaustive:rcell:all-planes-|hkl|<={bound}-x-{len(rc_classes)}-cell-classes-cut-c', nrc)
    for s in GC.SETTINGS:
        rec.floor('basis:returned:' + s, ctx.pick(60, 1000))
        rec.floor('rcell:objects:' + s, ctx.pick(60, 300))
    rec.floor('basis:returned:p4', ctx.pick(300, 1800))
    rec.floor('basis:returned:p', ctx.pick(2000, 12000))
    rec.floor('basis:centred:fractional-conventional-indices', 100)
    rec.floor('basis-maxindex:raised', 10)
    rec.floor('basis:assertion-justified', 10)
    rec.floor('monitor:object-evaluated', ctx.pick(1000, 5000))
    rec.floor('monitor:surface-evaluated', ctx.pick(2000, 15000))
    rec.floor('monitor:between-layers-evaluated', ctx.pick(2000, 15000))
    rec.floor('surface:accepted:cut-a', ctx.pick(20, 200))
    rec.floor('surface:accepted:cut-b', ctx.pick(20, 200))
    rec.floor('surface:accepted:cut-c', ctx.pick(100, 1000))
    rec.floor('surface:accepted:centred', ctx.pick(60, 600))
    rec.floor('surface:accepted:centred-flagged-plane', ctx.pick(8, 80))
    rec.floor('surface:explicit-shift-calls', ctx.pick(200, 2000))
    rec.floor('surface:tuple-sizemults-adjusted-calls', ctx.pick(30, 300))
    rec.floor('monitor:refusal-classified', ctx.pick(10, 100))
    rec.floor('monitor:sfsurface-evaluated', ctx.pick(300, 3000))
    rec.floor('fault:surface-recalled-same-faultpos', ctx.pick(150, 1500))
    rec.floor('monitor:fault-evaluated', ctx.pick(1500, 15000))
    rec.floor('monitor:full-shift-evaluated', ctx.pick(250, 2500))
    rec.floor('fault:atoms-above', 1000)
    rec.floor('fault:atoms-below', 1000)
    rec.floor('fault:custom-vects', ctx.pick(20, 200))
    rec.floor('fault:faultpos-on-a-face', ctx.pick(10, 100))
    rec.floor('fault:fault()-faultpos-on-a-face', ctx.pick(20, 200))
    rec.floor('fault:iterfaultmap-runs', ctx.pick(25, 250))
    rec.floor('fault:minimum_r-pushed', 5)
    for name in ('hkl', 'hk0', 'h0l', 'h00', '0kl', '0k0', '00l'):
        rec.floor('reach:basis-branch-' + name, 1)
    rec.floor('reach:basis-centred-conversion', 1)
    rec.floor('reach:FreeSurface-vacuum', 1)
    rec.floor('reach:StackingFault-minimum_r', 1)
