"""C15 - Point-defect insertion changes only the defect site and records the mapping.

Shape: postconditions on every call of vacancy / interstitial / substitutional /
dumbbell / point (monitors installed on the real functions, so calls made by the
dispatcher are seen too) + site-specific comparison with an independent model
(vf/oracle/c15_model.py) + short histories of 2-4 successive insertions with an
old-index composition model.
"""
from __future__ import annotations

import sys
from collections import OrderedDict

import numpy as np

from ..core import fingerprint
from ..gen import cells
from ..gen import c15_systems as GEN
from ..oracle import geometry as G
from ..oracle import c15_model as M
from .. import monitor, cover

RULE = ('case index i -> defect type (i%4: v,i,s,db) x entry point (direct function / point() dispatcher) x system kind '
        '(i%7: random, crystal, unwrapped, close-pair, integer-coordinates, 2-3 atoms, single atom) x cell kind/origin/scale '
        '(shared stratified cell table: 7 families, strongly tilted, rotated; origin 0, O(L), O(1e3 L); scale 1, 1e-4, 1e4) '
        'x pbc (8) x property class (5) x keyword class (3) x atol class (3) x number of types (1-3); inside a case the site is '
        'selected in every form (index, negative index, numpy integer, Cartesian, box-relative, through a periodic image, '
        '0.5*atol off the site, integer-valued coordinates) and every refusal class is exercised.  A case is non-trivial when '
        'the system has >= 2 atoms and at least one position-based selection was judged; distinct = fingerprint of '
        '(cell, positions, types, operation).  Histories: 2-4 chained insertions (all 16 ordered type pairs enumerated first).  '
        'Working units: group "units" = case i -> ordered pair of working-unit configurations (i%25 over {package default, SI, '
        "length='nm', length='m', random numericalunits seed}^2, every third+fourth block a third stage returning to the first) "
        'x defect type x entry point x system kind (5) x cell kind/origin x pbc x property/keyword/atol class; the SAME system '
        'description (held in angstrom) is rebuilt in the units in force at every stage inside one worker process, the standard '
        'single-case workload and the documented-default-tolerance probes (0.005 A found / 0.05 A refused, default atol vs '
        "explicit uc.set_in_units(0.01,'angstrom'), default-after-large-explicit) run before and after every switch, the System "
        'object of the previous stage is probed again under the new units, and all results are compared in angstrom across '
        'stages; group "units-history" = chained insertions under configuration i%5 after a default-atol call under '
        'configuration (i//5)%5.  The package default is restored in a finally block.')
ASSUMPTIONS = [
    'site lookup by position is the 27-image periodic distance of C02 (image coefficients in {-1,0,1} on periodic axes)',
    'all atoms are pairwise farther apart than the search tolerance except a deliberately built pair 0.6*atol apart',
    'probe positions whose distance to any atom lies in (0.75,1.5)*atol are exempt (counted)',
    'the old_id given to a created atom is only required to differ from every other old_id (its value is not documented)',
    'which of the two dumbbell atoms receives +db_vect is not documented: the pair {site-db, site+db} is required',
    'a vacancy in a one-atom system is out of domain (atomman cannot represent an empty System)',
    'per-type masses are not part of the property statement (their loss is counted, not judged)',
    'oracle shares numpy with the code under test',
    'working units: the harness hands lengths to atomman through uc.set_in_units(x, "angstrom") and reads them back through '
    'uc.get_in_units(x, "angstrom") (unit conversion itself is property C09/C10); the oracle only ever sees angstrom; the '
    'factor is cross-checked against numericalunits and the named configurations, a stage whose units are not as requested '
    'is skipped and counted (floors then make the run inconclusive)',
    'a System is a container of numbers: the same object read under other working units is the same cell scaled, and is '
    'judged as such (class "carried system"), only while its rescaled smallest separation stays >= 0.3 A and its size <= 1e5 A',
]
CONFIG = {'quick': dict(shards=8, seeds=1, timeout=600),
          'thorough': dict(shards=16, seeds=2, timeout=3000)}

NAME = {'v': 'vacancy', 'i': 'interstitial', 's': 'substitutional', 'db': 'dumbbell'}
PTYPES = ['v', 'i', 's', 'db']

C_COUNT = 'atom count changes by the documented amount (-1,+1,0,+1)'
C_CELL = 'result has the same cell, pbc and symbols'
C_SURV = 'every other atom unchanged in position, type, properties and relative order'
C_OLD = 'old_id identifies each surviving atom'
C_NEW = 'defect atom(s) placed last with the requested position, type and property values'
C_INPUT = 'input system is untouched'
C_ALIAS = 'result is a new system sharing no storage with the input'
C_SEL = 'selection by position (Cartesian, relative, periodic image) or index gives the same result'
C_REFUSE = 'absent, ambiguous, occupied, same-type or over-specified site is refused'
C_DONE = 'in-domain insertion completes'
C_COMPOSE = 'old_id composes over successive insertions'
C_NAMES = 'result carries the input properties plus old_id'
C_UNITS = 'outcome (in angstrom) does not depend on the working units in force nor on earlier calls'

SINGLE_KEY = 'pos-lookup:single-atom-system'


# ---------------------------------------------------------------- working units
UNIT_CONFIGS = ['default', 'SI', 'nm', 'm', 'random']
DEFAULT_UNITS = dict(length='angstrom', mass='amu', energy='eV', charge='e')
EXPECT_FACTOR = {'default': 1.0, 'SI': 1e-10, 'nm': 0.1, 'm': 1e-10}          # one angstrom in working units


class _Units:
    """Harness-side view of the working units.  While ``active`` every length
    handed to atomman goes through uc.set_in_units(x, 'angstrom') and every
    length read back goes through uc.get_in_units(x, 'angstrom'), so that the
    oracle and all bounds stay in angstrom.  Inactive (the groups 'single' and
    'history'): numbers are passed through untouched (package default units)."""
    active = False
    uc = None
    label = 'default'
    factor = 1.0


U = _Units()


def to_wu(x):
    """angstrom -> working units in force"""
    if not U.active:
        return x
    return U.uc.set_in_units(x, 'angstrom')


def to_A(x):
    """working units in force -> angstrom"""
    if not U.active:
        return x
    return U.uc.get_in_units(x, 'angstrom')


def set_config(uc, cfg, seed=None):
    if cfg == 'default':
        uc.reset_units(**DEFAULT_UNITS)
    elif cfg == 'SI':
        uc.reset_units('SI')
    elif cfg == 'nm':
        uc.reset_units(length='nm', mass='amu', energy='eV', charge='e')
    elif cfg == 'm':
        uc.reset_units(length='m')
    elif cfg == 'random':
        uc.reset_units(seed=int(seed))
    else:
        raise ValueError(cfg)


def enter_units(rec, uc, cfg, seed=None):
    """Switch the working units; True if they are in force as requested."""
    import numericalunits as nu
    set_config(uc, cfg, seed)
    U.active, U.uc, U.label = True, uc, cfg
    f = float(uc.set_in_units(1.0, 'angstrom'))
    U.factor = f
    ok = np.isfinite(f) and f > 0 and abs(f / float(nu.angstrom) - 1.0) < 1e-12
    if cfg in EXPECT_FACTOR:
        ok = ok and abs(f / EXPECT_FACTOR[cfg] - 1.0) < 1e-12
    else:
        ok = ok and 1e-13 < f < 1e-7
    if not ok:
        rec.count('exempt:units-not-as-requested')
    return bool(ok)


def leave_units(uc):
    try:
        uc.reset_units(**DEFAULT_UNITS)
    finally:
        U.active, U.label, U.factor = False, 'default', 1.0


# ---------------------------------------------------------------- plumbing
def snapshot(system):
    props = OrderedDict((k, np.array(system.atoms.view[k], copy=True)) for k in system.atoms.view)
    if U.active:
        props['pos'] = np.array(to_A(props['pos']), dtype=float)
    return M.Snap(to_A(system.box.vects), to_A(system.box.origin), system.pbc, system.symbols, props, masses=system.masses)


def build_system(am, spec):
    kw = OrderedDict((k, np.array(v, copy=True)) for k, v in spec['props'].items())
    atoms = am.Atoms(atype=np.array(spec['atype'], copy=True), pos=np.array(to_wu(spec['pos']), dtype=float, copy=True), **kw)
    v = np.array(to_wu(spec['vects']), dtype=float)
    box = am.Box(avect=v[0].copy(), bvect=v[1].copy(), cvect=v[2].copy(), origin=np.array(to_wu(spec['origin']), dtype=float, copy=True))
    masses = None
    if spec['masses'] is not None:
        masses = list(spec['masses'])[:int(np.max(spec['atype']))]
    return am.System(atoms=atoms, box=box, pbc=spec['pbc'], symbols=(list(spec['symbols']) or None), masses=masses)


def container(p, how, length=False):
    """``length``: p is a Cartesian length in angstrom (converted to the working units in force)."""
    p = np.asarray(p, float)
    if length:
        p = np.asarray(to_wu(p), float)
    if how == 'list':
        return [float(x) for x in p]
    if how == 'tuple':
        return tuple(float(x) for x in p)
    return p.copy()


def invoke(am, ptype, entry, system, sel, op, atol_arg, scale=False, db_arg=None, extra=None, spell_defaults=False):
    args = dict(sel)
    if scale:
        args['scale'] = True
    elif spell_defaults:
        args['scale'] = False
    if atol_arg is not None:
        args['atol'] = to_wu(atol_arg)          # explicit tolerances are held in angstrom on the harness side
    elif spell_defaults:
        args['atol'] = None
    if spell_defaults and sel and ptype != 'i':          # the unused selector spelled out as None
        args.setdefault('pos', None)
        args.setdefault('ptd_id', None)
    if ptype == 'db':
        args['db_vect'] = db_arg
    if ptype == 's' and op.get('atype') is not None:
        args['atype'] = op['atype']
    if ptype != 'v':
        for k, v in (op.get('kw') or {}).items():
            args[k] = np.array(v, copy=True) if isinstance(v, np.ndarray) else v
    if extra:
        args.update(extra)
    if entry == 'direct':
        return getattr(am.defect, NAME[ptype])(system, **args)
    return am.defect.point(system, ptd_type=ptype, **args)


def is_axis_error(e):
    return type(e).__name__ == 'AxisError'


# ---------------------------------------------------------------- monitors
def install_monitors(rec, am):
    pm = sys.modules['atomman.defect.point']

    def pre(args, kwargs):
        system = args[0] if args else kwargs['system']
        return system, snapshot(system)

    def make_post(name, ptype_of):
        def post(args, kwargs, result, exc, old):
            if isinstance(old, Exception) or old is None:
                return
            system, before = old
            ok, what = M.snap_equal(before, snapshot(system))
            rec.check(ok, C_INPUT, f'monitor:{name}:input-modified' + (':on-refusal' if exc is not None else ''), what=what)
            if exc is not None:
                rec.count(f'monitor:{name}:raised')
                return
            rec.count(f'monitor:{name}:returned')
            pt = ptype_of(args, kwargs)
            rec.check(result.natoms - before.n == M.COUNT_CHANGE[pt], C_COUNT, f'monitor:{name}:count',
                      before=before.n, after=result.natoms)
            same = (np.array_equal(to_A(result.box.vects), before.vects) and np.array_equal(to_A(result.box.origin), before.origin)
                    and tuple(bool(x) for x in result.pbc) == before.pbc)
            rec.check(same, C_CELL, f'monitor:{name}:cell', vects=to_A(result.box.vects), exp_vects=before.vects,
                      pbc=result.pbc, exp_pbc=before.pbc)
            shared = result is system or result.box is system.box or result.atoms is system.atoms \
                or np.shares_memory(result.pbc, system.pbc) or np.shares_memory(result.box.vects, system.box.vects)
            for k in system.atoms.view:
                if k in result.atoms.view and np.shares_memory(result.atoms.view[k], system.atoms.view[k]):
                    shared = True
            rec.check(not shared, C_ALIAS, f'monitor:{name}:aliasing')
            has = 'old_id' in result.atoms.view and result.atoms.view['old_id'].dtype.kind in 'iu' \
                and result.atoms.view['old_id'].shape == (result.natoms,)
            rec.check(has, C_OLD, f'monitor:{name}:old_id-missing')
        return post

    for pt, nm in NAME.items():
        monitor.observe_function(getattr(pm, nm), make_post(nm, lambda a, k, pt=pt: pt), pre, label=nm)

    def disp_type(args, kwargs):
        return args[1] if len(args) > 1 else kwargs.get('ptd_type', 'v')
    monitor.observe_function(pm.point, make_post('point', disp_type), pre, label='point')


# ---------------------------------------------------------------- comparison with the model
def symbols_expected(in_symbols, res_atype):
    need = int(np.max(res_atype)) if len(res_atype) else 0
    s = tuple(in_symbols)
    return s + (None,) * max(0, need - len(s))


def check_result(rec, res, before, op, tag, tolpos):
    """Site-specific comparison of the returned system with the documented outcome."""
    exp = M.expected(before, op)
    pt = op['type']
    key = f'{pt}:{tag}'
    ok_all = True
    ok_all &= rec.check(res.n == exp.n, C_COUNT, key + ':count', got=res.n, expected=exp.n)
    ok_all &= rec.check(np.array_equal(res.vects, before.vects) and np.array_equal(res.origin, before.origin)
                        and res.pbc == before.pbc, C_CELL, key + ':cell')
    ok_all &= rec.check(res.symbols == symbols_expected(before.symbols, res.props['atype']), C_CELL, key + ':symbols',
                        got=res.symbols, input=before.symbols)
    ok_all &= rec.check(list(res.props) == exp.names, C_NAMES, key + ':names', got=list(res.props), expected=exp.names)
    if res.n != exp.n:
        return False
    m = exp.nsurv
    for p, e in exp.props.items():
        if p not in res.props:
            continue
        g = res.props[p]
        if g.dtype != before.props[p].dtype or g.shape != e.shape:
            ok_all &= rec.check(False, C_SURV, key + ':dtype-shape', prop=p, got=str(g.dtype), expected=str(e.dtype),
                                got_shape=g.shape, exp_shape=e.shape)
            continue
        okm = np.array_equal(g[:m], e[:m])
        ok_all &= rec.check(okm, C_SURV, key + ':survivors', prop=p, order=exp.order[:12],
                            got=g[:m][:6], expected=e[:m][:6])
        if exp.n > m:
            gt, et = g[m:], e[m:]
            if p == 'pos':
                if pt == 'db':
                    # the unordered pair {site-db, site+db}; copy/original roles are not documented
                    d_same = max(np.abs(gt[0] - et[0]).max(), np.abs(gt[1] - et[1]).max())
                    d_swap = max(np.abs(gt[0] - et[1]).max(), np.abs(gt[1] - et[0]).max())
                    okn = min(d_same, d_swap) <= tolpos
                    if okn and d_swap < d_same:
                        rec.count('obs:dumbbell-copy-at-minus-db')
                else:
                    okn = np.abs(gt - et).max() <= tolpos
                ok_all &= rec.check(okn, C_NEW, key + ':new-pos', got=gt, expected=et, tol=tolpos)
            else:
                ok_all &= rec.check(np.array_equal(gt, et), C_NEW, key + ':new-' + ('atype' if p == 'atype' else 'prop'),
                                    prop=p, got=gt, expected=et, kw=sorted(op.get('kw') or {}))
    if 'old_id' in res.props:
        go = res.props['old_id']
        if go.shape == (exp.n,):
            eo = exp.old_id
            oks = all(int(go[j]) == eo[j] for j in range(m))
            ok_all &= rec.check(oks, C_OLD, key + ':old_id-survivors', got=go[:m][:12], expected=eo[:m][:12])
            for j in range(m, exp.n):
                if eo[j] is M.FREE:
                    others = np.delete(go, j)
                    ok_all &= rec.check(int(go[j]) not in set(int(x) for x in others), C_OLD, key + ':old_id-new-collides',
                                        got=go[-6:])
                else:
                    ok_all &= rec.check(int(go[j]) == eo[j], C_NEW if 'old_id' in (op.get('kw') or {}) else C_OLD,
                                        key + ':old_id-defect-atom', got=int(go[j]), expected=eo[j])
    if before.masses is not None and any(x is not None for x in before.masses):
        rec.count('obs:input-had-masses')
        if all(x is None for x in (res.masses or ())):
            rec.count('obs:masses-dropped')
    return bool(ok_all)


def same_result(rec, a, b, ptype, tag, tolpos, clause=None, key=None):
    """Two selections of the same site give identical systems (positions of the
    defect atoms within the rounding of the relative->Cartesian conversion)."""
    ok = a.n == b.n and list(a.props) == list(b.props) and a.symbols == b.symbols and a.pbc == b.pbc
    if clause == C_UNITS:          # cells rebuilt under other units agree to the rounding of the conversion
        ok = ok and np.abs(a.vects - b.vects).max() <= tolpos and np.abs(a.origin - b.origin).max() <= tolpos
    else:
        ok = ok and np.array_equal(a.vects, b.vects) and np.array_equal(a.origin, b.origin)
    why = 'structure'
    if ok:
        for p in a.props:
            x, y = a.props[p], b.props[p]
            if x.shape != y.shape or (x.dtype != y.dtype and not (p == 'old_id' and x.dtype.kind in 'iu' and y.dtype.kind in 'iu')):
                ok, why = False, f'{p}: {x.dtype}{x.shape} vs {y.dtype}{y.shape}'
                break
            if p == 'pos':
                if np.abs(x - y).max(initial=0) > tolpos:
                    ok, why = False, p
                    break
            elif not np.array_equal(x, y):
                ok, why = False, p
                break
    return rec.check(ok, clause or C_SEL, key or f'{ptype}:{tag}:differs-from-reference', what=why)


class Runner:
    """One system + one operation: performs real calls in the requested
    selection form and judges them."""

    def __init__(self, ctx, am, system, spec_atol, atol_arg, entry, L, spell_defaults=False):
        self.ctx, self.rec, self.am = ctx, ctx.rec, am
        self.spell_defaults = spell_defaults          # pass scale=False / atol=None / pos=None / ptd_id=None explicitly
        self.system = system
        self.before = snapshot(system)
        self.atol, self.atol_arg, self.entry = spec_atol, atol_arg, entry
        self.L = L
        self.osc = L + np.abs(self.before.origin).max()
        self.njudged_pos = 0
        self.last_result = None
        self.results = {}            # tag -> snapshot of an accepted call (compared across working-unit stages)
        self.outcomes = {}           # tag -> 'returned' | 'raised:<type>'

    # -- tolerances
    def tol(self, scale, relmax=1.0):
        if scale:
            return 1e-9 * (self.L * (1 + relmax) + np.abs(self.before.origin).max())
        return 1e-13 * self.osc

    def rel(self, p):
        return G.rel(np.asarray(p, float), self.before.vects, self.before.origin)

    def check_input(self, tag):
        ok, what = M.snap_equal(self.before, snapshot(self.system))
        self.rec.check(ok, C_INPUT, f'{tag}:input-modified', what=what)

    def accept(self, op, tag, sel, scale=False, db_arg=None, atol_arg='same', entry=None, relmax=1.0, posform=False):
        """In-domain call: must complete and match the model. Returns snapshot or None."""
        rec = self.rec
        pt = op['type']
        n1 = self.before.n == 1
        a = self.atol_arg if atol_arg == 'same' else atol_arg
        rec.count(f'accept:{pt}:{tag}')
        try:
            res = invoke(self.am, pt, entry or self.entry, self.system, sel, op, a, scale=scale, db_arg=db_arg,
                         spell_defaults=self.spell_defaults)
        except Exception as e:
            self.outcomes[f'{pt}:{tag}'] = 'raised:' + type(e).__name__
            if n1 and posform and is_axis_error(e):
                rec.check(False, C_SEL, SINGLE_KEY, exception=e, ptype=pt, form=tag)
            else:
                import traceback
                rec.check(False, C_DONE, f'{pt}:{tag}:exception', exception=e, sel={k: repr(v)[:80] for k, v in sel.items()},
                          where=traceback.format_exc()[-900:])
            self.check_input(f'{pt}:{tag}')
            return None
        rec.check(True, C_DONE, None)
        self.last_result = res
        rs = snapshot(res)
        self.results[f'{pt}:{tag}'] = rs
        self.outcomes[f'{pt}:{tag}'] = 'returned'
        check_result(rec, rs, self.before, op, tag, self.tol(scale, relmax))
        self.check_input(f'{pt}:{tag}')
        if posform:
            self.njudged_pos += 1
        return rs

    def refuse(self, pt, tag, sel, op=None, scale=False, db_arg=None, atol_arg='same', entry=None, extra=None,
               posform=False, kinds=(ValueError,)):
        """Out-of-domain call: must raise one of ``kinds`` (a crash inside the
        lookup is not a refusal) and leave the input untouched."""
        rec = self.rec
        op = op or dict(type=pt, kw={})
        a = self.atol_arg if atol_arg == 'same' else atol_arg
        rec.count(f'refuse:{pt}:{tag}')
        try:
            res = invoke(self.am, pt, entry or self.entry, self.system, sel, op, a, scale=scale, db_arg=db_arg, extra=extra,
                         spell_defaults=self.spell_defaults)
        except Exception as e:
            self.outcomes[f'{pt}:{tag}'] = 'raised:' + type(e).__name__
            if is_axis_error(e):
                rec.check(False, C_REFUSE, SINGLE_KEY if self.before.n == 1 and posform else f'{pt}:{tag}:crash-not-refusal',
                          exception=e)
            else:
                rec.check(isinstance(e, kinds), C_REFUSE, f'{pt}:{tag}:wrong-exception', exception=e)
                rec.refusal(f'{tag}:{type(e).__name__}')
        else:
            self.outcomes[f'{pt}:{tag}'] = 'returned'
            rec.check(False, C_REFUSE, f'{pt}:{tag}:not-refused', natoms=res.natoms, sel={k: repr(v)[:80] for k, v in sel.items()})
        self.check_input(f'{pt}:{tag}:refusal')
        if posform:
            self.njudged_pos += 1

    # -- judged by the oracle lookup
    def judge(self, p, atol=None):
        """(set of atoms within atol of p, decisive?)"""
        atol = self.atol if atol is None else atol
        idx, sep = M.lookup(p, self.before.pos, self.before.vects, self.before.pbc, atol)
        return idx, M.decisive(sep, atol)


def site_forms(R, rng, k, spec, syskind):
    """Position-based selections of site k: (tag, cartesian point, scale, container, explicit arg or None)."""
    b = R.before
    x = b.pos[k]
    a = R.atol
    forms = [('cart', x, False, 'array', None),
             ('cart-near', x + 0.5 * a * GEN.unit_vector(rng), False, 'list', None),
             ('rel', x, True, 'array', None),
             ('rel-near', x + 0.5 * a * GEN.unit_vector(rng), True, 'tuple', None)]
    nv = GEN.image_shift(rng, b.pbc, periodic=True)
    if nv is not None:
        sh = nv @ b.vects
        forms += [('image', x + sh, False, 'tuple', None),
                  ('image-near', x + sh + 0.5 * a * GEN.unit_vector(rng), False, 'array', None),
                  ('image-rel', x + sh, True, 'list', None)]
    if syskind == 'intpos' and np.all(x == np.rint(x)):
        forms.append(('int', x, False, None, [int(c) for c in x]))
    if syskind == 'crystal':
        r = R.rel(x)
        if np.abs(r).max() < 1e-12:          # the atom on the cell corner: integer-valued relative coordinates
            forms.append(('rel-int', x, True, None, [0, 0, 0]))
            if nv is not None:
                forms.append(('rel-int-image', x + nv @ b.vects, True, None, [int(c) for c in nv]))
    return forms


def pos_arg(R, p, scale, cont, explicit):
    if explicit is not None:
        if U.active and not scale:          # integer-valued angstrom coordinates are not integers in other units
            return container(explicit, 'list', length=True)
        return explicit
    return container(R.rel(p), cont) if scale else container(p, cont, length=True)


def relmax_of(R, p):
    return float(np.abs(R.rel(p)).max())


def run_site_case(ctx, R, rng, ptype, spec, syskind, kwclass, i):
    """vacancy / substitutional / dumbbell on one system."""
    rec, b = R.rec, R.before
    n = b.n
    cp = spec['close_pair']
    # site: in pair systems alternate between a pair member and another atom
    if cp is not None and (i // 28) % 2 == 0:
        k = cp[0]
    else:
        k = int(rng.integers(0, n))
        if cp is not None and k in cp and n > 2:
            k = [j for j in range(n) if j not in cp][int(rng.integers(0, n - 2))]
    with_old = (i // 12) % 5 == 0
    op = dict(type=ptype, site=k, kw={} if ptype == 'v' else GEN.gen_kwargs(rng, b, kwclass, ptype, with_old and ptype != 'v'))
    db = dbrel = None
    if ptype == 's':
        op['atype'] = GEN.choose_sub_atype(rng, b, k, allow_default=(i // 4) % 3 == 0)
    if ptype == 'db':
        dmin = spec['dmin'] if cp is None else M.min_pair_sep(np.delete(b.pos, cp[1], axis=0), b.vects, b.pbc)
        db = GEN.gen_db(rng, b, k, dmin)
        dbrel = np.linalg.solve(b.vects.T, db)
        op['db'] = db
    if ptype == 'v' and n == 1:
        rec.count('exempt:vacancy-in-single-atom-system')
        return op, 0

    def dbarg(scale, cont='array'):
        if ptype != 'db':
            return None
        return container(dbrel, cont) if scale else container(db, cont, length=True)

    # reference: by index
    ref = R.accept(op, 'index', dict(ptd_id=k), db_arg=dbarg(False))
    for tag, sel in (('negindex', dict(ptd_id=k - n)), ('npint', dict(ptd_id=np.int64(k))),
                     ('npint-neg', dict(ptd_id=np.int32(k - n)))):
        rs = R.accept(op, tag, sel, db_arg=dbarg(False, 'list'))
        if rs is not None and ref is not None:
            same_result(rec, rs, ref, ptype, tag, R.tol(False))
    # the other entry point with the same selection
    other = 'dispatch' if R.entry == 'direct' else 'direct'
    rs = R.accept(op, 'index-other-entry', dict(ptd_id=k), db_arg=dbarg(False), entry=other)
    if rs is not None and ref is not None:
        same_result(rec, rs, ref, ptype, 'index-other-entry', R.tol(False))

    # by position, every form
    for tag, p, scale, cont, explicit in site_forms(R, rng, k, spec, syskind):
        idx, dec = R.judge(p)
        if not dec:
            rec.count('exempt:probe-near-tolerance')
            continue
        sel = dict(pos=pos_arg(R, p, scale, cont, explicit))
        if len(idx) == 1 and idx[0] == k:
            rs = R.accept(op, tag, sel, scale=scale, db_arg=dbarg(scale, 'list' if scale else 'array'),
                          relmax=relmax_of(R, p), posform=True)
            if rs is not None and ref is not None:
                same_result(rec, rs, ref, ptype, tag, R.tol(scale, relmax_of(R, p)))
            if ptype == 'db' and scale and np.abs(b.origin).max() > 0:
                rec.count('class:dumbbell-relative-vector-origin-nonzero')
            if tag.startswith('image'):
                rec.count('class:selected-through-periodic-image')
            if tag in ('int', 'rel-int', 'rel-int-image'):
                rec.count('class:integer-valued-pos')
        elif len(idx) >= 2:
            rec.count('class:ambiguous-close-pair')
            R.refuse(ptype, 'ambiguous-' + tag, sel, op=op, scale=scale, db_arg=dbarg(scale), posform=True)
        else:
            rec.count('obs:intent-mismatch')

    # refusals --------------------------------------------------------------
    a = R.atol
    x = b.pos[k]
    hostile = [('beyond', x + 2 * a * GEN.unit_vector(rng), False), ('beyond-rel', x + 2 * a * GEN.unit_vector(rng), True)]
    nv = GEN.image_shift(rng, b.pbc, periodic=True)
    if nv is not None:
        hostile.append(('beyond-image', x + nv @ b.vects + 2 * a * GEN.unit_vector(rng), False))
    nvn = GEN.image_shift(rng, b.pbc, periodic=False)
    if nvn is not None:
        hostile.append(('nonperiodic-image', x + nvn @ b.vects, False))
        hostile.append(('nonperiodic-image-rel', x + nvn @ b.vects, True))
    _, cfree = GEN.free_position(rng, b, spec['dmin'])
    hostile.append(('empty', cfree, False))
    for tag, p, scale in hostile:
        idx, dec = R.judge(p)
        if not dec:
            rec.count('exempt:probe-near-tolerance')
            continue
        if len(idx) == 1:
            rec.count('obs:intent-mismatch')
            continue
        if len(idx) == 0:
            rec.count('class:absent-site')
        R.refuse(ptype, tag, dict(pos=pos_arg(R, p, scale, 'array', None)), op=op, scale=scale, db_arg=dbarg(scale), posform=True)
    # ambiguity through a search tolerance larger than the distance to the second-nearest atom
    if n >= 2:
        sep = np.sort(M.sep27(x, b.pos, b.vects, b.pbc))
        big = 1.6 * sep[1] if sep[1] > 0 else None
        if big is not None:
            idx, dec = R.judge(x, big)
            if dec and len(idx) >= 2:
                rec.count('class:ambiguous-large-atol')
                R.refuse(ptype, 'ambiguous-large-atol', dict(pos=container(x, 'array', length=True)), op=op, db_arg=dbarg(False),
                         atol_arg=big, posform=True)
    R.refuse(ptype, 'both-pos-and-index', dict(pos=container(x, 'list', length=True), ptd_id=k), op=op, db_arg=dbarg(False))
    R.refuse(ptype, 'neither-pos-nor-index', {}, op=op, db_arg=dbarg(False))
    R.refuse(ptype, 'index-out-of-range', dict(ptd_id=n), op=op, db_arg=dbarg(False))
    R.refuse(ptype, 'index-out-of-range-negative', dict(ptd_id=-n - 1), op=op, db_arg=dbarg(False))
    if ptype == 's':
        cur = int(b.props['atype'][k])
        same = dict(op, atype=cur)
        R.refuse('s', 'same-type', dict(ptd_id=k), op=same)
        idx, dec = R.judge(x)
        if dec and len(idx) == 1:
            R.refuse('s', 'same-type-by-pos', dict(pos=container(x, 'array', length=True)), op=same, posform=True)
        if cur == 1:
            R.refuse('s', 'same-type-default', dict(ptd_id=k), op=dict(op, atype=None))
    if ptype == 'v':
        R.refuse('v', 'dispatcher-db_vect-with-vacancy', dict(ptd_id=k), entry='dispatch', extra=dict(db_vect=[0.1, 0.0, 0.0]),
                 kinds=(AssertionError,))
        R.refuse('v', 'dispatcher-property-with-vacancy', dict(ptd_id=k), entry='dispatch', extra=dict(charge=1.0),
                 kinds=(AssertionError,))
    if ptype == 's':
        R.refuse('s', 'dispatcher-db_vect-with-substitutional', dict(ptd_id=k), op=op, entry='dispatch',
                 extra=dict(db_vect=[0.1, 0.0, 0.0]), kinds=(AssertionError,))
    return op, R.njudged_pos


def run_interstitial_case(ctx, R, rng, spec, syskind, kwclass, i):
    rec, b = R.rec, R.before
    n = b.n
    with_old = (i // 12) % 5 == 0
    kw = GEN.gen_kwargs(rng, b, kwclass, 'i', with_old)
    rfree, cfree = GEN.free_position(rng, b, spec['dmin'])
    a = R.atol
    forms = [('cart', cfree, False, 'array', None), ('rel', cfree, True, 'list', None)]
    nv = GEN.image_shift(rng, b.pbc, periodic=True)
    if nv is not None:
        forms += [('image', cfree + nv @ b.vects, False, 'list', None), ('image-rel', cfree + nv @ b.vects, True, 'tuple', None)]
    j = int(rng.integers(0, n))
    xj = b.pos[j]
    forms.append(('beyond', xj + 2 * a * GEN.unit_vector(rng), False, 'tuple', None))     # 2*atol from an atom is a free site
    nvn = GEN.image_shift(rng, b.pbc, periodic=False)
    if nvn is not None:
        forms.append(('nonperiodic-image-of-atom', xj + nvn @ b.vects, False, 'array', None))
    if syskind == 'intpos':
        for _ in range(50):
            c = rng.integers(0, n, 3).astype(float)          # small integers: every coordinate is also a valid atom index
            if M.sep27(c, b.pos, b.vects, (True,) * 3).min() > 0.4:
                forms.append(('int', c, False, None, [int(t) for t in c]))
                break
    ref = None
    first_op = None
    for tag, p, scale, cont, explicit in forms:
        idx, dec = R.judge(p)
        if not dec:
            rec.count('exempt:probe-near-tolerance')
            continue
        sel = dict(pos=pos_arg(R, p, scale, cont, explicit))
        if len(idx) == 0:
            op = dict(type='i', site=None, pos=np.asarray(p, float), kw=kw)
            first_op = first_op or op
            rs = R.accept(op, tag, sel, scale=scale, relmax=relmax_of(R, p), posform=True)
            if tag == 'cart':
                ref = rs
                rs2 = R.accept(op, 'cart-other-entry', sel, entry='dispatch' if R.entry == 'direct' else 'direct', posform=True)
                if rs2 is not None and ref is not None:
                    same_result(rec, rs2, ref, 'i', 'cart-other-entry', 0.0)
            if tag == 'rel' and rs is not None and ref is not None:
                same_result(rec, rs, ref, 'i', 'rel', R.tol(True))
            if tag == 'int':
                rec.count('class:integer-valued-pos')
            if tag.startswith('image'):
                rec.count('class:interstitial-at-image-position')
        else:
            rec.count('obs:intent-mismatch')
            R.refuse('i', 'occupied-' + tag, sel, op=dict(type='i', kw=kw), scale=scale, posform=True)
    # occupied sites must be refused
    hostile = [('occupied-exact', xj, False, None), ('occupied-near', xj + 0.5 * a * GEN.unit_vector(rng), False, None),
               ('occupied-rel', xj + 0.5 * a * GEN.unit_vector(rng), True, None)]
    if nv is not None:
        hostile += [('occupied-image', xj + nv @ b.vects + 0.5 * a * GEN.unit_vector(rng), False, None),
                    ('occupied-image-rel', xj + nv @ b.vects, True, None)]
    if syskind == 'intpos' and np.all(xj == np.rint(xj)):
        hostile.append(('occupied-int', xj, False, [int(t) for t in xj]))
    if spec['close_pair'] is not None:
        q, q2 = spec['close_pair']
        hostile.append(('occupied-by-two', 0.5 * (b.pos[q] + b.pos[q2]), False, None))
    for tag, p, scale, explicit in hostile:
        idx, dec = R.judge(p)
        if not dec:
            rec.count('exempt:probe-near-tolerance')
            continue
        if len(idx) == 0:
            rec.count('obs:intent-mismatch')
            continue
        rec.count('class:occupied-site')
        R.refuse('i', tag, dict(pos=pos_arg(R, p, scale, 'array', explicit)), op=dict(type='i', kw=kw), scale=scale, posform=True)
    R.refuse('i', 'dispatcher-index-with-interstitial', dict(pos=container(cfree, 'array', length=True)), op=dict(type='i', kw=kw),
             entry='dispatch', extra=dict(ptd_id=0), kinds=(AssertionError,))
    R.refuse('i', 'dispatcher-db_vect-with-interstitial', dict(pos=container(cfree, 'array', length=True)), op=dict(type='i', kw=kw),
             entry='dispatch', extra=dict(db_vect=[0.1, 0.0, 0.0]), kinds=(AssertionError,))
    return first_op or dict(type='i', kw=kw), R.njudged_pos


# ---------------------------------------------------------------- histories
def run_history(ctx, am, i, label='history'):
    rec, rng = ctx.rec, ctx.rng
    nops = 2 + (i // 16) % 3
    t0, t1 = PTYPES[i % 4], PTYPES[(i // 4) % 4]
    types = [t0, t1] + [PTYPES[int(rng.integers(0, 4))] for _ in range(nops - 2)]
    kind, oc, _ = cells.stratified(i)
    syskind = ['random', 'crystal', 'unwrapped'][(i // 3) % 3]
    pbc = cells.PBCS[(i // 2) % 8]
    propclass = GEN.PROPCLASSES[(i // 5) % len(GEN.PROPCLASSES)]
    cell = GEN.prepare_cell(rng, syskind, kind, oc, 1.0)
    spec = GEN.gen_system(rng, syskind, cell, pbc, 1 + i % 3, propclass, GEN.ATOLCLASSES[i % 3])
    system = build_system(am, spec)
    s0 = snapshot(system)
    chain = M.Chain(s0.n, s0.props.get('old_id'))
    atol, atol_arg = spec['atol'], spec['atol_arg']
    cur = system
    ops_log = []
    ok_steps = 0
    for step, pt in enumerate(types):
        R = Runner(ctx, am, cur, atol, atol_arg, 'dispatch' if (i + step) % 2 else 'direct', spec['L'])
        b = R.before
        n = b.n
        dmin = M.min_pair_sep(b.pos, b.vects, b.pbc)
        if pt == 'v' and n <= 2:
            pt = 'i'
        form = ['index', 'negindex', 'cart', 'rel', 'image', 'image-rel', 'cart-near'][int(rng.integers(0, 7))]
        scale = form in ('rel', 'image-rel')
        kw = {} if pt == 'v' else GEN.gen_kwargs(rng, b, GEN.KWCLASSES[int(rng.integers(0, 3))], pt, False)
        if pt == 'i':
            _, c = GEN.free_position(rng, b, dmin)
            if form.startswith('image'):
                nv = GEN.image_shift(rng, b.pbc, True)
                if nv is not None:
                    c = c + nv @ b.vects
            idx, dec = R.judge(c)
            if not dec or len(idx):
                rec.count('exempt:history-step-skipped')
                continue
            op = dict(type='i', site=None, pos=c, kw=kw)
            sel = dict(pos=container(R.rel(c), 'array') if scale else container(c, 'array', length=True))
            rs = R.accept(op, 'history-' + ('rel' if scale else 'cart'), sel, scale=scale, relmax=relmax_of(R, c), posform=True)
            used = 'rel' if scale else 'cart'
        else:
            # prefer atoms created or moved by earlier steps half of the time
            tail = [j for j in range(n) if chain.touched[j]]
            k = int(tail[int(rng.integers(0, len(tail)))]) if tail and rng.random() < 0.5 else int(rng.integers(0, n))
            op = dict(type=pt, site=k, kw=kw)
            db_arg = None
            if pt == 's':
                op['atype'] = GEN.choose_sub_atype(rng, b, k, False)
            x = b.pos[k]
            p = x
            if form.startswith('image'):
                nv = GEN.image_shift(rng, b.pbc, True)
                if nv is not None:
                    p = x + nv @ b.vects
            if form == 'cart-near':
                p = x + 0.5 * atol * GEN.unit_vector(rng)
            use_pos = form not in ('index', 'negindex')
            if use_pos:
                idx, dec = R.judge(p)
                if not (dec and len(idx) == 1 and idx[0] == k):
                    use_pos, scale = False, False
                    rec.count('exempt:history-pos-form-fell-back-to-index')
            if pt == 'db':
                op['db'] = GEN.gen_db(rng, b, k, dmin)
                db_arg = np.linalg.solve(b.vects.T, op['db']) if (use_pos and scale) else np.asarray(to_wu(op['db'].copy()), float)
            if use_pos:
                sel = dict(pos=container(R.rel(p), 'list') if scale else container(p, 'list', length=True))
                used = form
            else:
                sel = dict(ptd_id=k - n if form == 'negindex' else k)
                used = 'negindex' if form == 'negindex' else 'index'
                scale = False
            rs = R.accept(op, 'history-' + used, sel, scale=scale, db_arg=db_arg, relmax=relmax_of(R, p), posform=use_pos)
        ops_log.append((pt, used))
        if rs is None:
            break
        ok_steps += 1
        chain.apply(op)
        # rebuild the chain input from the real output (the next step acts on what the code returned)
        cur = R.last_result
        if 'old_id' in rs.props and len(rs.props['old_id']) == len(chain.oid):
            chain.resolve_free(rs.props['old_id'])
    # composition, stated directly against the first system
    fin = snapshot(cur)
    if ok_steps >= 2 and fin.n == len(chain.origin) and 'old_id' in fin.props:
        base = s0.props['old_id'] if 'old_id' in s0.props else np.arange(s0.n)
        go = fin.props['old_id']
        ok = True
        bad = None
        for j, o in enumerate(chain.origin):
            if chain.oid[j] is not None and int(go[j]) != int(chain.oid[j]):
                ok, bad = False, ('old_id', j, int(go[j]), chain.oid[j])
                break
            if o >= 0 and not chain.touched[j]:
                # an atom never selected by a defect is still the S0 atom its old_id names
                if int(go[j]) != int(base[o]):
                    ok, bad = False, ('old_id vs S0', j, int(go[j]), int(base[o]))
                    break
                for p in s0.props:
                    if p != 'old_id' and not np.array_equal(fin.props[p][j], s0.props[p][o]):
                        ok, bad = False, (p, j)
                        break
                if not ok:
                    break
        rec.check(ok, C_COMPOSE, 'history:composition', ops=ops_log, bad=bad, old_id=go[:16])
        # relative order of untouched survivors is their original order
        surv = [o for j, o in enumerate(chain.origin) if o >= 0 and not chain.touched[j]]
        rec.check(surv == sorted(surv), C_SURV, 'history:order', ops=ops_log)
        rec.check(len(set(int(x) for x in go)) == len(go), C_OLD, 'history:old_id-unique', ops=ops_log, old_id=go[:16])
        rec.count('history:composed-%d' % ok_steps)
        rec.count(label + ':composed')
    ok0, what = M.snap_equal(s0, snapshot(system))
    rec.check(ok0, C_INPUT, 'history:first-system-modified', what=what)
    rec.case((label, len(types), t0, t1, syskind) + ((U.label,) if U.active else ()), nontrivial=ok_steps >= 2,
             fp=fingerprint(s0.vects, s0.pos, s0.props['atype'], [list(o) for o in ops_log], U.label))
    if i < 12:
        rec.sample(dict(ops=ops_log, natoms0=s0.n, natoms_final=fin.n, old_id_final=fin.props.get('old_id'),
                        pbc=s0.pbc, cell=kind))


# ---------------------------------------------------------------- working-unit configurations and switches
UNIT_SYSKINDS = ['random', 'crystal', 'unwrapped', 'pair', 'tiny']
DOC_ATOL = 0.01          # angstrom: the documented default search tolerance


def tolerance_probes(R, rng, ptype, phase):
    """The documented default tolerance is 0.01 angstrom whatever the working units and whatever was called
    before: with atol omitted and with atol=uc.set_in_units(0.01,'angstrom') a position 0.005 A from a site is
    found and one 0.05 A away is not (for an interstitial: occupied / free); the two spellings give the same
    result; a preceding call with a large explicit tolerance does not stick.  Returns the number of judged probes."""
    rec, b = R.rec, R.before
    n = b.n
    if n < 2:
        return 0
    k = int(rng.integers(0, n))
    x = b.pos[k]
    u = GEN.unit_vector(rng)
    dmin = M.min_pair_sep(b.pos, b.vects, b.pbc)
    op = dict(type=ptype, site=k, kw={})
    db = dbrel = None
    if ptype == 's':
        op['atype'] = GEN.choose_sub_atype(rng, b, k, False)
    if ptype == 'db':
        db = GEN.gen_db(rng, b, k, dmin)
        dbrel = np.linalg.solve(b.vects.T, db)
        op['db'] = db

    def dbarg(scale):
        if ptype != 'db':
            return None
        return container(dbrel, 'array') if scale else container(db, 'array', length=True)

    forms = [('cart', np.zeros(3), False), ('rel', np.zeros(3), True)]
    nv = GEN.image_shift(rng, b.pbc, periodic=True)
    if nv is not None:
        forms.append(('image', nv @ b.vects, False))
    judged = 0
    ref = None
    if ptype != 'i':
        ref = R.accept(op, f'units-{phase}:index', dict(ptd_id=k), db_arg=dbarg(False), atol_arg=None)
    for form, sh, scale in forms:
        p_in = x + sh + 0.5 * DOC_ATOL * u
        p_out = x + sh + 5.0 * DOC_ATOL * u
        i_in, d_in = R.judge(p_in, DOC_ATOL)
        i_out, d_out = R.judge(p_out, DOC_ATOL)
        if not (d_in and d_out and len(i_in) == 1 and i_in[0] == k and len(i_out) == 0):
            rec.count('exempt:units-probe-not-decisive')
            continue
        # a call with a large explicit tolerance first: whatever it does (judged by the oracle), it must not stick
        big = 20.0 * DOC_ATOL
        i_big, d_big = R.judge(p_out, big)
        if d_big:
            sel = dict(pos=pos_arg(R, p_out, scale, 'array', None))
            tag = f'units-{phase}:large-atol-first-{form}'
            if ptype == 'i':
                if len(i_big) == 0:
                    R.accept(dict(type='i', site=None, pos=p_out, kw={}), tag, sel, scale=scale, atol_arg=big,
                             relmax=relmax_of(R, p_out), posform=True)
                else:
                    R.refuse('i', tag, sel, op=dict(type='i', kw={}), scale=scale, atol_arg=big, posform=True)
            elif len(i_big) == 1 and i_big[0] == k:
                R.accept(op, tag, sel, scale=scale, db_arg=dbarg(scale), atol_arg=big, relmax=relmax_of(R, p_out), posform=True)
            elif len(i_big) != 1:
                R.refuse(ptype, tag, sel, op=op, scale=scale, db_arg=dbarg(scale), atol_arg=big, posform=True)
            rec.count('units:large-explicit-atol-before-default')
        got = {}
        for aname, a in (('default', None), ('explicit', DOC_ATOL)):
            tin = f'units-{phase}:{aname}-atol-0.005A-{form}'
            tout = f'units-{phase}:{aname}-atol-0.05A-{form}'
            sin = dict(pos=pos_arg(R, p_in, scale, 'list', None))
            sout = dict(pos=pos_arg(R, p_out, scale, 'array', None))
            if ptype == 'i':
                # 0.005 A from an atom is an occupied site, 0.05 A away is a free one
                R.refuse('i', tin, sin, op=dict(type='i', kw={}), scale=scale, atol_arg=a, posform=True)
                got[aname] = R.accept(dict(type='i', site=None, pos=p_out, kw={}), tout, sout, scale=scale, atol_arg=a,
                                      relmax=relmax_of(R, p_out), posform=True)
            else:
                got[aname] = R.accept(op, tin, sin, scale=scale, db_arg=dbarg(scale), atol_arg=a,
                                      relmax=relmax_of(R, p_in), posform=True)
                R.refuse(ptype, tout, sout, op=op, scale=scale, db_arg=dbarg(scale), atol_arg=a, posform=True)
                if got[aname] is not None and ref is not None:
                    same_result(rec, got[aname], ref, ptype, tin, R.tol(scale, relmax_of(R, p_in)))
            rec.count(f'units:{aname}-atol-found-and-refused')
            rec.count(f'units:{phase}:{aname}-atol-judged')
            if aname == 'default':
                rec.count(f'units:{phase}:default-atol-judged:{U.label}')
                rec.count(f'units:{phase}:default-atol-judged:{ptype}')
        # an explicit tolerance of zero (or far below the offset) is a tolerance, not "use the default": the position
        # 0.005 A off the site is then not an atom (refused; for an interstitial a free site)
        for aname, a in (('zero', 0.0), ('tiny', 1e-9 * DOC_ATOL)):
            tz = f'units-{phase}:{aname}-atol-0.005A-{form}'
            sin = dict(pos=pos_arg(R, p_in, scale, 'array', None))
            if ptype == 'i':
                R.accept(dict(type='i', site=None, pos=p_in, kw={}), tz, sin, scale=scale, atol_arg=a,
                         relmax=relmax_of(R, p_in), posform=True)
            else:
                R.refuse(ptype, tz, sin, op=op, scale=scale, db_arg=dbarg(scale), atol_arg=a, posform=True)
            rec.count(f'units:{aname}-atol-judged')
        if got.get('default') is not None and got.get('explicit') is not None:
            same_result(rec, got['default'], got['explicit'], ptype, f'units-{phase}:{form}', 0.0, clause=C_UNITS,
                        key=f'{ptype}:units-{phase}:default-atol-differs-from-explicit-0.01A')
            rec.count('units:default-vs-explicit-compared')
        judged += 1
    return judged


def compare_stages(rec, R0, R1, ptype, tol):
    """Same system description, same requests, other working units (and other call history): same outcome."""
    for tag, out0 in R0.outcomes.items():
        if tag not in R1.outcomes:
            continue
        rec.check(out0 == R1.outcomes[tag], C_UNITS, f'{ptype}:units:outcome-differs-between-configurations',
                  request=tag, first=out0, later=R1.outcomes[tag])
        if tag in R0.results and tag in R1.results:
            same_result(rec, R1.results[tag], R0.results[tag], ptype, tag, tol, clause=C_UNITS,
                        key=f'{ptype}:units:result-differs-between-configurations')
            rec.count('units:results-compared-across-configurations')


def stage_list(i):
    a, b = UNIT_CONFIGS[i % 5], UNIT_CONFIGS[(i // 5) % 5]
    stages = [a, b]
    if (i // 25) % 2 == 1:
        stages.append(a)
    return stages


def run_units_case(ctx, am, i):
    import atomman.unitconvert as uc
    rec, rng = ctx.rec, ctx.rng
    stages = stage_list(i)
    ptype = PTYPES[i % 4]
    entry = ['direct', 'dispatch'][(i // 4) % 2]
    syskind = UNIT_SYSKINDS[(i // 2) % len(UNIT_SYSKINDS)]
    kind, oc, _ = cells.stratified(i)
    pbc = cells.PBCS[(i // 4) % 8]
    propclass = GEN.PROPCLASSES[(i // 3) % len(GEN.PROPCLASSES)]
    kwclass = GEN.KWCLASSES[(i // 2) % 3]
    atolclass = GEN.ATOLCLASSES[(i // 7) % 3]
    ntypes = 1 + (i // 7) % 3
    cell = GEN.prepare_cell(rng, syskind, kind, oc, 1.0)
    spec = GEN.gen_system(rng, syskind, cell, pbc, ntypes, propclass, atolclass, nmax=12)          # lengths in angstrom
    sub = int(rng.integers(0, 2 ** 62))
    seeds = [int(x) for x in rng.integers(1, 2 ** 31 - 1, len(stages))]
    runners = []
    prev = None          # (System built in the previous stage, its factor)
    judged = 0
    op = dict(type=ptype)
    try:
        for st, cfg in enumerate(stages):
            if not enter_units(rec, uc, cfg, seeds[st]):
                break
            f = U.factor
            phase = 'first' if st == 0 else 'after-switch'
            rec.count(f'units:stage:{cfg}')
            if st > 0:
                rec.count(f'units:switch:{stages[st - 1]}->{cfg}')
                if stages[st - 1] != cfg:
                    rec.count('units:switches')
            system = None
            with ctx.guard('System can be built from the generated description', 'harness:build'):
                system = build_system(am, spec)
            if system is None:
                break
            # (1) the standard single-case workload, same requests at every stage
            srng = np.random.default_rng(sub)
            R = Runner(ctx, am, system, spec['atol'], spec['atol_arg'], entry, spec['L'], spell_defaults=(i // 9) % 2 == 1)
            if ptype == 'i':
                op, nj = run_interstitial_case(ctx, R, srng, spec, syskind, kwclass, i)
            else:
                op, nj = run_site_case(ctx, R, srng, ptype, spec, syskind, kwclass, i)
            judged += nj
            # (2) the documented default tolerance, before and after the switch
            nprobe = tolerance_probes(R, np.random.default_rng(sub + 1), ptype, phase)
            judged += nprobe
            R.check_input('units:stage-end')
            if runners:
                compare_stages(rec, runners[0], R, ptype, 1e-9 * (3 * spec['L'] + np.abs(spec['origin']).max()))
            runners.append(R)
            # (3) the System object of the previous stage read under the units now in force (the same cell, rescaled)
            if prev is not None:
                ratio = prev[1] / f
                if spec['dmin'] * ratio >= 0.3 and spec['L'] * ratio <= 1e5 and np.isfinite(spec['dmin']):
                    R2 = Runner(ctx, am, prev[0], DOC_ATOL, None, entry, spec['L'] * ratio)
                    nc = tolerance_probes(R2, np.random.default_rng(sub + 2), ptype, 'carried')
                    R2.check_input('units:carried')
                    if nc:
                        rec.count('units:carried-system-judged', nc)
                else:
                    rec.count('exempt:carried-system-out-of-range')
            prev = (system, f)
    finally:
        leave_units(uc)
    b0 = runners[0].before if runners else None
    rec.case(('units', ptype, entry, syskind, kind, oc, tuple(stages), propclass, kwclass),
             nontrivial=spec['n'] >= 2 and judged > 0 and len(runners) == len(stages),
             fp=fingerprint(spec['vects'], spec['pos'], spec['atype'], ptype, stages, op.get('site')))
    rec.count(f'class:units:type:{ptype}:{entry}')
    if len(runners) == len(stages):
        rec.count('units:cases-completed')
    if i < 25 and b0 is not None:
        rec.sample(dict(stages=stages, ptype=ptype, entry=entry, system=syskind, natoms=spec['n'], cell=kind, origin=oc,
                        pbc=pbc, atol=spec['atol_arg'], judged=judged, random_seeds=seeds))


WARMUP = dict(vects=4.0 * np.eye(3), origin=np.zeros(3), pos=np.array([[0.0, 0.0, 0.0], [2.0, 2.0, 2.0]]),
              atype=np.array([1, 1]), props=OrderedDict(), pbc=(True, True, True), symbols=(), masses=None)


def run_units_history(ctx, am, i):
    """Chained insertions wholly under one configuration, after a default-tolerance call under another one."""
    import atomman.unitconvert as uc
    rec = ctx.rec
    cfg, before = UNIT_CONFIGS[i % 5], UNIT_CONFIGS[(i // 5) % 5]
    seeds = [int(x) for x in ctx.rng.integers(1, 2 ** 31 - 1, 2)]
    u = GEN.unit_vector(ctx.rng)
    try:
        if enter_units(rec, uc, before, seeds[0]):
            R = Runner(ctx, am, build_system(am, WARMUP), DOC_ATOL, None, 'direct', 4.0)
            R.accept(dict(type='v', site=1, kw={}), 'units-history-warmup',
                     dict(pos=container(WARMUP['pos'][1] + 0.5 * DOC_ATOL * u, 'array', length=True)), atol_arg=None, posform=True)
            if enter_units(rec, uc, cfg, seeds[1]):
                rec.count(f'units-history:{cfg}')
                run_history(ctx, am, i, label='units-history')
    finally:
        leave_units(uc)


# ---------------------------------------------------------------- entry
def reach_counters(rec):
    pm = sys.modules['atomman.defect.point']
    try:
        src = open(pm.__file__).read().splitlines()
    except OSError:
        return
    anchors = {
        'reach:negative-index-normalisation': 'ptd_id += system.natoms',
        'reach:refusal-not-unique': "raise ValueError('Unique atom at pos not identified')",
        'reach:refusal-occupied': "raise ValueError('atom already at pos')",
        'reach:refusal-same-type': "raise ValueError('identified atom is already of the specified atype')",
        'reach:refusal-both': "raise ValueError('pos and ptd_id cannot both be supplied')",
        'reach:refusal-invalid-index': "raise ValueError('invalid ptd_id')",
        'reach:old_id-created': 'd_system.atoms.old_id = index',
    }
    hit = set(cover.lines('atomman/defect/point.py'))
    for name, text in anchors.items():
        lines = [ln + 1 for ln, s in enumerate(src) if text in s]
        for nth, ln in enumerate(lines):          # one counter per occurrence (vacancy, [interstitial,] substitutional, dumbbell)
            rec.count(f'{name}#{nth}', 1 if ln in hit else 0)


def run(ctx):
    import atomman as am
    import atomman.defect  # noqa: F401
    rec = ctx.rec
    cover.start(['atomman/defect/point.py'])
    install_monitors(rec, am)

    try:
        n_single = ctx.pick(1008, 10080)
        for i in ctx.cases('single', n_single):
            rng = ctx.rng
            ptype = PTYPES[i % 4]
            entry = ['direct', 'dispatch'][(i // 4) % 2]
            syskind = GEN.SYSKINDS[i % 7]
            kind, oc, scale = cells.stratified(i)
            pbc = cells.PBCS[(i // 4) % 8]
            propclass = GEN.PROPCLASSES[(i // 3) % len(GEN.PROPCLASSES)]
            kwclass = GEN.KWCLASSES[(i // 2) % 3]
            atolclass = GEN.ATOLCLASSES[(i // 5) % 3]
            ntypes = 1 + (i // 7) % 3
            cell = GEN.prepare_cell(rng, syskind, kind, oc, scale)
            spec = GEN.gen_system(rng, syskind, cell, pbc, ntypes, propclass, atolclass, nmax=ctx.pick(24, 60))
            system = None
            with ctx.guard('System can be built from the generated description', 'harness:build'):
                system = build_system(am, spec)
            if system is None:
                continue
            R = Runner(ctx, am, system, spec['atol'], spec['atol_arg'], entry, spec['L'], spell_defaults=(i // 9) % 2 == 1)
            rec.count('class:defaults-spelled-out' if R.spell_defaults else 'class:defaults-omitted')
            if ptype == 'i':
                op, nj = run_interstitial_case(ctx, R, rng, spec, syskind, kwclass, i)
            else:
                op, nj = run_site_case(ctx, R, rng, ptype, spec, syskind, kwclass, i)
            R.check_input('case-end')
            sig = (ptype, entry, syskind, kind, oc, scale, sum(pbc), propclass, kwclass)
            rec.case(sig, nontrivial=spec['n'] >= 2 and nj > 0,
                     fp=fingerprint(R.before.vects, R.before.pos, R.before.props['atype'], ptype,
                                    op.get('site'), sorted((op.get('kw') or {}).keys())))
            rec.count(f'class:sys:{syskind}')
            rec.count(f'class:type:{ptype}:{entry}')
            rec.count(f'class:atol:{"default" if spec["atol_arg"] is None else "explicit"}')
            if np.abs(R.before.origin).max() > 0 and not cell['lammps']:
                rec.count('class:rotated-cell-origin-nonzero')
            if i < 28:
                rec.sample(dict(ptype=ptype, entry=entry, system=syskind, natoms=spec['n'], cell=kind, origin=oc, scale=scale,
                                pbc=pbc, props=list(R.before.props), atol=spec['atol_arg'], site=op.get('site'),
                                kw=sorted((op.get('kw') or {}).keys()), vects=R.before.vects))

        n_hist = ctx.pick(192, 1920)
        for i in ctx.cases('history', n_hist):
            run_history(ctx, am, i)

        for i in ctx.cases('units', ctx.pick(200, 1500)):
            run_units_case(ctx, am, i)
        for i in ctx.cases('units-history', ctx.pick(50, 400)):
            run_units_history(ctx, am, i)
    finally:
        import atomman.unitconvert as uc
        leave_units(uc)          # the package default, whatever happened above

    for k, v_ in monitor.calls.items():
        if isinstance(v_, int):
            rec.count('monitor_calls:' + k, v_)
    reach_counters(rec)

    for nm in NAME.values():
        rec.floor('monitor_calls:' + nm, 200)
        rec.floor(f'monitor:{nm}:returned', 100)
        rec.floor(f'monitor:{nm}:raised', 50)
    rec.floor('monitor_calls:point', 200)
    rec.floor('clause:' + C_SEL, 500)
    rec.floor('clause:' + C_REFUSE, 500)
    rec.floor('clause:' + C_COMPOSE, 100)
    rec.floor('history:composed', 100)
    rec.floor('class:selected-through-periodic-image', 100)
    rec.floor('class:interstitial-at-image-position', 30)
    rec.floor('class:integer-valued-pos', 30)
    rec.floor('class:dumbbell-relative-vector-origin-nonzero', 30)
    rec.floor('class:ambiguous-close-pair', 20)
    rec.floor('class:ambiguous-large-atol', 100)
    rec.floor('class:absent-site', 200)
    rec.floor('class:occupied-site', 100)
    rec.floor('class:atol:default', 30)
    rec.floor('accept:v:negindex', 30)
    rec.floor('accept:s:negindex', 30)
    rec.floor('accept:db:negindex', 30)
    rec.floor('refuse:s:same-type', 30)
    # working units
    rec.floor('clause:' + C_UNITS, 3000)
    rec.floor('units:cases-completed', 150)
    rec.floor('units:switches', 150)
    for a in UNIT_CONFIGS:
        rec.floor(f'units:stage:{a}', 60)
        rec.floor(f'units-history:{a}', 8)
        for b in UNIT_CONFIGS:
            rec.floor(f'units:switch:{a}->{b}', 6)
    for ph, low in (('first', 200), ('after-switch', 300), ('carried', 100)):
        rec.floor(f'units:{ph}:default-atol-judged', low)
        rec.floor(f'units:{ph}:explicit-atol-judged', low)
    for a in UNIT_CONFIGS:
        rec.floor(f'units:after-switch:default-atol-judged:{a}', 60)
        rec.floor(f'units:first:default-atol-judged:{a}', 40)
    for pt in PTYPES:
        rec.floor(f'units:after-switch:default-atol-judged:{pt}', 100)
    rec.floor('units:default-vs-explicit-compared', 800)
    rec.floor('units:zero-atol-judged', 800)
    rec.floor('units:tiny-atol-judged', 800)
    rec.floor('units:large-explicit-atol-before-default', 800)
    rec.floor('units:results-compared-across-configurations', 1500)
    rec.floor('units:carried-system-judged', 100)
    rec.floor('units-history:composed', 30)
    for pt in PTYPES:
        for en in ('direct', 'dispatch'):
            rec.floor(f'class:units:type:{pt}:{en}', 15)
    for name, nocc in (('reach:negative-index-normalisation', 3), ('reach:refusal-not-unique', 3), ('reach:refusal-occupied', 1),
                       ('reach:refusal-same-type', 1), ('reach:refusal-both', 3), ('reach:refusal-invalid-index', 3),
                       ('reach:old_id-created', 4)):
        for nth in range(nocc):
            rec.floor(f'{name}#{nth}', 1)
