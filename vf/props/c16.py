"""C16 - Miller conversions are lossless; the plane normal is the reciprocal-lattice
vector; centring conversions are mutually inverse; reduce / fromstring; family
identification."""
from __future__ import annotations

import inspect

import numpy as np

from ..core import fingerprint
from ..gen import cells
from ..gen import c16_indices as GI
from ..gen import c16_strings as GS
from ..gen import c16_present as GP
from ..gen import c16_history as GH
from ..oracle import geometry as G
from ..oracle import c16_miller as M
from .. import monitor, cover

# monitors are self-sufficient (judge a call from its arguments and result): the repository's own tests run under them
# as an extra workload in the thorough tier (vf/repotests.py)
REPOTESTS = True

RULE = ('Integer index triples are ENUMERATED EXHAUSTIVELY in [-4,4]^3 minus 0 (728; thorough [-6,6]^3, 2196) and '
        'presented as (3,), (N,3) and (M,N,3) arrays (int arrays, float arrays, nested lists) to every function; '
        'cells round-robin over 12 kinds (7 families, strongly tilted, rotated triclinic, rotated hexagonal) x 3 '
        'origin classes x 8 length scales 1e-10..1e4 (every kind at every scale; each case repeats its cell shape at two further '
        'scales); centring cases over the 8 settings x 3 shapes; reduce cases over 4 leading '
        'shapes x 3/4 terms x multiplied/plain; index strings over 34 classes (4 bracket styles x 4 fraction classes x '
        '3/4 terms + legacy bare form); family cases over the 7 family constructors x 3 scales with generic '
        'parameters. PRESENTATION cases round-robin over 18 element types / containers (int8..int64, uint8..uint64 with the '
        'non-negative rows, float16/32/64, list, tuple, nested tuples, list of row arrays, lists of numpy int8/int16 scalars, '
        'the array all_indices returns) x 3 magnitudes (the enumerated bound; |index| <= 11, on the thorough tier the whole '
        '[-11,11]^3 cube for the plane normal; up to the largest value of the element type, capped at 2000 for the plane '
        'normal and 2e9 otherwise) and inside a case run all 12 index-taking entry points x 5 leading shapes ((3,), (1,3), '
        '(N,3), (M,N,3), (1,1,3)) with the memory layout rotating over C / Fortran / strided (first, last axis) / negative '
        'strides / index axis slowest / read-only / byte-swapped; each result is compared with the int64 C-contiguous call '
        'and with the oracle. ORIENTED cases: every crystal family (cubic included) x 6 orientation classes off the Cartesian '
        'axes (generic rotation, 45 deg about z, 120 deg about the body diagonal, signed axis permutation, small angle, rotation '
        'about x) x 3 length scales, the whole enumerated set through plane normal and direction (oracle, zone law between the '
        'two returned arrays, covariance with the axis-aligned cell, four-index forms for hexagonal). HISTORY cases: 18 entry '
        'points (fromstring, the four 3<->4 conversions, both centring maps, reduce 3/4, direction and plane normal as function '
        'and as Box method with 3 and 4 indices, all_indices, family identification on Box and in tools.crystalsystem) x rounds; '
        'inside a case 3 leading shapes x argument presentations (fresh float64 / int64 / int32 arrays, nested lists) run one '
        'history each: call, use the result in place (7 kinds: *= 2, negate, zero, fill nan/min, normalise, += 1, double + '
        'read-only), call again with an equal / the same argument object, interleave look-alike arguments (other values of the '
        'same shape, other element type, other shape, the same buffer read with the other row width; other Box with the same '
        'lattice parameters in another orientation, scaled, other cell; other centring setting; strings with regrouped digits, '
        'other fraction / bracket / spacing / sign / number of terms; other maxindex / reduce flag; cells of other families sharing '
        'the edge lengths), reuse the argument object for the opposite indices, re-set the same Box object and set it back, build '
        'short-lived Box objects one after the other. A case is non-trivial when it evaluates the full enumerated set (cells/index/centring/reduce) '
        'or a string/cell whose random numbers are drawn inside the class; distinct = distinct fingerprint of the '
        'concrete inputs.')
ASSUMPTIONS = ['cells are right-handed with volume >= 10% of a*b*c (condition number < ~1e2)',
               'plane indices are integers (the documented requirement of plane_crystal_to_cartesian); the zero triple is excluded',
               'family identification uses the default tolerances (rtol=1e-5, atol=1e-8) on cells whose lengths are >= 2.5e-4, '
               'i.e. far above atol; parameters are generic (lengths differ by >= 15 %, angles by >= 3 deg from each other and from 90/120)',
               "the trigonal settings supported by the code are 't1' (obverse) and 't2' (reverse); a bare 't' is refused and counted",
               'index strings follow the documented grammar: no leading blank, space-delimited integers',
               'presentations hold every index exactly: signed types over their symmetric range [-max, max] (the most negative value only in '
               'the dedicated reduce_indices clause), unsigned types non-negative rows, float types integers below their mantissa; '
               'magnitudes are capped so that every exact result fits int64 and a double (plane normal |index| <= 2000, others <= 2e9)',
               'a narrow float element type (float16/float32) bounds the accuracy of vector3to4 (division by 3) by its own round-off; '
               'reduce_indices refuses float element types (documented: "An array of ints"), counted as refusals',
               'histories: between two calls the caller may do anything to arrays it was handed (results) or owns (arguments), and may '
               're-set a Box through its documented setters (Box.set, Box.vects); every call is then judged on the values its arguments hold '
               'at the time of the call. A returned array that is read-only is not counted as a violation (it cannot be used in place)',
               'one Box object given the lattice parameters of another family through Box.set(a=..,b=..,c=..,alpha=..,beta=..,gamma=..) '
               '(the call every family constructor makes) is a cell built as that family',
               'turned cells (vects @ R.T, R a proper rotation) are in the quantifier of the conversion clauses (right-handed cells of every '
               'family); for the family-identification clause they are only used as reach evidence (the predicate is counted, not judged)',
               'the centring matrices used as reference by the histories are measured once at start-up and verified from the definition of '
               'the centred lattice (rows are lattice translations, det = 1 / lattice points per cell, C = inverse of P)',
               'oracle shares numpy/LAPACK with the code under test']

# thorough: 16 shards x 3 seeds; ~35 CPU-min in total, so a generous per-worker watchdog for a loaded machine
CONFIG = {'thorough': {'timeout': 7200}}

MILLER_PY = 'atomman/tools/miller.py'
CELL_KINDS = ['cubic', 'tetragonal', 'orthorhombic', 'hexagonal', 'rhombohedral', 'monoclinic', 'triclinic', 'tilted',
              'rotated', 'hexagonal-rotated', 'triclinic', 'tilted']
# every crystal family also turned off the Cartesian axes (a family-specific shortcut must hold in every orientation)
ROTATED_KINDS = [f + '-rotated' for f in cells.FAMILIES]
CELL_KINDS_ALL = CELL_KINDS[:10] + [k for k in ROTATED_KINDS if k != 'hexagonal-rotated']
ORIENT_SCALES = (1.0, 1e2, 1e-2)        # far above the absolute tolerance of the family predicates: the cell IS of its family
FAMILY_OF_PRED = ['cubic', 'hexagonal', 'tetragonal', 'rhombohedral', 'orthorhombic', 'monoclinic', 'triclinic']
# cell length scales: the plane normal and the direction are scale-free statements (no absolute threshold is stated),
# so the whole range from a cell written in metres (1e-10) to one in 1e-4 angstrom units (1e4) is in the quantifier
LENGTH_SCALES = (1.0, 1e-10, 1e4, 1e-8, 1e2, 1e-6, 1e-2, 1e-4)
# every case repeats its cell shape at two further scales (pairs rotate; the two ends of the range in every pair of cases)
SWEEP_SCALES = ((1e-10, 1e4), (1e-8, 1e2), (1e-10, 1e-6), (1e4, 1e-4))
KNOWN_MN = 'reduce_indices:leading-shape-MN'      # mechanism key of the (M,N,3) defect of reduce_indices

TRUTH = {}      # id(box) -> ground-truth vects the harness built it from


# ----------------------------------------------------------------------------- monitors
def _arg(args, kwargs, pos, name):
    return args[pos] if len(args) > pos else kwargs[name]


def _first_bad_pattern(hkl, bad):
    rows = np.asarray(hkl).reshape(-1, 3)[np.asarray(bad).reshape(-1)]
    return M.zero_pattern(rows[0]), rows[:3]


def judge_normals(rec, got, idx, v, where):
    """got: (...,3) normals returned for idx ((...,3) or (...,4) integer indices) in the cell v."""
    x = np.asarray(idx, float)
    hkl = M.plane4to3(x) if x.shape[-1] == 4 else x
    n_exp, d_exp = M.plane_normal(hkl, v)
    got = np.asarray(got)
    cl = 'plane normal is the unit vector along h a* + k b* + l c*'
    if got.shape != n_exp.shape:
        rec.check(False, cl, f'plane:shape:{where}', got_shape=got.shape, exp_shape=n_exp.shape)
        return
    L = np.linalg.norm(v, axis=1).max()
    err = np.abs(got - n_exp).max(axis=-1)
    bad = ~(err <= 1e-9)
    if bad.any():
        pat, rows = _first_bad_pattern(hkl, bad)
        rec.check(False, cl, f'plane:normal:{pat}', indices=rows, vects=v, got=got.reshape(-1, 3)[bad.reshape(-1)][:3],
                  expected=n_exp.reshape(-1, 3)[bad.reshape(-1)][:3], where=where)
    else:
        rec.check(True, cl)
    # intercept form, no linear solve: n.a1 : n.a2 : n.a3 (: n.a3') = h : k : l (: i) with a common positive factor
    p = got @ np.asarray(v, float).T
    hh = (hkl * hkl).sum(axis=-1)
    d = (p * hkl).sum(axis=-1) / hh
    resid = np.abs(p - d[..., None] * hkl).max(axis=-1)
    unit = np.abs(np.linalg.norm(got, axis=-1) - 1.0)
    ok = (resid <= 1e-9 * L * (1 + np.abs(hkl).max())) & (d > 0) & (unit <= 1e-12)
    cl2 = 'plane (hkl) cuts the axes at a/h, b/k, c/l: n.a_i = h_i d with d > 0 and |n| = 1'
    if not ok.all():
        pat, rows = _first_bad_pattern(hkl, ~ok)
        rec.check(False, cl2, f'plane:intercepts:{pat}', indices=rows, vects=v, where=where)
    else:
        rec.check(True, cl2)
    if x.shape[-1] == 4:
        a3 = -(v[0] + v[1])
        r4 = np.abs(got @ a3 - d * x[..., 2])
        rec.check((r4 <= 1e-9 * L * (1 + np.abs(x).max())).all(),
                  'plane (hkil) also cuts the redundant axis -(a1+a2) at 1/i', 'plane:hkil:third-axis', vects=v, where=where)
    rec.count('monitor:plane-normals-judged', int(np.prod(hkl.shape[:-1], dtype=int)))


def judge_vectors(rec, got, idx, v, where):
    x = np.asarray(idx, float)
    exp = M.cart_uvtw(x, v) if x.shape[-1] == 4 else M.cart_uvw(x, v)
    L = np.linalg.norm(v, axis=1).max()
    k = 'uvtw' if x.shape[-1] == 4 else 'uvw'
    dt = np.asarray(idx).dtype            # input class of the mechanism key: narrow / unsigned integer element types
    if dt.kind == 'u':
        k += ':unsigned'
    elif dt.kind == 'i' and dt.itemsize < 8:
        k += ':signed-narrow'
    rec.close(1e-10 * L * (1 + np.abs(x).max()), got, exp,
              '[uvw] is u a + v b + w c ([uvtw] the sum over the four hexagonal axes), origin not added',
              f'vector:cartesian:{k}', indices=x.reshape(-1, x.shape[-1])[:3], vects=v, where=where)
    rec.count('monitor:vectors-judged', int(np.prod(x.shape[:-1], dtype=int)))


def install_monitors(rec, miller):
    def post_plane(args, kwargs, result, exc, old):
        if exc is not None:
            return
        box = _arg(args, kwargs, 1, 'box')
        v = TRUTH.get(id(box))
        if v is None:
            v = box.vects
        judge_normals(rec, result, _arg(args, kwargs, 0, 'indices'), v, 'monitor')

    def post_vector(args, kwargs, result, exc, old):
        if exc is not None:
            return
        box = _arg(args, kwargs, 1, 'box')
        v = TRUTH.get(id(box))
        if v is None:
            v = box.vects
        judge_vectors(rec, result, _arg(args, kwargs, 0, 'indices'), v, 'monitor')

    monitor.observe_function(miller.plane_crystal_to_cartesian, post_plane, label='miller.plane_crystal_to_cartesian')
    monitor.observe_function(miller.vector_crystal_to_cartesian, post_vector, label='miller.vector_crystal_to_cartesian')


def branch_lines(func):
    """Line numbers (in the file) of the in-plane vector choice of each of the seven
    zero-pattern branches of plane_crystal_to_cartesian, in source order."""
    try:
        src, start = inspect.getsourcelines(func)
    except (OSError, TypeError):
        return []
    return [start + j for j, ln in enumerate(src) if ln.strip().startswith('a_uvw = ')]


# ----------------------------------------------------------------------------- helpers
def make_cell(rng, kind, oc, scale, orient='generic'):
    """cells.gen_cell plus '<family>-rotated': a cell of the family turned off the Cartesian axes (orientation class
    ``orient`` of vf.gen.c16_history.ORIENTATIONS); 'R' / 'vects0' keep the rotation and the axis-aligned cell."""
    if kind.endswith('-rotated'):
        fam = kind[:-len('-rotated')]
        cell = cells.gen_cell(rng, fam, oc, scale)
        R = G.random_rotation(rng) if orient == 'generic' else GH.orientation(rng, orient)
        cell['vects0'] = cell['vects']
        cell['R'] = R
        cell['vects'] = cell['vects'] @ R.T
        cell['lammps'] = False
        cell['kind'] = kind
        cell['family'] = fam
        cell['orientation'] = orient
        return cell
    return cells.gen_cell(rng, kind, oc, scale)


def run_presented(ctx, func, idx, shape, typ, clause, key, extra=()):
    """Call func on every presentation piece of idx; -> (flat results or None, n pieces)."""
    outs = []
    for piece in GI.present(idx, shape):
        arg = GI.as_type(piece, typ)
        res = None
        with ctx.guard(clause, key):
            res = func(arg, *extra)
        if res is None:
            return None
        res = np.asarray(res)
        want = np.shape(piece)[:-1]
        if res.shape[:-1] != want:
            ctx.rec.fail(clause + ' (leading shape of the result = leading shape of the input)', key + ':shape',
                         got_shape=res.shape, in_shape=np.shape(piece))
            return None
        outs.append(res.reshape(-1, res.shape[-1]))
    return np.concatenate(outs, axis=0)


def quads_from(tri):
    """(u,v,w) -> the proper four-index (u, v, -(u+v), w)."""
    t = np.asarray(tri)
    return np.stack([t[..., 0], t[..., 1], -(t[..., 0] + t[..., 1]), t[..., 2]], axis=-1)


# ----------------------------------------------------------------------------- groups
def group_cells(ctx, am, miller, TRI, m):
    rec = ctx.rec
    pats = [M.zero_pattern(t) for t in TRI]
    zone = M.zone_table(TRI, TRI)
    inzone = zone == 0
    zonef = zone.astype(float)
    zmax = float(np.abs(zone).max())
    n_in, n_off = int(inzone.sum()), int((~inzone).sum())
    Q = quads_from(TRI)
    ntri = len(TRI)
    n_cells = ctx.pick(96, 288)
    for i in ctx.cases('cells', n_cells):
        rng = ctx.rng
        kind = CELL_KINDS[i % 12]
        oc = cells.ORIGINS[(i // 12) % 3]
        scale = LENGTH_SCALES[(i // 12) % 8]
        cell = make_cell(rng, kind, oc, scale)
        v, o, L = cell['vects'], cell['origin'], np.linalg.norm(cell['vects'], axis=1).max()
        rec.case(('cell', kind, oc, scale), nontrivial=True, fp=fingerprint(v, o))
        if i < 24:
            rec.sample(dict(kind=kind, vects=v, origin=o, triples=ntri))
        box = None
        with ctx.guard('Box can be built from right-handed vectors', 'cells:build'):
            box = am.Box(vects=v, origin=o)
        if box is None:
            continue
        TRUTH[id(box)] = v
        rec.count('cellkind:' + kind)
        rec.count(f'length-scale:{scale:g}')
        n_exp, d_exp = M.plane_normal(TRI, v)
        c_exp = M.cart_uvw(TRI, v)
        normals_N = None
        # --- plane normals, all three leading shapes
        for s, shape in enumerate(GI.SHAPES):
            typ = GI.TYPES[(i + s) % 3]
            meth = (i + s) % 2 == 0
            f = (lambda a: box.plane_crystal_to_cartesian(a)) if meth else (lambda a: miller.plane_crystal_to_cartesian(a, box))
            got = run_presented(ctx, f, TRI, shape, typ, 'plane normal is computed for every non-zero integer triple',
                                f'plane:exception:{shape}')
            if got is None:
                continue
            rec.count(f'exhaustive:plane-triples[-{m},{m}]^3:{shape}', ntri)
            rec.count('entry:plane:' + ('Box-method' if meth else 'stand-alone'))
            rec.count('type:' + typ)
            err = np.abs(got - n_exp).max(axis=1)
            bad = ~(err <= 1e-9)
            key = 'plane:normal:' + (M.zero_pattern(TRI[bad][0]) if bad.any() else '')
            rec.check(not bad.any(), 'plane normal is the unit vector along h a* + k b* + l c* (direct, all triples of the bound)',
                      key, indices=TRI[bad][:3], got=got[bad][:3], expected=n_exp[bad][:3], vects=v, shape=shape, type=typ)
            if shape == 'N':
                normals_N = got
        for p in M.ZERO_PATTERNS:
            rec.count('class:zero-pattern:' + p, pats.count(p))
        # --- zone law, both directions, over planes x directions of the bound
        if normals_N is not None:
            tolz = 1e-9 * L * 3 * m
            signed = normals_N @ c_exp.T                          # n_j . r_k for every plane x direction of the bound
            work = d_exp[:, None] * zonef                         # d_hkl (hu+kv+lw), oracle spacing
            np.subtract(signed, work, out=work)
            np.abs(work, out=work)
            worst = float(work.max())
            rec.check(worst <= tolz * (1 + zmax), 'n.[uvw] = d_hkl (hu+kv+lw)', 'zone:spacing', worst=worst, vects=v)
            dots = np.abs(signed, out=signed)
            din = dots[inzone]
            rec.check((din <= tolz).all(), 'the normal is perpendicular to every lattice vector with hu+kv+lw = 0',
                      'zone:in-zone-perpendicular', worst=float(din.max()), tol=tolz, vects=v)
            # |n.r| = d_hkl |hu+kv+lw| >= d_hkl off the zone: demand at least half the (oracle) spacing
            if d_exp.min() < 1e3 * tolz:
                rec.count('zone:exempt-spacing-near-tolerance')
            else:
                np.divide(dots, d_exp[:, None], out=dots)
                dots[inzone] = 1.0
                least = float(dots.min())
                rec.check(least >= 0.5, 'the normal is perpendicular to no lattice vector with hu+kv+lw != 0',
                          'zone:off-zone-not-perpendicular', least_over_spacing=least, vects=v)
            rec.count('zone:pairs-in-zone', n_in)
            rec.count('zone:pairs-off-zone', n_off)
            del signed, work, dots
        # --- the same cell shape at every other length scale: unit normals unchanged, directions scale with the cell
        if normals_N is not None:
            for s2 in SWEEP_SCALES[(i // 12) % 4]:
                if s2 == scale:
                    continue
                r = s2 / scale
                v2, o2 = v * r, o * r
                with ctx.guard('plane normal / direction in the same cell at another length scale', f'length-scale:{s2:g}:exception'):
                    box2 = am.Box(vects=v2, origin=o2)
                    TRUTH[id(box2)] = v2
                    try:
                        got2 = np.asarray(box2.plane_crystal_to_cartesian(TRI))          # also judged by the monitor against v2
                        gotv = np.asarray(miller.vector_crystal_to_cartesian(TRI, box2))
                    finally:
                        TRUTH.pop(id(box2), None)
                    e2 = np.abs(got2 - normals_N).max(axis=1) if got2.shape == normals_N.shape else np.array([np.inf])
                    bad = ~(e2 <= 1e-10)
                    rec.check(not bad.any(), 'the unit plane normal does not depend on the length scale of the cell (1e-10 .. 1e4)',
                              f'plane:length-scale:{s2:g}', indices=TRI[bad][:3] if bad.shape == (ntri,) else None,
                              got=got2[bad][:3] if bad.shape == (ntri,) else None, at_case_scale=normals_N[bad][:3] if bad.shape == (ntri,) else None,
                              vects=v2, case_scale=scale)
                    rec.close(1e-10 * L * r * (1 + m), gotv, c_exp * r, '[uvw] scales with the cell', f'vector:length-scale:{s2:g}', vects=v2)
                    rec.count('length-scale-sweep:cells')
                    rec.count(f'length-scale-sweep:{s2:g}')
        # --- directions, all three leading shapes
        for s, shape in enumerate(GI.SHAPES):
            typ = GI.TYPES[(i + s + 1) % 3]
            meth = (i + s) % 2 == 1
            f = (lambda a: box.vector_crystal_to_cartesian(a)) if meth else (lambda a: miller.vector_crystal_to_cartesian(a, box))
            got = run_presented(ctx, f, TRI, shape, typ, 'Cartesian vector is computed for every integer triple', f'vector:exception:{shape}')
            if got is None:
                continue
            rec.count(f'exhaustive:vector-triples[-{m},{m}]^3:{shape}', ntri)
            rec.close(1e-10 * L * (1 + m), got, c_exp, '[uvw] is u a + v b + w c (direct, all triples of the bound)',
                      'vector:cartesian:uvw', vects=v, origin=o, shape=shape, type=typ)
        # --- four-index notation
        if kind.startswith('hexagonal'):
            rec.count('hexagonal-cells')
            shape = GI.SHAPES[(i // 6) % 3]
            typ = GI.TYPES[(i // 18) % 3]
            rec.count('hexagonal-4index-shape:' + shape)
            got = run_presented(ctx, lambda a: box.vector_crystal_to_cartesian(a), Q, shape, typ,
                                'four-index direction is converted in a hexagonal cell', f'vector4:exception:{shape}')
            if got is not None:
                rec.count(f'exhaustive:uvtw-quadruples:{shape}', ntri)
                rec.close(1e-10 * L * (1 + 2 * m), got, M.cart_uvtw(Q, v), '[uvtw] = u a1 + v a2 + t a3 + w c with a3 = -(a1+a2)',
                          'vector:cartesian:uvtw', vects=v)
                with ctx.guard('vector4to3 then 3-index conversion', 'vector4:via3'):
                    via3 = box.vector_crystal_to_cartesian(miller.vector4to3(Q))
                    rec.close(1e-10 * L * (1 + 2 * m), got, via3, '[uvtw] and its three-index form are the same Cartesian vector',
                              'vector:same-direction:4vs3', vects=v)
            with ctx.guard('vector3to4 then 4-index conversion', 'vector3to4:cart'):
                frac4 = miller.vector3to4(TRI)
                got4 = box.vector_crystal_to_cartesian(frac4)
                rec.close(1e-10 * L * (1 + m), got4, c_exp, '[uvw] and vector3to4([uvw]) are the same Cartesian vector',
                          'vector:same-direction:3to4', vects=v)
            gotp = run_presented(ctx, lambda a: miller.plane_crystal_to_cartesian(a, box), Q, shape, typ,
                                 'four-index plane is converted in a hexagonal cell', f'plane4:exception:{shape}')
            if gotp is not None:
                rec.count(f'exhaustive:hkil-quadruples:{shape}', ntri)
                rec.close(1e-9, gotp, n_exp, '(hkil) and (hkl) have the same normal', 'plane:same-normal:4vs3', vects=v)
                judge_normals(rec, gotp, Q, v, 'direct')
        else:
            for name, f in (('vector', box.vector_crystal_to_cartesian), ('plane', box.plane_crystal_to_cartesian)):
                g = ctx.guard(f'4-index {name} in a non-hexagonal cell (documented refusal)', f'{name}4:nonhex', accept=(ValueError,))
                with g:
                    f([1, 0, -1, 0])
                    rec.count('nonhex-4index-not-refused')
        TRUTH.pop(id(box), None)


def group_index34(ctx, miller, TRI, m):
    rec = ctx.rec
    n = ctx.pick(18, 54)
    for i in ctx.cases('index34', n):
        rng = ctx.rng
        shape = GI.SHAPES[i % 3]
        typ = GI.TYPES[(i // 3) % 3]
        wide = (i // 9) % 2 == 1
        idx = TRI
        if wide:                                  # the enumerated set plus a wider random integer sample
            extra = rng.integers(-60, 61, (272, 3))
            extra = extra[np.abs(extra).sum(axis=1) != 0]
            idx = np.concatenate([TRI, extra])
        Q = quads_from(idx)
        big = 1 + np.abs(idx).max()
        rec.case(('index34', shape, typ, 'wide' if wide else 'bound'), nontrivial=True, fp=fingerprint(idx, shape, typ))
        if i < 6:
            rec.sample(dict(shape=shape, type=typ, rows=len(idx), first=idx[:3]))
        rec.count('shape:' + shape)
        rec.count(f'exhaustive:index34-triples[-{m},{m}]^3:{shape}', len(TRI))
        # planes
        p4 = run_presented(ctx, miller.plane3to4, idx, shape, typ, 'plane3to4 accepts (...,3) array-likes', 'plane3to4:exception')
        if p4 is not None:
            rec.close(0.0, p4, M.plane3to4(idx), '(hkl) -> (hkil) with i = -(h+k)', 'plane3to4:formula')
            back = run_presented(ctx, miller.plane4to3, p4, shape, 'float-array', 'plane4to3 accepts what plane3to4 returns', 'plane4to3:exception:roundtrip')
            if back is not None:
                rec.close(0.0, back, idx, 'plane 3->4->3 is the identity', 'plane:roundtrip:3-4-3')
        p3 = run_presented(ctx, miller.plane4to3, Q, shape, typ, 'plane4to3 accepts (...,4) array-likes with h+k+i=0', 'plane4to3:exception')
        if p3 is not None:
            rec.close(0.0, p3, M.plane4to3(Q), '(hkil) -> (hkl) keeps h, k, l', 'plane4to3:formula')
            back = run_presented(ctx, miller.plane3to4, p3, shape, 'float-array', 'plane3to4 accepts what plane4to3 returns', 'plane3to4:exception:roundtrip')
            if back is not None:
                rec.close(0.0, back, Q, 'plane 4->3->4 is the identity', 'plane:roundtrip:4-3-4')
        # vectors
        v4 = run_presented(ctx, miller.vector3to4, idx, shape, typ, 'vector3to4 accepts (...,3) array-likes', 'vector3to4:exception')
        if v4 is not None:
            rec.close(1e-14 * big, v4, M.vector3to4(idx), '[UVW] -> [uvtw]: the unique u+v+t=0 representation of U a1 + V a2 + W c',
                      'vector3to4:formula')
            rec.close(1e-14 * big, v4[:, :3].sum(axis=1), np.zeros(len(v4)), 'vector3to4 result satisfies u+v+t = 0', 'vector3to4:sum-rule')
            back = run_presented(ctx, miller.vector4to3, v4, shape, 'float-array', 'vector4to3 accepts what vector3to4 returns',
                                 'vector4to3:exception:roundtrip')
            if back is not None:
                rec.close(1e-13 * big, back, idx, 'vector 3->4->3 is the identity', 'vector:roundtrip:3-4-3')
        v3 = run_presented(ctx, miller.vector4to3, Q, shape, typ, 'vector4to3 accepts (...,4) array-likes with u+v+t=0', 'vector4to3:exception')
        if v3 is not None:
            rec.close(1e-13 * big, v3, M.vector4to3(Q), '[uvtw] -> [UVW] = [u-t, v-t, w]', 'vector4to3:formula')
            back = run_presented(ctx, miller.vector3to4, v3, shape, 'float-array', 'vector3to4 accepts what vector4to3 returns',
                                 'vector3to4:exception:roundtrip')
            if back is not None:
                rec.close(1e-13 * big, back, Q, 'vector 4->3->4 is the identity', 'vector:roundtrip:4-3-4')
        # quadruples breaking the sum rule must be refused, not silently truncated to three indices
        badQ = Q.copy()
        badQ[int(rng.integers(0, len(badQ))), 2] += int(rng.choice([-2, -1, 1, 2]))
        for name, f in (('plane4to3', miller.plane4to3), ('vector4to3', miller.vector4to3)):
            pieces = GI.present(badQ, shape)
            refused = 0
            for piece in pieces:
                try:
                    f(GI.as_type(piece, typ))
                except ValueError:
                    refused += 1
                except Exception as e:
                    rec.fail('a quadruple violating the sum rule is refused with ValueError', f'{name}:guard:other-exception', exception=e)
            rec.check(refused >= 1, 'a quadruple violating h+k+i=0 / u+v+t=0 is refused (no silent loss of the third index)',
                      f'{name}:guard')
            rec.count('sum-rule-refusals', refused)


def group_centring(ctx, miller, TRI, m):
    rec = ctx.rec
    p2c, c2p = miller.vector_primitive_to_conventional, miller.vector_conventional_to_primitive
    n = ctx.pick(48, 144)
    for i in ctx.cases('centring', n):
        setting = M.SETTINGS[i % 8]
        shape = GI.SHAPES[(i // 8) % 3]
        typ = GI.TYPES[(i // 8 + i % 8) % 3]
        npts = M.lattice_points_per_cell(setting)
        rec.case(('centring', setting, shape, typ), nontrivial=True, fp=fingerprint(setting, shape, typ, m))
        if i < 8:
            rec.sample(dict(setting=setting, shape=shape, type=typ, lattice_points_per_cell=npts))
        rec.count('setting:' + setting)
        rec.count(f'exhaustive:centring-triples[-{m},{m}]^3:{setting}', len(TRI))
        k = f'centring:{setting}'
        conv = run_presented(ctx, p2c, TRI, shape, typ, 'primitive->conventional accepts (...,3) array-likes', k + ':p2c:exception', (setting,))
        prim = run_presented(ctx, c2p, TRI, shape, typ, 'conventional->primitive accepts (...,3) array-likes', k + ':c2p:exception', (setting,))
        if conv is not None:
            back = run_presented(ctx, c2p, conv, shape, 'float-array', 'conventional->primitive accepts the other map\'s output',
                                 k + ':c2p:exception', (setting,))
            if back is not None:
                rec.close(1e-12 * (1 + m), back, TRI, 'conventional->primitive inverts primitive->conventional', k + ':inverse:p-c-p')
            rec.check(M.in_centred_lattice(conv, setting).all(),
                      'every integer primitive vector is a translation of the centred conventional lattice', k + ':p2c:lattice-member')
        if prim is not None:
            back = run_presented(ctx, p2c, prim, shape, 'float-array', 'primitive->conventional accepts the other map\'s output',
                                 k + ':p2c:exception', (setting,))
            if back is not None:
                rec.close(1e-12 * (1 + m), back, TRI, 'primitive->conventional inverts conventional->primitive', k + ':inverse:c-p-c')
            rec.close(1e-12 * (1 + 3 * m), prim, np.round(prim), 'every integer conventional vector has integer primitive indices',
                      k + ':c2p:integer')
        P = C = None
        with ctx.guard('conversion of the unit vectors', k + ':matrix:exception'):
            P = np.asarray(p2c(np.eye(3), setting), float)
            C = np.asarray(c2p(np.eye(3), setting), float)
        if P is None or C is None:
            continue
        if conv is not None:
            rec.close(1e-12 * (1 + m), conv, TRI @ P, 'primitive->conventional is linear', k + ':p2c:linear')
        if prim is not None:
            rec.close(1e-12 * (1 + 3 * m), prim, TRI @ C, 'conventional->primitive is linear', k + ':c2p:linear')
        rec.close(1e-12, P @ C, np.eye(3), 'the two conversion matrices are mutually inverse', k + ':inverse:matrices')
        rec.close(1e-12, np.linalg.det(P), 1.0 / npts, 'det(primitive->conventional) = 1 / (lattice points per conventional cell)', k + ':det:p2c')
        rec.close(1e-9, np.linalg.det(C), float(npts), 'det(conventional->primitive) = lattice points per conventional cell (an integer)', k + ':det:c2p')
        tr = M.centring_translations(setting)
        if len(tr):
            with ctx.guard('conversion of the centring translations', k + ':c2p:exception'):
                img = np.asarray(c2p(tr, setting), float)
                rec.close(1e-12, img, np.round(img), 'each centring translation has integer primitive indices', k + ':c2p:centring-integer')
        rec.count('monitor:centring-settings-judged')
        if i % 8 == 0:
            for f, nm in ((p2c, 'p2c'), (c2p, 'c2p')):
                with ctx.guard("bare 't' setting (refused by the code: t1/t2 are the supported names)", f'centring:t:{nm}', accept=(ValueError,)):
                    f([1, 0, 0], 't')
                    rec.count('setting:t-accepted')


def group_reduce(ctx, miller, TRI, m):
    rec = ctx.rec
    n = ctx.pick(32, 96)
    for i in ctx.cases('reduce', n):
        rng = ctx.rng
        shape = GI.SHAPES_SQ[i % 4]
        nterms = 3 + (i // 4) % 2
        typ = ('int-array', 'list')[(i // 8) % 2]
        mult = (i // 16) % 2 == 1
        idx = TRI if nterms == 3 else quads_from(TRI)
        if mult:
            idx = idx * rng.integers(1, 10, (len(idx), 1))
        rec.case(('reduce', shape, nterms, typ, 'multiplied' if mult else 'plain'), nontrivial=True, fp=fingerprint(idx, shape, typ))
        if i < 8:
            rec.sample(dict(shape=shape, terms=nterms, type=typ, rows=len(idx), first=idx[:3]))
        rec.count('reduce-shape:' + shape)
        rec.count(f'exhaustive:reduce-rows[-{m},{m}]^3:{shape}', len(idx))
        exp = M.reduce_rows(idx)
        key = KNOWN_MN if shape in ('MN', 'MM') else f'reduce:{shape}:{nterms}'
        got = run_presented(ctx, miller.reduce_indices, idx, shape, typ,
                            'reduce_indices accepts (...,3)/(...,4) integer arrays of any leading shape', key)
        if got is None:
            continue
        rec.count('monitor:reduce-judged:' + shape)
        rec.close(0.0, got, exp, 'reduce_indices returns the coprime indices of the same direction', key,
                  first_bad=idx[np.any(got != exp, axis=1)][:3], got_rows=got[np.any(got != exp, axis=1)][:3])
        gi = np.asarray(got)
        isint = np.all(gi == np.round(gi))
        rec.check(isint, 'reduced indices are integers', key)
        if isint:
            rec.check((M.row_gcds(gi.astype(int)) == 1).all(), 'reduced indices are coprime', key)
            g = M.row_gcds(idx)
            rec.check((gi.astype(int) * g[:, None] == idx).all(), 'input = positive integer multiple of the reduced indices (co-directed)', key)
    for i in ctx.cases('all_indices', ctx.pick(4, 6)):
        mm = 1 + i
        rec.case(('all_indices', mm), nontrivial=True, fp=fingerprint('all_indices', mm))
        with ctx.guard('all_indices', 'all_indices:exception'):
            a = np.asarray(miller.all_indices(mm))
            exp = M.all_triples(mm)
            ok = a.shape == exp.shape and set(map(tuple, a.tolist())) == set(map(tuple, exp.tolist()))
            rec.check(ok, 'all_indices(m) is every integer triple of [-m,m]^3 except 0, once', 'all_indices:plain', m=mm, got_shape=a.shape)
            r = np.asarray(miller.all_indices(mm, reduce=True))
            rexp = set(map(tuple, M.reduce_rows(exp).tolist()))
            ok = len(r) == len(rexp) and set(map(tuple, r.tolist())) == rexp
            rec.check(ok, 'all_indices(m, reduce=True) is the set of distinct coprime triples', 'all_indices:reduced', m=mm, got_shape=r.shape)


def group_strings(ctx, miller):
    rec = ctx.rec
    n = ctx.pick(680, 5440)
    for i in ctx.cases('strings', n):
        bracket, fraction, nterms = GS.stratified(i)
        s, exp, desc = GS.gen(ctx.rng, bracket, fraction, nterms)
        rec.case(('string', bracket, fraction, nterms), nontrivial=True, fp=fingerprint(s))
        if i < 40:
            rec.sample(dict(string=s, expected=[str(e) for e in exp]))
        rec.count('string-bracket:' + bracket)
        rec.count('string-fraction:' + fraction)
        rec.count(f'string-terms:{nterms}')
        key = f'fromstring:{bracket}:{fraction}'
        got = None
        with ctx.guard('fromstring parses every well-formed index string', key):
            got = miller.fromstring(s)
        if got is None:
            continue
        expf = np.array([float(e) for e in exp])
        rec.close(0.0, got, expf, 'fromstring returns the numbers shown (times the leading fraction)', key, rtol=1e-15, string=s)
        rec.count('monitor:strings-judged')
        # the caller works on the array in place (b *= 2, n /= |n|, ...) and parses the same string again
        kind = GH.SCRIBBLES[i % len(GH.SCRIBBLES)]
        if GH.scribble(got, kind) is not None:
            again = None
            with ctx.guard('fromstring parses every well-formed index string', key):
                again = miller.fromstring(s if i % 2 else GH.fresh_str(s))
            if again is not None:
                rec.close(0.0, again, expf, CL_REPEAT + ' (fromstring)', 'history:fromstring:repeat', rtol=1e-15, string=s, in_place_use=kind)
                rec.check(again is not got and not GH.shares(again, got), CL_FRESH + ' (fromstring)', 'history:fromstring:result-aliases-result', string=s)
                rec.count('strings:reparsed-after-in-place-use')


def build_family(am, fam, p):
    B = am.Box
    if fam == 'cubic':
        return B.cubic(p['a'])
    if fam == 'hexagonal':
        return B.hexagonal(p['a'], p['c'])
    if fam == 'tetragonal':
        return B.tetragonal(p['a'], p['c'])
    if fam == 'rhombohedral':
        return B.trigonal(p['a'], p['alpha'])
    if fam == 'orthorhombic':
        return B.orthorhombic(p['a'], p['b'], p['c'])
    if fam == 'monoclinic':
        return B.monoclinic(p['a'], p['b'], p['c'], p['beta'])
    if fam == 'triclinic':
        return B.triclinic(p['a'], p['b'], p['c'], p['alpha'], p['beta'], p['gamma'])
    raise ValueError(fam)


def group_families(ctx, am, cs):
    rec = ctx.rec
    n = ctx.pick(126, 1260)
    for i in ctx.cases('families', n):
        rng = ctx.rng
        fam = cells.FAMILIES[i % 7]
        scale = cells.SCALES[(i // 7) % 3]
        p = dict(cells.family_params(rng, fam))
        for kk in 'abc':
            p[kk] = float(p[kk] * scale)
        for kk in ('alpha', 'beta', 'gamma'):
            p[kk] = float(p[kk])
        rec.case(('family', fam, scale), nontrivial=True, fp=fingerprint(fam, p))
        if i < 21:
            rec.sample(dict(family=fam, params=p))
        box = None
        with ctx.guard(f'family constructor accepts generic {fam} parameters', f'family:{fam}:constructor'):
            box = build_family(am, fam, p)
        if box is None:
            continue
        rec.count('family:' + fam)
        got = [box.a, box.b, box.c, box.alpha, box.beta, box.gamma]
        want = [p[q] for q in ('a', 'b', 'c', 'alpha', 'beta', 'gamma')]
        rec.close(0.0, got, want, 'the constructor builds the cell with the lattice parameters given', f'family:{fam}:parameters',
                  rtol=1e-9)
        cl = 'a cell built by a family constructor is identified as that family'
        with ctx.guard('Box.identifyfamily', f'family:{fam}:Box.identifyfamily'):
            rec.check(box.identifyfamily() == fam, cl + ' (Box.identifyfamily)', f'family:{fam}:Box.identifyfamily', got=box.identifyfamily(), params=p)
        with ctx.guard('crystalsystem.identifyfamily', f'family:{fam}:crystalsystem.identifyfamily'):
            rec.check(cs.identifyfamily(box) == fam, cl + ' (tools.crystalsystem.identifyfamily)', f'family:{fam}:crystalsystem.identifyfamily',
                      got=cs.identifyfamily(box), params=p)
        for other in FAMILY_OF_PRED:
            with ctx.guard(f'Box.is{other}', f'family:{fam}:Box.is{other}'):
                r = bool(getattr(box, 'is' + other)())
                rec.check(r == (other == fam), 'exactly the predicate of the constructed family holds (Box.is<family>)',
                          f'family:{fam}:Box.is{other}', got=r, params=p)
            with ctx.guard(f'crystalsystem.is{other}', f'family:{fam}:crystalsystem.is{other}'):
                r = bool(getattr(cs, 'is' + other)(box))
                rec.check(r == (other == fam), 'exactly the predicate of the constructed family holds (tools.crystalsystem.is<family>)',
                          f'family:{fam}:crystalsystem.is{other}', got=r, params=p)
        rec.count('monitor:families-judged')


# ----------------------------------------------------------------------------- presentations (dtype / container / layout / magnitude)
PRESENT_FUNCS = ('plane3to4', 'plane4to3', 'vector3to4', 'vector4to3', 'p2c', 'c2p', 'reduce3', 'reduce4',
                 'vector-cart3', 'vector-cart4', 'plane-cart3', 'plane-cart4')
FOUR_INDEX = ('plane4to3', 'vector4to3', 'reduce4', 'vector-cart4', 'plane-cart4')
CL_SAME = ('the result does not depend on how the same integers are handed over (element type, container, leading shape, '
           'memory layout): it equals the result of the int64 call')
EPS = float(np.finfo(float).eps)


def _flat(outs, k):
    return np.concatenate([np.asarray(o, float).reshape(-1, k) for o in outs], axis=0)


def present_calls(ctx, f, base, ref_full, name, shape, layout, key, n_single, real_output=False, accept=()):
    """Call f on the presentation ``name``/``layout`` of the pieces of ``base`` in the leading shape asked for.
    ref_full: the rows f returned for the whole of ``base`` as one C-contiguous (N,k) int64 array.
    -> (rows int64, results, int64-call results, layout label) flattened over the pieces, or None."""
    rec = ctx.rec
    sel, gots = [], []
    lab = 'n/a'
    for piece, rows in GP.pieces(base, shape, ctx.rng, n_single):
        if real_output:
            arg, lab = piece, 'as-returned'
        else:
            arg, lab = GP.present(piece, name, layout)
        got = None
        g = ctx.guard('every presentation of an integer index array is accepted', key, accept=accept)
        with g:
            got = f(arg)
        if g.exc is not None and accept and isinstance(g.exc, tuple(accept)):
            rec.count('present:documented-refusal:' + type(g.exc).__name__)
            return None
        if got is None:
            return None
        got = np.asarray(got)
        if got.shape[:-1] != piece.shape[:-1] or got.shape[-1] != ref_full.shape[-1]:
            rec.fail(CL_SAME + ' (leading shape of the result = leading shape of the input)', key, got_shape=got.shape,
                     in_shape=piece.shape, presentation=name, layout=lab)
            return None
        sel.append(rows)
        gots.append(got)
    sel = np.concatenate(sel)
    return np.asarray(base)[sel], _flat(gots, ref_full.shape[-1]), ref_full[sel], lab


def group_present(ctx, am, miller, TRI, m):
    """Every index-taking function x element type / container x leading shape x memory layout x magnitude."""
    rec = ctx.rec
    NP = len(GP.NAMES)
    n = ctx.pick(2, 6) * 3 * NP
    n_single = ctx.pick(16, 40)
    p2c, c2p = miller.vector_primitive_to_conventional, miller.vector_conventional_to_primitive
    for i in ctx.cases('present', n):
        rng = ctx.rng
        name = GP.NAMES[i % NP]
        mag = GP.MAGS[(i // NP) % 3]
        rnd = i // (3 * NP)
        dcl = GP.dclass(name)
        scale = LENGTH_SCALES[(i + 3 * rnd) % 8]
        kind = CELL_KINDS_ALL[(i + 5 * rnd) % len(CELL_KINDS_ALL)]
        oc = cells.ORIGINS[(i + rnd) % 3]
        cell = make_cell(rng, kind, oc, scale)
        hcell = make_cell(rng, ('hexagonal', 'hexagonal-rotated')[(i + rnd) % 2], oc, scale)
        box = hbox = None
        with ctx.guard('Box can be built from right-handed vectors', 'cells:build'):
            box = am.Box(vects=cell['vects'], origin=cell['origin'])
            hbox = am.Box(vects=hcell['vects'], origin=hcell['origin'])
        if box is None or hbox is None:
            continue
        TRUTH[id(box)], TRUTH[id(hbox)] = cell['vects'], hcell['vects']
        # --- index sets
        real_out = name == 'all_indices-output'
        if real_out:
            mm = {'bound': m, 'large': ctx.pick(7, 11), 'huge': m + 2}[mag]
            base = None
            with ctx.guard('all_indices', 'all_indices:exception'):
                base = np.asarray(miller.all_indices(mm, reduce=(mag == 'huge')))
            if base is None:
                continue
            if base.ndim != 2 or base.shape[1] != 3 or len(base) == 0 or base.dtype.kind not in 'iu':
                rec.fail('all_indices returns an (N,3) integer array', 'all_indices:plain', got_shape=base.shape, dtype=str(base.dtype))
                continue
            lin3 = pl3 = red3 = base
        else:
            nl = ctx.pick(360, 1500)
            lin3 = GP.triples(rng, name, mag, 'linear', m, nl, ctx.pick(240, 600))
            pl3 = lin3
            if mag == 'huge':
                pl3 = GP.triples(rng, name, mag, 'plane', m, nl, ctx.pick(240, 600))
            elif mag == 'large' and not ctx.quick:
                pl3 = GP.triples(rng, name, mag, 'plane', m, None, 0)           # thorough: the whole [-11,11]^3 cube
            red3 = GP.triples(rng, name, mag, 'reduce', m, nl, ctx.pick(240, 600)) if mag == 'huge' else lin3
        qname = 'int64' if real_out else name
        lin4, pl4, red4 = GP.quads(qname, lin3), GP.quads(qname, pl3), GP.quads(qname, red3)
        rec.case(('present', name, mag), nontrivial=True, fp=fingerprint(name, mag, lin3, pl3, cell['vects']))
        if rnd == 0 and mag != 'bound' and i % 5 == 0:
            rec.sample(dict(presentation=name, magnitude=mag, rows_linear=len(lin3), rows_plane=len(pl3), first_plane_rows=pl3[:3],
                            largest=int(np.abs(pl3).max()), cell_scale=scale))
        rec.count('present:' + name)
        rec.count(f'present-magnitude:{name}:{mag}')
        rec.count(f'present-length-scale:{scale:g}')
        prod = np.abs(pl3.astype(float).prod(axis=1))
        rec.count('present:plane-rows-with-|hkl|>127', int((prod > 127).sum()))
        rec.count('present:plane-rows-with-|hkl|>32767', int((prod > 32767).sum()))
        rec.count('present:plane-rows-with-|hkl|>2^31', int((prod > 2.0 ** 31).sum()))
        if name in ('int8', 'uint8', 'list-of-int8-scalars'):
            rec.count('present:8-bit-plane-rows-with-|hkl|>127', int((prod > 127).sum()))
        setting = M.SETTINGS[(i + rnd) % 8]
        Lc, Lh = cell['L'], hcell['L']
        table = {
            'plane3to4': (miller.plane3to4, lin3, M.plane3to4, 0.0, 0.0),
            'plane4to3': (miller.plane4to3, lin4, M.plane4to3, 0.0, 0.0),
            'vector3to4': (miller.vector3to4, lin3, M.vector3to4, 1.0, 1e-14),
            'vector4to3': (miller.vector4to3, lin4, M.vector4to3, 0.0, 0.0),
            'p2c': (lambda a: p2c(a, setting), lin3, None, 0.0, 0.0),
            'c2p': (lambda a: c2p(a, setting), lin3, None, 0.0, 0.0),
            'reduce3': (miller.reduce_indices, red3, M.reduce_rows, 0.0, 0.0),
            'reduce4': (miller.reduce_indices, red4, M.reduce_rows, 0.0, 0.0),
            'vector-cart3': ((lambda a: box.vector_crystal_to_cartesian(a)) if i % 2 else (lambda a: miller.vector_crystal_to_cartesian(a, box)),
                             lin3, None, 0.0, 0.0),
            'vector-cart4': ((lambda a: miller.vector_crystal_to_cartesian(a, hbox)) if i % 2 else (lambda a: hbox.vector_crystal_to_cartesian(a)),
                             lin4, None, 0.0, 0.0),
            'plane-cart3': ((lambda a: miller.plane_crystal_to_cartesian(a, box)) if i % 2 else (lambda a: box.plane_crystal_to_cartesian(a)),
                            pl3, None, 0.0, 0.0),
            'plane-cart4': ((lambda a: hbox.plane_crystal_to_cartesian(a)) if i % 2 else (lambda a: miller.plane_crystal_to_cartesian(a, hbox)),
                            pl4, None, 0.0, 0.0),
        }
        epsP = GP.eps_of(name)
        for j, fname in enumerate(PRESENT_FUNCS):
            f, base, oracle, narrow_div, otol = table[fname]
            if len(base) == 0:
                rec.count('present:empty-set:' + fname)
                continue
            key = f'present:{fname}:{dcl}:{mag}'
            isred = fname.startswith('reduce')
            accept = (TypeError,) if (isred and name in GP.FLOATS) else ()      # "An array of ints": float element types are refused
            realo = real_out and fname not in FOUR_INDEX          # the array exactly as all_indices returned it (and views of it)
            pname = 'int64' if real_out else name
            ref_full = None
            with ctx.guard('the int64 call succeeds', key):
                ref_full = np.asarray(f(np.array(base, dtype=np.int64, order='C')), float)
            if ref_full is None:
                continue
            if ref_full.shape[:-1] != (len(base),):
                rec.fail(CL_SAME + ' (leading shape of the result = leading shape of the input)', key, got_shape=ref_full.shape, in_shape=base.shape)
                continue
            for s, shape in enumerate(GP.SHAPES):
                layout = GP.LAYOUTS[(i + j + s + rnd) % len(GP.LAYOUTS)]
                r = present_calls(ctx, f, base, ref_full, pname, shape, layout, key, n_single, real_output=realo, accept=accept)
                if r is None:
                    continue
                rows, got, ref, lab = r
                big = 1.0 + float(np.abs(rows).max())
                # bound on |got - ref|: a few double round-offs of a result of size ~3*big (times the cell for Cartesian
                # results); for a narrow float element type the division by 3 of vector3to4 is done in that type
                if fname.startswith('plane-cart'):
                    tol = 1e-12
                elif fname.startswith('vector-cart'):
                    tol = 16 * EPS * big * (Lh if fname.endswith('4') else Lc)
                elif fname in ('p2c', 'c2p', 'vector3to4'):
                    tol = 16 * EPS * big + 4 * narrow_div * epsP * big
                else:
                    tol = 0.0
                err = np.abs(got - ref).max(axis=1)
                bad = ~(err <= tol)
                rec.check(not bad.any(), CL_SAME, key, function=fname, presentation=name, layout=lab, shape=shape, magnitude=mag,
                          indices=rows[bad][:3], got=got[bad][:3], int64_call=ref[bad][:3], tol=tol,
                          setting=setting if fname in ('p2c', 'c2p') else None)
                if oracle is not None:
                    exp = np.asarray(oracle(rows), float).reshape(got.shape)
                    e2 = np.abs(got - exp).max(axis=1)
                    b2 = ~(e2 <= otol * big + 4 * narrow_div * epsP * big)
                    rec.check(not b2.any(), ('reduce_indices' if isred else fname) + ': the value the notation defines, for every presentation of the indices',
                              key, function=fname, presentation=name, layout=lab, shape=shape, magnitude=mag, indices=rows[b2][:3],
                              got=got[b2][:3], expected=exp[b2][:3])
                rec.count(f'present:{fname}:{name}')
                rec.count('present-layout:' + lab)
                rec.count(f'present-layout:{fname}:{lab}')
                rec.count('present-shape:' + shape)
                rec.count('present:rows-compared', len(rows))
                if fname == 'plane-cart3':
                    rec.count(f'present:plane-cart3:{dcl}:{lab}')
                    if mag == 'large' and shape in ('N', 'MN'):
                        rec.count('present:plane-normal-large-rows', len(rows))
                        if not ctx.quick and not real_out:
                            rec.count(f'exhaustive:present-plane-normal[-11,11]^3:{name}:{shape}', len(rows))
            # centring: the two maps stay mutually inverse whatever the presentation
            if fname == 'p2c':
                with ctx.guard('centring round trip on a presented array', key):
                    arg, lab = (lin3, 'as-returned') if real_out else GP.present(lin3, name, GP.LAYOUTS[(i + rnd) % len(GP.LAYOUTS)])
                    back = np.asarray(c2p(p2c(arg, setting), setting), float)
                    big = 1.0 + float(np.abs(lin3).max())
                    rec.close(64 * EPS * big, back, lin3, 'conventional->primitive inverts primitive->conventional for every presentation',
                              key, setting=setting, presentation=name, layout=lab)
        # --- reduce at the most negative value of a signed element type (its gcd, 2**(bits-1), is not representable in that type)
        dt = GP.PRES[name][0]
        if dt is not None and np.dtype(dt).kind == 'i' and mag == 'huge':
            lo = int(np.iinfo(dt).min)
            rowsmin = np.array([[lo, 0, 0], [0, lo, lo], [lo, lo, lo], [lo, 0, lo], [lo, lo // 2, 0], [0, lo, lo // 4]], dtype=dt)
            expmin = np.array([[-1, 0, 0], [0, -1, -1], [-1, -1, -1], [-1, 0, -1], [-2, -1, 0], [0, -4, -1]])
            with ctx.guard('reduce_indices at the most negative representable index', 'reduce:dtype-minimum'):
                gotmin = np.asarray(miller.reduce_indices(rowsmin))
                rec.close(0.0, gotmin, expmin, 'reduce_indices returns the coprime indices of the same direction (rows holding the most '
                          'negative value of the element type)', 'reduce:dtype-minimum', element_type=name, rows=rowsmin)
            rec.count('present:reduce-dtype-minimum')
        # --- sum-rule guard: a quadruple whose h+k+i is a whole wrap-around of the element type is not a valid four-index set
        if dt is not None and np.dtype(dt).kind in 'iu' and np.dtype(dt).itemsize < 8 and mag == 'huge':
            wq = GP.wrapping_quads(rng, name)
            guards = (('plane4to3', miller.plane4to3), ('vector4to3', miller.vector4to3),
                      ('vector-cart4', lambda a: miller.vector_crystal_to_cartesian(a, hbox)),
                      ('plane-cart4', lambda a: miller.plane_crystal_to_cartesian(a, hbox)))
            for fname, f in guards:
                for arg in (wq.astype(dt), wq[0].astype(dt), GP.lay(wq.astype(dt), 'transposed')[0]):
                    refused = False
                    try:
                        f(arg)
                    except ValueError:
                        refused = True
                    except Exception as e:
                        rec.fail('a quadruple violating the sum rule is refused with ValueError', f'{fname}:guard:other-exception', exception=e)
                        refused = True
                    rec.check(refused, 'a quadruple violating h+k+i=0 / u+v+t=0 by a whole wrap-around of its element type is refused',
                              f'{fname}:guard:wrapping-sum:{dcl}', element_type=name, rows=np.asarray(arg).reshape(-1, 4)[:2])
                    rec.count('present:wrapping-sum-rule-refusals', int(refused))
        TRUTH.pop(id(box), None)
        TRUTH.pop(id(hbox), None)



# ----------------------------------------------------------------------------- every family in every orientation
def group_oriented(ctx, am, miller, TRI, m):
    """Plane normals / directions of the whole enumerated index set in cells of EVERY crystal family (cubic included)
    turned off the Cartesian axes: 7 families x 6 orientation classes x 3 length scales."""
    rec = ctx.rec
    NO = len(GH.ORIENTATIONS)
    n = 7 * NO * ctx.pick(2, 6)
    Q = quads_from(TRI)
    zone0 = M.zone_table(TRI, TRI) == 0
    ntri = len(TRI)
    for i in ctx.cases('oriented', n):
        rng = ctx.rng
        fam = cells.FAMILIES[i % 7]
        orient = GH.ORIENTATIONS[(i // 7) % NO]
        rnd = i // (7 * NO)
        scale = ORIENT_SCALES[(i + i // 7 + rnd) % 3]
        oc = cells.ORIGINS[(i // 7 + rnd) % 3]
        cell = make_cell(rng, fam + '-rotated', oc, scale, orient)
        v, o, L = cell['vects'], cell['origin'], cell['L']
        rec.case(('oriented', fam, orient, scale), nontrivial=True, fp=fingerprint(v, o))
        if rnd == 0 and i % 5 == 0:
            rec.sample(dict(family=fam, orientation=orient, vects=v, rotation=cell['R']))
        box = box0 = None
        with ctx.guard('Box can be built from right-handed vectors', 'cells:build'):
            box = am.Box(vects=v, origin=o)
            box0 = am.Box(vects=cell['vects0'], origin=o)
        if box is None or box0 is None:
            continue
        TRUTH[id(box)], TRUTH[id(box0)] = v, cell['vects0']
        rec.count(f'oriented:{fam}:{orient}')
        rec.count(f'oriented-scale:{scale:g}')
        # reach evidence (not judged): the turned cell still answers to its family, so a family-specific path is taken
        try:
            rec.count(f'oriented:family-predicate-holds:{fam}', int(bool(getattr(box, 'is' + fam)())))
        except Exception:
            pass
        off = float(np.abs(v - cell['vects0']).max() / L)
        rec.count('oriented:cells-off-axis', int(off > 1e-4))
        key = f'oriented:{fam}:{orient}'
        shape = ('N', 'MN')[(i + rnd) % 2]
        typ = GI.TYPES[(i + rnd) % 3]
        meth = (i // 7 + rnd) % 2 == 0
        n_exp, d_exp = M.plane_normal(TRI, v)
        c_exp = M.cart_uvw(TRI, v)
        f = (lambda a: box.plane_crystal_to_cartesian(a)) if meth else (lambda a: miller.plane_crystal_to_cartesian(a, box))
        got = run_presented(ctx, f, TRI, shape, typ, 'plane normal is computed for every non-zero integer triple', key + ':plane:exception')
        gotv = None
        if got is not None:
            rec.count(f'exhaustive:oriented-plane-triples[-{m},{m}]^3', ntri)
            err = np.abs(got - n_exp).max(axis=1)
            bad = ~(err <= 1e-9)
            rec.check(not bad.any(), 'plane normal is the unit vector along h a* + k b* + l c* (cell of a crystal family in a general orientation)',
                      key + ':plane-normal', indices=TRI[bad][:3], got=got[bad][:3], expected=n_exp[bad][:3], vects=v, family=fam, orientation=orient)
        f = (lambda a: miller.vector_crystal_to_cartesian(a, box)) if meth else (lambda a: box.vector_crystal_to_cartesian(a))
        gotv = run_presented(ctx, f, TRI, shape, typ, 'Cartesian vector is computed for every integer triple', key + ':vector:exception')
        if gotv is not None:
            rec.count(f'exhaustive:oriented-vector-triples[-{m},{m}]^3', ntri)
            rec.close(1e-10 * L * (1 + m), gotv, c_exp, '[uvw] is u a + v b + w c (cell of a crystal family in a general orientation)',
                      key + ':vector', vects=v, family=fam, orientation=orient)
        if got is not None and gotv is not None:
            dots = np.abs(got @ gotv.T)
            worst = float(dots[zone0].max())
            rec.check(worst <= 1e-9 * L * 3 * m, 'the normal is perpendicular to every lattice vector with hu+kv+lw = 0 (returned normal x returned vector)',
                      key + ':zone', worst=worst, vects=v)
            dots /= d_exp[:, None]
            dots[zone0] = 1.0
            rec.check(float(dots.min()) >= 0.5, 'the normal is perpendicular to no lattice vector with hu+kv+lw != 0 (returned normal x returned vector)',
                      key + ':zone-off', vects=v)
            del dots
        # turning the cell turns the normal and the direction with it
        sub = TRI[rng.choice(ntri, size=60, replace=False)]
        with ctx.guard('plane normal / direction in the axis-aligned cell of the same shape', key + ':unrotated:exception'):
            n0 = np.asarray(box0.plane_crystal_to_cartesian(sub), float)
            n1 = np.asarray(box.plane_crystal_to_cartesian(sub), float)
            rec.close(1e-9, n1, n0 @ cell['R'].T, 'rotating the cell rotates the plane normal with it', key + ':plane-covariant', vects=v, indices=sub[:3])
            c0 = np.asarray(miller.vector_crystal_to_cartesian(sub, box0), float)
            c1 = np.asarray(miller.vector_crystal_to_cartesian(sub, box), float)
            rec.close(1e-10 * L * (1 + m), c1, c0 @ cell['R'].T, 'rotating the cell rotates [uvw] with it', key + ':vector-covariant', vects=v)
            rec.count('oriented:covariance-judged')
        if fam == 'hexagonal':
            with ctx.guard('four-index notation in a turned hexagonal cell', key + ':four-index:exception'):
                g4 = np.asarray(box.plane_crystal_to_cartesian(Q), float)
                rec.close(1e-9, g4, n_exp, '(hkil) and (hkl) have the same normal', key + ':plane4', vects=v)
                v4 = np.asarray(miller.vector_crystal_to_cartesian(Q, box), float)
                rec.close(1e-10 * L * (1 + 2 * m), v4, M.cart_uvtw(Q, v), '[uvtw] = u a1 + v a2 + t a3 + w c with a3 = -(a1+a2)', key + ':vector4', vects=v)
                rec.count('oriented:hexagonal-four-index')
        TRUTH.pop(id(box), None)
        TRUTH.pop(id(box0), None)


# ----------------------------------------------------------------------------- call histories (aliasing, memo keys)
CL_FIRST = 'the call returns the value the notation defines (first call of a history)'
CL_REPEAT = 'a later call with an equal argument returns the same value, whatever the caller did in place with earlier results'
CL_FRESH = 'every call returns an array of its own: no memory shared with an earlier result'
CL_NOARG = 'the result shares no memory with the argument array or with the Box'
CL_ARGKEPT = 'the call leaves its argument as it was'
CL_ARGSAFE = "in-place use of a result leaves the caller's argument and the Box as they were"
CL_RESKEPT = 'a result already returned does not change when the caller reuses its argument array or re-sets the Box'
CL_REUSED = 'an argument object (index array, list, Box) modified in place and passed again is converted with its new values'
CL_INTER = ('look-alike arguments in between (same characters / indices / shape / lattice parameters but other spacing / '
            'box / setting / values) each give their own value')
HIST_EPS = ('fromstring', 'plane3to4', 'plane4to3', 'vector3to4', 'vector4to3', 'p2c', 'c2p', 'reduce3', 'reduce4',
            'vector-cart3:function', 'vector-cart3:method', 'vector-cart4', 'plane-cart3:function', 'plane-cart3:method',
            'plane-cart4', 'all_indices', 'families:Box', 'families:crystalsystem')
CENTRING_REF = {}          # setting -> (P, C): conversion matrices measured before any history ran and verified by the oracle


def _val(rec, tol, got, exp, clause, key, **detail):
    got = np.asarray(got)
    exp = np.asarray(exp)
    if got.dtype.kind not in 'iuf':
        rec.fail(clause, key, why='result is not a numeric array', dtype=str(got.dtype), **detail)
        return False
    return rec.close(tol, got, exp, clause, key, **detail)


def index_history(ctx, ep, fcall, exp_of, tol_of, rows, shape, typ, step, same_obj, env, env_truth, env_decoys=(), reset=None,
                  extra_decoys=()):
    """One history of the entry point ``ep`` on the integer rows ``rows`` presented as ``shape`` / ``typ``.
    fcall(arg, env) -> result (env: Box / setting / None); exp_of(int array, env_truth) -> oracle value;
    env_decoys: [(label, env, env_truth)]; reset(env_truth or None): re-set / restore the SAME env object."""
    rec = ctx.rec
    K = f'history:{ep}:'
    R = GH.shaped(rows, shape)
    exp, tol = exp_of(R, env_truth), tol_of(R, env_truth)
    box = env if hasattr(env, 'vects') else None
    nsk = len(GH.SCRIBBLES)
    cnt = [0]

    def call(arg, e, tag):
        out = None
        with ctx.guard('the call succeeds on an in-domain argument at every point of a history', K + tag):
            out = fcall(arg, e)
        return out

    def scrib(a):
        cnt[0] += 1
        did = GH.scribble(a, GH.SCRIBBLES[(step + cnt[0]) % nsk])
        rec.count('history:scribble:' + str(did))
        return did

    detail = dict(entry=ep, shape=shape, element_type=typ)
    a1 = GH.make_arg(R, typ)
    snap = GH.snapshot(a1)
    vb = box.vects if box is not None else None
    r1 = call(a1, env, 'first')
    if r1 is None:
        return
    _val(rec, tol, r1, exp, CL_FIRST, K + 'first', indices=R, **detail)
    rec.check(GH.same(a1, snap), CL_ARGKEPT, K + 'argument-modified', **detail)
    rec.check(r1 is not a1 and not GH.shares(r1, a1), CL_NOARG, K + 'result-aliases-argument', **detail)
    if box is not None:
        internal = getattr(box, '_Box__vects', None)
        if isinstance(internal, np.ndarray):
            rec.check(not GH.shares(r1, internal), CL_NOARG, K + 'result-aliases-box', **detail)
            rec.count('history:box-internals-inspected')
    s1 = np.array(r1, copy=True)
    reptol = 16 * EPS * (1.0 + float(np.abs(s1).max())) if s1.dtype.kind in 'iuf' and s1.size else 0.0
    used = scrib(r1)
    ok = GH.same(a1, snap) and (box is None or np.array_equal(box.vects, vb))
    rec.check(ok, CL_ARGSAFE, K + 'argument-follows-result', in_place_use=used, **detail)
    a2 = a1 if (same_obj and GH.same(a1, snap)) else GH.make_arg(R, typ)
    r2 = call(a2, env, 'repeat')
    if r2 is not None:
        rec.check(r2 is not r1 and not GH.shares(r2, r1), CL_FRESH, K + 'result-aliases-result', **detail)
        _val(rec, reptol, r2, s1, CL_REPEAT, K + 'repeat', indices=R, in_place_use=used, **detail)
        _val(rec, tol, r2, exp, CL_REPEAT + ' (oracle)', K + 'repeat', indices=R, in_place_use=used, **detail)
        rec.count('history:repeat-after-in-place-use:' + ep)
        scrib(r2)
    # --- look-alike ARGUMENTS in between
    others = [s_ for s_ in GH.SHAPES if s_ != shape]
    types = GH.ARG_TYPES_INT if ep.startswith('reduce') else GH.ARG_TYPES
    decoys = [('other-values', GH.shaped(GH.other_rows(ctx.rng, rows), shape), typ),
              ('other-element-type', R, types[(types.index(typ) + 1 + step % (len(types) - 1)) % len(types)]),
              ('other-shape', GH.shaped(rows, others[step % 2]), typ)] + list(extra_decoys)
    for label, D, td in decoys:
        rd = call(GH.make_arg(D, td), env, 'interleaved:' + label)
        if rd is None:
            continue
        _val(rec, tol_of(D, env_truth), rd, exp_of(D, env_truth), CL_INTER, K + 'interleaved:' + label, indices=D, **detail)
        scrib(rd)
        r3 = call(GH.make_arg(R, typ), env, 'interleaved:' + label + ':repeat')
        if r3 is not None:
            _val(rec, reptol, r3, s1, CL_REPEAT, K + 'interleaved:' + label + ':repeat', indices=R, **detail)
            scrib(r3)
        rec.count(f'history:interleaved:{label}')
    # --- look-alike BOXES / SETTINGS in between
    for label, e2, t2 in env_decoys:
        rd = call(GH.make_arg(R, typ), e2, 'interleaved:' + label)
        if rd is None:
            continue
        _val(rec, tol_of(R, t2), rd, exp_of(R, t2), CL_INTER, K + 'interleaved:' + label, indices=R, other=t2, **detail)
        scrib(rd)
        r3 = call(GH.make_arg(R, typ), env, 'interleaved:' + label + ':repeat')
        if r3 is not None:
            _val(rec, reptol, r3, s1, CL_REPEAT, K + 'interleaved:' + label + ':repeat', indices=R, **detail)
        rec.count(f'history:interleaved:{label}')
    # --- the caller reuses its argument object for other indices
    a3 = GH.make_arg(R, typ)
    r4 = call(a3, env, 'first')
    if r4 is not None:
        s4 = np.array(r4, copy=True)
        GH.negate_in_place(a3)
        rec.check(np.array_equal(np.asarray(r4), s4, equal_nan=True), CL_RESKEPT, K + 'result-follows-argument', **detail)
        r5 = call(a3, env, 'argument-reused')
        if r5 is not None:
            Rn = -R
            _val(rec, tol_of(Rn, env_truth), r5, exp_of(Rn, env_truth), CL_REUSED, K + 'argument-reused', indices=Rn, **detail)
            rec.count('history:argument-reused:' + ep)
    # --- the caller re-sets the SAME Box object (and sets it back)
    if reset is not None and env_decoys:
        keep = call(GH.make_arg(R, typ), env, 'first')
        skeep = None if keep is None else np.array(keep, copy=True)
        for j, (label, e2, t2) in enumerate(env_decoys):
            with ctx.guard('Box.set / Box.vects accept right-handed vectors', K + 'box-reset:exception'):
                reset(t2, j)
            rd = call(GH.make_arg(R, typ), env, 'box-reset')
            if rd is not None:
                _val(rec, tol_of(R, t2), rd, exp_of(R, t2), CL_REUSED, K + 'box-reset', indices=R, now=t2, was=env_truth, like=label, **detail)
                scrib(rd)
            rec.count('history:box-reset:' + ep)
        if skeep is not None:
            rec.check(np.array_equal(np.asarray(keep), skeep, equal_nan=True), CL_RESKEPT, K + 'result-follows-box', **detail)
        with ctx.guard('Box.set / Box.vects accept right-handed vectors', K + 'box-reset:exception'):
            reset(None, 0)
        rb = call(GH.make_arg(R, typ), env, 'box-reset:back')
        if rb is not None:
            _val(rec, tol, rb, exp, CL_REUSED, K + 'box-reset:back', indices=R, **detail)


def string_history(ctx, miller, step, rnd):
    rec = ctx.rec
    K = 'history:fromstring:'
    nsk = len(GH.SCRIBBLES)
    for j in range(5):
        bracket, fraction, nterms = GS.CLASSES[(5 * rnd + j) % len(GS.CLASSES)]
        s, exp, variants = GH.string_history(ctx.rng, bracket, fraction, nterms)
        expf = np.array([float(e) for e in exp])
        rec.count('history:string-class:' + bracket)
        r1 = None
        with ctx.guard('fromstring parses every well-formed index string', K + 'first'):
            r1 = miller.fromstring(s)
        if r1 is None:
            continue
        _val(rec, 0.0, r1, expf, CL_FIRST, K + 'first', rtol=1e-15, string=s)
        used = GH.scribble(r1, GH.SCRIBBLES[(step + j) % nsk])
        rec.count('history:scribble:' + str(used))
        for q, s2 in enumerate((s, GH.fresh_str(s))):
            r2 = None
            with ctx.guard('fromstring parses every well-formed index string', K + 'repeat'):
                r2 = miller.fromstring(s2)
            if r2 is None:
                continue
            _val(rec, 0.0, r2, expf, CL_REPEAT, K + 'repeat', rtol=1e-15, string=s, in_place_use=used)
            rec.check(r2 is not r1 and not GH.shares(r2, r1), CL_FRESH, K + 'result-aliases-result', string=s)
            GH.scribble(r2, GH.SCRIBBLES[(step + j + q + 1) % nsk])
            rec.count('history:repeat-after-in-place-use:fromstring')
        for q, (label, sv, ev, samenum) in enumerate(variants):
            rd = None
            with ctx.guard('fromstring parses every well-formed index string', K + 'interleaved:' + label):
                rd = miller.fromstring(sv)
            if rd is None:
                continue
            _val(rec, 0.0, rd, np.array([float(e) for e in ev]), CL_INTER, K + 'interleaved:' + label, rtol=1e-15, string=sv, before=s)
            GH.scribble(rd, GH.SCRIBBLES[(step + q) % nsk])
            r3 = None
            with ctx.guard('fromstring parses every well-formed index string', K + 'interleaved:' + label + ':repeat'):
                r3 = miller.fromstring(s)
            if r3 is not None:
                _val(rec, 0.0, r3, expf, CL_REPEAT, K + 'interleaved:' + label + ':repeat', rtol=1e-15, string=s, between=sv)
                GH.scribble(r3, GH.SCRIBBLES[(step + q + 2) % nsk])
            rec.count('history:interleaved:string:' + label)


def all_indices_history(ctx, miller, step, rnd):
    rec = ctx.rec
    K = 'history:all_indices:'
    mm = 1 + rnd % 3
    flag = (rnd // 3) % 2 == 1
    nsk = len(GH.SCRIBBLES)

    def judge(a, m_, fl, clause, key):
        exp = M.all_triples(m_)
        if fl:
            exp = np.unique(M.reduce_rows(exp), axis=0)
        a = np.asarray(a)
        ok = a.ndim == 2 and a.shape == exp.shape and a.dtype.kind in 'iu' and np.array_equal(M.sorted_rows(a), M.sorted_rows(exp))
        rec.check(ok, clause, key, maxindex=m_, reduce=fl, got_shape=a.shape, dtype=str(a.dtype), first_rows=a[:3])

    forms = [lambda: miller.all_indices(mm, reduce=flag), lambda: miller.all_indices(mm, flag), lambda: miller.all_indices(maxindex=mm, reduce=flag)]
    prev = []
    for j, f in enumerate(forms + forms[:1]):
        r = None
        with ctx.guard('all_indices', K + 'exception'):
            r = f()
        if r is None:
            continue
        judge(r, mm, flag, CL_FIRST if j == 0 else CL_REPEAT, K + ('first' if j == 0 else 'repeat'))
        rec.check(all(r is not p and not GH.shares(r, p) for p in prev), CL_FRESH, K + 'result-aliases-result')
        prev.append(r)
        rec.count('history:scribble:' + str(GH.scribble(r, GH.SCRIBBLES[(step + j) % nsk])))
        if j:
            rec.count('history:repeat-after-in-place-use:all_indices')
    decoys = [('other-reduce-flag', mm, not flag), ('larger-maxindex', mm + 1, flag), ('larger-maxindex-other-flag', mm + 1, not flag)]
    if mm > 1:
        decoys.append(('smaller-maxindex', mm - 1, flag))
    for q, (label, m2, f2) in enumerate(decoys):
        with ctx.guard('all_indices', K + 'exception'):
            rd = miller.all_indices(m2, reduce=f2)
            judge(rd, m2, f2, CL_INTER, K + 'interleaved:' + label)
            GH.scribble(rd, GH.SCRIBBLES[(step + q) % nsk])
            r3 = miller.all_indices(mm, reduce=flag)
            judge(r3, mm, flag, CL_REPEAT, K + 'interleaved:' + label + ':repeat')
            GH.scribble(r3, GH.SCRIBBLES[(step + q + 3) % nsk])
            rec.count('history:interleaved:all_indices:' + label)
    # default arguments: all_indices(m) is the unreduced set even after reduced ones were asked for
    with ctx.guard('all_indices', K + 'exception'):
        judge(miller.all_indices(mm), mm, False, CL_INTER, K + 'interleaved:default-reduce')


def sibling_params(rng, p, fam):
    """Generic parameters of family ``fam`` sharing as many edge LENGTHS with the cell ``p`` as the family allows."""
    q = dict(cells.family_params(rng, fam))
    a = p['a']
    rb, rc = q['b'] / q['a'], q['c'] / q['a']
    b = p['b'] if p['b'] / a >= 1.1 else a * rb
    c = p['c'] if p['c'] / a >= 1.1 else a * rc
    if fam in ('cubic', 'rhombohedral'):
        q.update(a=a, b=a, c=a)
    elif fam in ('tetragonal', 'hexagonal'):
        q.update(a=a, b=a, c=c)
    else:
        if abs(c / b - 1) < 0.05:
            c = b * 1.3
        q.update(a=a, b=b, c=c)
    return {k: float(x) for k, x in q.items()}


def family_history(ctx, am, cs, ep, step, rnd):
    rec = ctx.rec
    rng = ctx.rng
    K = f'history:{ep}:'
    onbox = ep.endswith('Box')
    ident = (lambda b: b.identifyfamily()) if onbox else (lambda b: cs.identifyfamily(b))
    pred = (lambda b, f: getattr(b, 'is' + f)()) if onbox else (lambda b, f: getattr(cs, 'is' + f)(b))
    fam = cells.FAMILIES[rnd % 7]
    scale = cells.SCALES[(rnd // 7 + rnd) % 3]
    p = dict(cells.family_params(rng, fam))
    for kk in 'abc':
        p[kk] = float(p[kk] * scale)
    p = {k: float(x) for k, x in p.items()}
    cl = 'a cell built with the parameters of a crystal family is identified as that family'

    def judge(b, f_, tag, clause, params):
        with ctx.guard('family identification', K + tag):
            got = ident(b)
            rec.check(got == f_, clause + ': ' + cl, K + tag, got=got, expected=f_, params=params)
            wrong = [o for o in FAMILY_OF_PRED if bool(pred(b, o)) != (o == f_)]
            rec.check(not wrong, clause + ': exactly the predicate of the constructed family holds', K + tag + ':predicates',
                      wrong=wrong, expected=f_, params=params)
            rec.count('history:families-judged')

    box = None
    with ctx.guard(f'family constructor accepts generic {fam} parameters', K + 'constructor'):
        box = build_family(am, fam, p)
    if box is None:
        return
    judge(box, fam, 'first', CL_FIRST, p)
    judge(box, fam, 'repeat', CL_REPEAT, p)
    others = [f for f in cells.FAMILIES if f != fam]
    # other cells sharing its edge lengths, in between
    for f2 in others:
        p2 = sibling_params(rng, p, f2)
        b2 = None
        with ctx.guard(f'family constructor accepts generic {f2} parameters', K + 'constructor'):
            b2 = build_family(am, f2, p2)
        if b2 is None:
            continue
        judge(b2, f2, 'interleaved:shared-edge-lengths', CL_INTER, p2)
        judge(box, fam, 'interleaved:shared-edge-lengths:repeat', CL_REPEAT, p)
        rec.count('history:interleaved:families:shared-edge-lengths')
    # the same Box object given the parameters of other families
    names = ('a', 'b', 'c', 'alpha', 'beta', 'gamma')
    for j in range(3):
        f2 = others[(step + 2 * j) % 6]
        p2 = sibling_params(rng, p, f2)
        with ctx.guard('Box.set accepts lattice parameters', K + 'box-reset:exception'):
            box.set(**{k: p2[k] for k in names})
            judge(box, f2, 'box-reset', CL_REUSED, p2)
            rec.count('history:box-reset:' + ep)
    with ctx.guard('Box.set accepts lattice parameters', K + 'box-reset:exception'):
        box.set(**{k: p[k] for k in names})
        judge(box, fam, 'box-reset:back', CL_REUSED, p)
    # short-lived Box objects one after the other (an object identity is used again for another cell)
    seen = set()
    for j in range(14):
        f2 = cells.FAMILIES[(j + step) % 7]
        p2 = sibling_params(rng, p, f2)
        with ctx.guard(f'family constructor accepts generic {f2} parameters', K + 'constructor'):
            b2 = build_family(am, f2, p2)
            rec.count('history:families:object-identity-seen-before', int(id(b2) in seen))
            seen.add(id(b2))
            judge(b2, f2, 'short-lived-objects', CL_INTER, p2)
            del b2


def group_history(ctx, am, miller, cs, TRI, m):
    """Call HISTORIES of every function of the property: in-place use of returned arrays between calls, reuse of
    argument objects and of Box objects, and look-alike arguments interleaved (aliasing / memoisation defects are
    invisible to any stateless call-then-compare sweep)."""
    rec = ctx.rec
    NE = len(HIST_EPS)
    n = NE * ctx.pick(8, 24)
    p2c, c2p = miller.vector_primitive_to_conventional, miller.vector_conventional_to_primitive
    plain = {'plane3to4': (miller.plane3to4, 3, M.plane3to4, 0.0), 'plane4to3': (miller.plane4to3, 4, M.plane4to3, 0.0),
             'vector3to4': (miller.vector3to4, 3, M.vector3to4, 1e-14), 'vector4to3': (miller.vector4to3, 4, M.vector4to3, 1e-13),
             'reduce3': (miller.reduce_indices, 3, M.reduce_rows, 0.0), 'reduce4': (miller.reduce_indices, 4, M.reduce_rows, 0.0)}
    for i in ctx.cases('history', n):
        rng = ctx.rng
        ep = HIST_EPS[i % NE]
        rnd = i // NE
        step = i + rnd
        rec.case(('history', ep, rnd % 6), nontrivial=True, fp=fingerprint('history', ep, rnd, ctx.seed))
        rec.count(f'history:{ep}:cases')
        if ep == 'fromstring':
            string_history(ctx, miller, step, rnd)
            continue
        if ep == 'all_indices':
            all_indices_history(ctx, miller, step, rnd)
            continue
        if ep.startswith('families'):
            family_history(ctx, am, cs, ep, step, rnd)
            continue
        k = plain[ep][1] if ep in plain else (4 if ep.split(':')[0].endswith('cart4') else 3)
        rows = GH.index_rows(rng, TRI, k)
        types = GH.ARG_TYPES_INT if ep.startswith('reduce') else GH.ARG_TYPES
        if rnd < 2:
            rec.sample(dict(entry=ep, rows=rows[:4], shapes=GH.SHAPES, element_types=types))
        for s, shape in enumerate(GH.SHAPES):
            typ = types[(rnd + s) % len(types)]
            same_obj = (rnd + s) % 2 == 0
            rec.count(f'history:argument:{typ}')
            rec.count(f'history:shape:{shape}')
            if ep in plain:
                f, _, oracle, ot = plain[ep]
                rws = rows
                extra = []
                if ep.startswith('reduce'):
                    # half the rows multiplied, the others already coprime; every third round ALL rows already coprime
                    rws = M.reduce_rows(rows)
                    if rnd % 3 != 2:
                        mult = rng.integers(1, 10, (len(rws), 1))
                        mult[::2] = 1
                        rws = rws * mult
                    else:
                        rec.count('history:reduce-all-rows-already-coprime')
                    # the same buffer read with the other row width (24 rows of 3 <-> 18 rows of 4)
                    alt = np.ascontiguousarray(rws).reshape(-1, 7 - k)
                    if (np.abs(alt).sum(axis=1) != 0).all():
                        extra.append(('same-buffer-other-width', alt, typ))
                index_history(ctx, ep, lambda a, e, f=f: f(a), lambda R, t, o=oracle: np.asarray(o(R), float),
                              lambda R, t, ot=ot: ot * (1.0 + float(np.abs(R).max())), rws, shape, typ, step + s, same_obj, None, None,
                              extra_decoys=extra)
            elif ep in ('p2c', 'c2p'):
                setting = M.SETTINGS[(rnd + s) % 8]
                if setting not in CENTRING_REF:
                    rec.count('history:centring-reference-missing')
                    continue
                f = p2c if ep == 'p2c' else c2p
                col = 0 if ep == 'p2c' else 1
                decoys = [('other-setting:' + ('identity' if s2 == 'p' else 'centred'), s2, s2)
                          for s2 in (M.SETTINGS[(rnd + s + 1 + j) % 8] for j in range(3)) if s2 in CENTRING_REF]
                rec.count('history:setting:' + setting)
                index_history(ctx, ep, lambda a, e, f=f: f(a, e), lambda R, t, col=col: np.asarray(R, float) @ CENTRING_REF[t][col],
                              lambda R, t: 1e-12 * (1.0 + 3.0 * float(np.abs(R).max())), rows, shape, typ, step + s, same_obj, setting, setting,
                              env_decoys=decoys)
            else:
                hexa = k == 4
                if hexa:
                    kind = ('hexagonal', 'hexagonal-rotated')[(rnd + s) % 2]
                else:
                    kind = CELL_KINDS_ALL[(rnd * 3 + s + i) % len(CELL_KINDS_ALL)]
                orient = GH.ORIENTATIONS[(rnd + s) % len(GH.ORIENTATIONS)]
                scale = LENGTH_SCALES[(rnd + s) % 8]
                oc = cells.ORIGINS[(rnd + s) % 3]
                cell = make_cell(rng, kind, oc, scale, orient)
                v, o = cell['vects'], cell['origin']
                rec.count('history:cellkind:' + kind)
                Rr = GH.orientation(rng, GH.ORIENTATIONS[(rnd + s + 1) % len(GH.ORIENTATIONS)])
                dv = [('other-box-same-lattice-parameters', v @ Rr.T), ('other-box-scaled', v * float(rng.choice([2.0, 0.5, 3.0])))]
                if hexa:
                    v3 = v.copy()
                    v3[2] *= 1.37
                    dv.append(('other-box-other-c/a', v3))
                else:
                    dv.append(('other-box-other-cell', make_cell(rng, CELL_KINDS_ALL[(rnd + s + 7) % len(CELL_KINDS_ALL)], oc, scale)['vects']))
                box = None
                boxes = []
                with ctx.guard('Box can be built from right-handed vectors', 'cells:build'):
                    box = am.Box(vects=v, origin=o)
                    for label, v2 in dv:
                        b2 = am.Box(vects=v2, origin=o)
                        TRUTH[id(b2)] = v2
                        boxes.append((label, b2, v2))
                if box is None or len(boxes) != len(dv):
                    continue
                TRUTH[id(box)] = v
                meth = ep.endswith(':method') or (hexa and (rnd + s) % 2 == 0)
                isplane = ep.startswith('plane')
                if isplane:
                    f = (lambda a, b: b.plane_crystal_to_cartesian(a)) if meth else (lambda a, b: miller.plane_crystal_to_cartesian(a, b))
                    exp_of = lambda R, t: M.plane_normal(M.plane4to3(R) if np.shape(R)[-1] == 4 else R, t)[0]
                    tol_of = lambda R, t: 1e-9
                else:
                    f = (lambda a, b: b.vector_crystal_to_cartesian(a)) if meth else (lambda a, b: miller.vector_crystal_to_cartesian(a, b))
                    exp_of = lambda R, t: M.cart_uvtw(R, t) if np.shape(R)[-1] == 4 else M.cart_uvw(R, t)
                    tol_of = lambda R, t: 1e-10 * float(np.linalg.norm(t, axis=1).max()) * (1.0 + float(np.abs(R).max()))

                def reset(t2, j, box=box, v=v, o=o):
                    vv = v if t2 is None else t2
                    TRUTH[id(box)] = vv
                    if j % 3 == 0:
                        box.set(vects=vv, origin=o)
                    elif j % 3 == 1:
                        box.vects = vv
                    else:
                        box.set(avect=vv[0], bvect=vv[1], cvect=vv[2], origin=o)

                index_history(ctx, ep, f, exp_of, tol_of, rows, shape, typ, step + s, same_obj, box, v, env_decoys=boxes, reset=reset)
                TRUTH.pop(id(box), None)
                for _, b2, _ in boxes:
                    TRUTH.pop(id(b2), None)


def centring_reference(ctx, miller):
    """Conversion matrices of every setting, taken before any history ran, verified from the definition of the centred
    lattice (oracle): rows of P are lattice translations spanning a cell with one lattice point; C is the inverse of P."""
    rec = ctx.rec
    for setting in M.SETTINGS:
        P = C = None
        with ctx.guard('conversion of the unit vectors', f'centring:{setting}:matrix:exception'):
            P = np.array(miller.vector_primitive_to_conventional(np.eye(3), setting), float)
            C = np.array(miller.vector_conventional_to_primitive(np.eye(3), setting), float)
        if P is None or C is None:
            continue
        ok = M.is_primitive_basis(P, setting) and C.shape == (3, 3) and np.abs(P @ C - np.eye(3)).max() <= 1e-12
        if ok:
            CENTRING_REF[setting] = (P, C)
        rec.count('history:centring-reference-verified', int(ok))


# ----------------------------------------------------------------------------- run
def run(ctx):
    import atomman as am
    from atomman.tools import miller
    from atomman.tools import crystalsystem as cs
    rec = ctx.rec
    m = ctx.pick(4, 6)
    TRI = M.all_triples(m)
    assert len(TRI) == (2 * m + 1) ** 3 - 1

    real_plane = miller.plane_crystal_to_cartesian
    blines = branch_lines(real_plane)
    cover.start([MILLER_PY])
    install_monitors(rec, miller)

    centring_reference(ctx, miller)
    group_cells(ctx, am, miller, TRI, m)
    group_index34(ctx, miller, TRI, m)
    group_centring(ctx, miller, TRI, m)
    group_reduce(ctx, miller, TRI, m)
    group_strings(ctx, miller)
    group_families(ctx, am, cs)
    group_present(ctx, am, miller, TRI, m)
    group_oriented(ctx, am, miller, TRI, m)
    group_history(ctx, am, miller, cs, TRI, m)

    # reach: the seven zero-pattern branches of plane_crystal_to_cartesian
    rec.count('reach:plane-branches-located', 1 if len(blines) == 7 else 0)
    labels = M.ZERO_PATTERNS if len(blines) == 7 else [f'#{j}' for j in range(len(blines))]
    for lab, ln in zip(labels, blines):
        rec.count('reach:plane-branch:' + lab, 1 if cover.hit(MILLER_PY, ln) else 0)
    for k, v_ in monitor.calls.items():
        if isinstance(v_, int):
            rec.count('monitor_calls:' + k, v_)

    for lab in M.ZERO_PATTERNS:
        rec.floor('reach:plane-branch:' + lab, 1)
        rec.floor('class:zero-pattern:' + lab, 6)
    rec.floor('reach:plane-branches-located', 1)
    for shape in GI.SHAPES:
        rec.floor(f'exhaustive:plane-triples[-{m},{m}]^3:{shape}', 12 * len(TRI))
        rec.floor(f'exhaustive:vector-triples[-{m},{m}]^3:{shape}', 12 * len(TRI))
        rec.floor(f'exhaustive:index34-triples[-{m},{m}]^3:{shape}', len(TRI))
        rec.floor('reduce-shape:' + shape, 2)
        rec.floor('hexagonal-4index-shape:' + shape, 1)
    rec.floor('reduce-shape:MM', 2)
    for kind in set(CELL_KINDS):
        rec.floor('cellkind:' + kind, 2)
    rec.floor('hexagonal-cells', 4)
    rec.floor('monitor_calls:miller.plane_crystal_to_cartesian', 1000)
    rec.floor('monitor_calls:miller.vector_crystal_to_cartesian', 1000)
    rec.floor('monitor:plane-normals-judged', 24 * len(TRI))
    rec.floor('monitor:vectors-judged', 24 * len(TRI))
    rec.floor('zone:pairs-in-zone', 1000)
    rec.floor('zone:pairs-off-zone', 1000)
    rec.floor('sum-rule-refusals', 10)
    for s in M.SETTINGS:
        rec.floor('setting:' + s, 3)
    rec.floor('monitor:centring-settings-judged', 24)
    rec.floor('monitor:strings-judged', 300)
    for b in list(GS.BRACKETS) + ['bare']:
        rec.floor('string-bracket:' + b, 20)
    for f in GS.FRACTIONS:
        rec.floor('string-fraction:' + f, 40)
    rec.floor('string-terms:3', 100)
    rec.floor('string-terms:4', 100)
    for fam in cells.FAMILIES:
        rec.floor('family:' + fam, 6)
    rec.floor('monitor:families-judged', 60)
    # presentations: every function x element type / container, every magnitude, every memory layout, every leading shape
    for fname in PRESENT_FUNCS:
        for name in GP.NAMES:
            if fname.startswith('reduce') and name in GP.FLOATS:
                continue                                   # refused by the code ("An array of ints"), counted as refusal
            rec.floor(f'present:{fname}:{name}', 15)
        for lay in GP.LAYOUTS:
            rec.floor(f'present-layout:{fname}:{lay}', 10)
    for name in GP.NAMES:
        for mag in GP.MAGS:
            rec.floor(f'present-magnitude:{name}:{mag}', 2)
    for dcl in ('int64', 'float64', 'signed-narrow', 'unsigned', 'float-narrow'):
        for lay in GP.LAYOUTS:
            rec.floor(f'present:plane-cart3:{dcl}:{lay}', 2)
    rec.floor('present:plane-cart3:all_indices:as-returned', 6)
    for shape in GP.SHAPES:
        rec.floor('present-shape:' + shape, 1000)
    rec.floor('present:8-bit-plane-rows-with-|hkl|>127', 500)
    rec.floor('present:plane-rows-with-|hkl|>127', 5000)
    rec.floor('present:plane-rows-with-|hkl|>32767', 1000)
    rec.floor('present:plane-rows-with-|hkl|>2^31', 100)
    rec.floor('present:plane-normal-large-rows', 10000)
    rec.floor('present:wrapping-sum-rule-refusals', 100)
    rec.floor('present:reduce-dtype-minimum', 4)
    if not ctx.quick:
        for name in GP.NAMES:
            if name == 'all_indices-output':
                continue
            full = 12 ** 3 - 1 if name in GP.UNSIGNED else 23 ** 3 - 1
            rec.floor(f'exhaustive:present-plane-normal[-11,11]^3:{name}:N', full)
            rec.floor(f'exhaustive:present-plane-normal[-11,11]^3:{name}:MN', full)
    for sc in LENGTH_SCALES:
        rec.floor(f'length-scale:{sc:g}', 12)
        rec.floor(f'present-length-scale:{sc:g}', 6)
    rec.floor('length-scale-sweep:1e-10', 12)
    rec.floor('length-scale-sweep:10000', 12)
    rec.floor('length-scale-sweep:cells', 100)
    # every crystal family in every orientation class
    for fam in cells.FAMILIES:
        for orient in GH.ORIENTATIONS:
            rec.floor(f'oriented:{fam}:{orient}', ctx.pick(2, 6))
        rec.floor(f'oriented:family-predicate-holds:{fam}', len(GH.ORIENTATIONS) * ctx.pick(2, 6))
    nor = 7 * len(GH.ORIENTATIONS) * ctx.pick(2, 6)
    rec.floor('oriented:cells-off-axis', nor)
    rec.floor(f'exhaustive:oriented-plane-triples[-{m},{m}]^3', nor * len(TRI))
    rec.floor(f'exhaustive:oriented-vector-triples[-{m},{m}]^3', nor * len(TRI))
    rec.floor('oriented:covariance-judged', nor)
    rec.floor('oriented:hexagonal-four-index', len(GH.ORIENTATIONS) * ctx.pick(2, 6))
    for sc in ORIENT_SCALES:
        rec.floor(f'oriented-scale:{sc:g}', 14)
    # call histories: every entry point, every kind of in-place use, every look-alike class
    nh = ctx.pick(8, 24)
    rec.floor('history:centring-reference-verified', 8)
    for ep in HIST_EPS:
        rec.floor(f'history:{ep}:cases', nh)
        if ep.startswith('families'):
            rec.floor('history:box-reset:' + ep, 3 * nh)
            continue
        rec.floor('history:repeat-after-in-place-use:' + ep, 3 * nh)
        if ep in ('fromstring', 'all_indices'):
            continue
        rec.floor('history:argument-reused:' + ep, 3 * nh)
        if 'cart' in ep:
            rec.floor('history:box-reset:' + ep, 9 * nh)
    for sk in GH.SCRIBBLES:
        rec.floor('history:scribble:' + sk, 100)
    for lab in ('other-values', 'other-element-type', 'other-shape'):
        rec.floor('history:interleaved:' + lab, 13 * 3 * nh)
    rec.floor('history:interleaved:same-buffer-other-width', nh)
    rec.floor('history:reduce-all-rows-already-coprime', 6)
    for lab in ('other-box-same-lattice-parameters', 'other-box-scaled'):
        rec.floor('history:interleaved:' + lab, 6 * 3 * nh)
    rec.floor('history:interleaved:other-box-other-c/a', 2 * 3 * nh)
    rec.floor('history:interleaved:other-box-other-cell', 4 * 3 * nh)
    rec.floor('history:interleaved:other-setting:identity', 6)
    rec.floor('history:interleaved:other-setting:centred', 12 * nh)
    for typ in GH.ARG_TYPES:
        rec.floor('history:argument:' + typ, 3 * nh)
    for shape in GH.SHAPES:
        rec.floor('history:shape:' + shape, 13 * nh)
    for lab in ('respaced', 'padded', 'other-bracket', 'digits-regrouped', 'other-fraction', 'fraction-dropped', 'signs-flipped',
                'one-term-less', 'one-term-more', 'last-term-changed'):
        rec.floor('history:interleaved:string:' + lab, nh)
    for b in list(GS.BRACKETS) + ['bare']:
        rec.floor('history:string-class:' + b, 2)
    for lab in ('other-reduce-flag', 'larger-maxindex', 'larger-maxindex-other-flag', 'smaller-maxindex'):
        rec.floor('history:interleaved:all_indices:' + lab, 4)
    rec.floor('history:interleaved:families:shared-edge-lengths', 2 * 6 * nh)
    rec.floor('history:families-judged', 2 * 30 * nh)
    rec.floor('history:families:object-identity-seen-before', 1)
    rec.floor('strings:reparsed-after-in-place-use', 300)
