"""C16 - Miller conversions are lossless; the plane normal is the reciprocal-lattice
vector; centring conversions are mutually inverse; reduce / fromstring; family
identification."""
from __future__ import annotations

import inspect

import numpy as np

from ..core import fingerprint
from ..gen import cells
from ..gen import c16_indices as GI
from ..gen import c16_strings as GS
from ..gen import c16_present as GP
from ..oracle import geometry as G
from ..oracle import c16_miller as M
from .. import monitor, cover

# monitors are self-sufficient (judge a call from its arguments and result): the repository's own tests run under them
# as an extra workload in the thorough tier (vf/repotests.py)
REPOTESTS = True

RULE = ('Integer index triples are ENUMERATED EXHAUSTIVELY in [-4,4]^3 minus 0 (728; thorough [-6,6]^3, 2196) and '
        'presented as (3,), (N,3) and (M,N,3) arrays (int arrays, float arrays, nested lists) to every function; '
        'cells round-robin over 12 kinds (7 families, strongly tilted, rotated triclinic, rotated hexagonal) x 3 '
        'origin classes x 8 length scales 1e-10..1e4 (every kind at every scale; each case repeats its cell shape at two further '
        'scales); centring cases over the 8 settings x 3 shapes; reduce cases over 4 leading '
        'shapes x 3/4 terms x multiplied/plain; index strings over 34 classes (4 bracket styles x 4 fraction classes x '
        '3/4 terms + legacy bare form); family cases over the 7 family constructors x 3 scales with generic '
        'parameters. PRESENTATION cases round-robin over 18 element types / containers (int8..int64, uint8..uint64 with the '
        'non-negative rows, float16/32/64, list, tuple, nested tuples, list of row arrays, lists of numpy int8/int16 scalars, '
        'the array all_indices returns) x 3 magnitudes (the enumerated bound; |index| <= 11, on the thorough tier the whole '
        '[-11,11]^3 cube for the plane normal; up to the largest value of the element type, capped at 2000 for the plane '
        'normal and 2e9 otherwise) and inside a case run all 12 index-taking entry points x 5 leading shapes ((3,), (1,3), '
        '(N,3), (M,N,3), (1,1,3)) with the memory layout rotating over C / Fortran / strided (first, last axis) / negative '
        'strides / index axis slowest / read-only / byte-swapped; each result is compared with the int64 C-contiguous call '
        'and with the oracle. A case is non-trivial when it evaluates the full enumerated set (cells/index/centring/reduce) '
        'or a string/cell whose random numbers are drawn inside the class; distinct = distinct fingerprint of the '
        'concrete inputs.')
ASSUMPTIONS = ['cells are right-handed with volume >= 10% of a*b*c (condition number < ~1e2)',
               'plane indices are integers (the documented requirement of plane_crystal_to_cartesian); the zero triple is excluded',
               'family identification uses the default tolerances (rtol=1e-5, atol=1e-8) on cells whose lengths are >= 2.5e-4, '
               'i.e. far above atol; parameters are generic (lengths differ by >= 15 %, angles by >= 3 deg from each other and from 90/120)',
               "the trigonal settings supported by the code are 't1' (obverse) and 't2' (reverse); a bare 't' is refused and counted",
               'index strings follow the documented grammar: no leading blank, space-delimited integers',
               'presentations hold every index exactly: signed types over their symmetric range [-max, max] (the most negative value only in '
               'the dedicated reduce_indices clause), unsigned types non-negative rows, float types integers below their mantissa; '
               'magnitudes are capped so that every exact result fits int64 and a double (plane normal |index| <= 2000, others <= 2e9)',
               'a narrow float element type (float16/float32) bounds the accuracy of vector3to4 (division by 3) by its own round-off; '
               'reduce_indices refuses float element types (documented: "An array of ints"), counted as refusals',
               'oracle shares numpy/LAPACK with the code under test']

# thorough: 16 shards x 3 seeds; ~35 CPU-min in total, so a generous per-worker watchdog for a loaded machine
CONFIG = {'thorough': {'timeout': 7200}}

MILLER_PY = 'atomman/tools/miller.py'
CELL_KINDS = ['cubic', 'tetragonal', 'orthorhombic', 'hexagonal', 'rhombohedral', 'monoclinic', 'triclinic', 'tilted',
              'rotated', 'hexagonal-rotated', 'triclinic', 'tilted']
FAMILY_OF_PRED = ['cubic', 'hexagonal', 'tetragonal', 'rhombohedral', 'orthorhombic', 'monoclinic', 'triclinic']
# cell length scales: the plane normal and the direction are scale-free statements (no absolute threshold is stated),
# so the whole range from a cell written in metres (1e-10) to one in 1e-4 angstrom units (1e4) is in the quantifier
LENGTH_SCALES = (1.0, 1e-10, 1e4, 1e-8, 1e2, 1e-6, 1e-2, 1e-4)
# every case repeats its cell shape at two further scales (pairs rotate; the two ends of the range in every pair of cases)
SWEEP_SCALES = ((1e-10, 1e4), (1e-8, 1e2), (1e-10, 1e-6), (1e4, 1e-4))
KNOWN_MN = 'reduce_indices:leading-shape-MN'      # mechanism key of the (M,N,3) defect of reduce_indices

TRUTH = {}      # id(box) -> ground-truth vects the harness built it from


# ----------------------------------------------------------------------------- monitors
def _arg(args, kwargs, pos, name):
    return args[pos] if len(args) > pos else kwargs[name]


def _first_bad_pattern(hkl, bad):
    rows = np.asarray(hkl).reshape(-1, 3)[np.asarray(bad).reshape(-1)]
    return M.zero_pattern(rows[0]), rows[:3]


def judge_normals(rec, got, idx, v, where):
    """got: (...,3) normals returned for idx ((...,3) or (...,4) integer indices) in the cell v."""
    x = np.asarray(idx, float)
    hkl = M.plane4to3(x) if x.shape[-1] == 4 else x
    n_exp, d_exp = M.plane_normal(hkl, v)
    got = np.asarray(got)
    cl = 'plane normal is the unit vector along h a* + k b* + l c*'
    if got.shape != n_exp.shape:
        rec.check(False, cl, f'plane:shape:{where}', got_shape=got.shape, exp_shape=n_exp.shape)
        return
    L = np.linalg.norm(v, axis=1).max()
    err = np.abs(got - n_exp).max(axis=-1)
    bad = ~(err <= 1e-9)
    if bad.any():
        pat, rows = _first_bad_pattern(hkl, bad)
        rec.check(False, cl, f'plane:normal:{pat}', indices=rows, vects=v, got=got.reshape(-1, 3)[bad.reshape(-1)][:3],
                  expected=n_exp.reshape(-1, 3)[bad.reshape(-1)][:3], where=where)
    else:
        rec.check(True, cl)
    # intercept form, no linear solve: n.a1 : n.a2 : n.a3 (: n.a3') = h : k : l (: i) with a common positive factor
    p = got @ np.asarray(v, float).T
    hh = (hkl * hkl).sum(axis=-1)
    d = (p * hkl).sum(axis=-1) / hh
    resid = np.abs(p - d[..., None] * hkl).max(axis=-1)
    unit = np.abs(np.linalg.norm(got, axis=-1) - 1.0)
    ok = (resid <= 1e-9 * L * (1 + np.abs(hkl).max())) & (d > 0) & (unit <= 1e-12)
    cl2 = 'plane (hkl) cuts the axes at a/h, b/k, c/l: n.a_i = h_i d with d > 0 and |n| = 1'
    if not ok.all():
        pat, rows = _first_bad_pattern(hkl, ~ok)
        rec.check(False, cl2, f'plane:intercepts:{pat}', indices=rows, vects=v, where=where)
    else:
        rec.check(True, cl2)
    if x.shape[-1] == 4:
        a3 = -(v[0] + v[1])
        r4 = np.abs(got @ a3 - d * x[..., 2])
        rec.check((r4 <= 1e-9 * L * (1 + np.abs(x).max())).all(),
                  'plane (hkil) also cuts the redundant axis -(a1+a2) at 1/i', 'plane:hkil:third-axis', vects=v, where=where)
    rec.count('monitor:plane-normals-judged', int(np.prod(hkl.shape[:-1], dtype=int)))


def judge_vectors(rec, got, idx, v, where):
    x = np.asarray(idx, float)
    exp = M.cart_uvtw(x, v) if x.shape[-1] == 4 else M.cart_uvw(x, v)
    L = np.linalg.norm(v, axis=1).max()
    k = 'uvtw' if x.shape[-1] == 4 else 'uvw'
    dt = np.asarray(idx).dtype            # input class of the mechanism key: narrow / unsigned integer element types
    if dt.kind == 'u':
        k += ':unsigned'
    elif dt.kind == 'i' and dt.itemsize < 8:
        k += ':signed-narrow'
    rec.close(1e-10 * L * (1 + np.abs(x).max()), got, exp,
              '[uvw] is u a + v b + w c ([uvtw] the sum over the four hexagonal axes), origin not added',
              f'vector:cartesian:{k}', indices=x.reshape(-1, x.shape[-1])[:3], vects=v, where=where)
    rec.count('monitor:vectors-judged', int(np.prod(x.shape[:-1], dtype=int)))


def install_monitors(rec, miller):
    def post_plane(args, kwargs, result, exc, old):
        if exc is not None:
            return
        box = _arg(args, kwargs, 1, 'box')
        v = TRUTH.get(id(box))
        if v is None:
            v = box.vects
        judge_normals(rec, result, _arg(args, kwargs, 0, 'indices'), v, 'monitor')

    def post_vector(args, kwargs, result, exc, old):
        if exc is not None:
            return
        box = _arg(args, kwargs, 1, 'box')
        v = TRUTH.get(id(box))
        if v is None:
            v = box.vects
        judge_vectors(rec, result, _arg(args, kwargs, 0, 'indices'), v, 'monitor')

    monitor.observe_function(miller.plane_crystal_to_cartesian, post_plane, label='miller.plane_crystal_to_cartesian')
    monitor.observe_function(miller.vector_crystal_to_cartesian, post_vector, label='miller.vector_crystal_to_cartesian')


def branch_lines(func):
    """Line numbers (in the file) of the in-plane vector choice of each of the seven
    zero-pattern branches of plane_crystal_to_cartesian, in source order."""
    try:
        src, start = inspect.getsourcelines(func)
    except (OSError, TypeError):
        return []
    return [start + j for j, ln in enumerate(src) if ln.strip().startswith('a_uvw = ')]


# ----------------------------------------------------------------------------- helpers
def make_cell(rng, kind, oc, scale):
    if kind == 'hexagonal-rotated':
        cell = cells.gen_cell(rng, 'hexagonal', oc, scale)
        cell['vects'] = cell['vects'] @ G.random_rotation(rng).T
        cell['lammps'] = False
        cell['kind'] = kind
        return cell
    return cells.gen_cell(rng, kind, oc, scale)


def run_presented(ctx, func, idx, shape, typ, clause, key, extra=()):
    """Call func on every presentation piece of idx; -> (flat results or None, n pieces)."""
    outs = []
    for piece in GI.present(idx, shape):
        arg = GI.as_type(piece, typ)
        res = None
        with ctx.guard(clause, key):
            res = func(arg, *extra)
        if res is None:
            return None
        res = np.asarray(res)
        want = np.shape(piece)[:-1]
        if res.shape[:-1] != want:
            ctx.rec.fail(clause + ' (leading shape of the result = leading shape of the input)', key + ':shape',
                         got_shape=res.shape, in_shape=np.shape(piece))
            return None
        outs.append(res.reshape(-1, res.shape[-1]))
    return np.concatenate(outs, axis=0)


def quads_from(tri):
    """(u,v,w) -> the proper four-index (u, v, -(u+v), w)."""
    t = np.asarray(tri)
    return np.stack([t[..., 0], t[..., 1], -(t[..., 0] + t[..., 1]), t[..., 2]], axis=-1)


# ----------------------------------------------------------------------------- groups
def group_cells(ctx, am, miller, TRI, m):
    rec = ctx.rec
    pats = [M.zero_pattern(t) for t in TRI]
    zone = M.zone_table(TRI, TRI)
    inzone = zone == 0
    zonef = zone.astype(float)
    zmax = float(np.abs(zone).max())
    n_in, n_off = int(inzone.sum()), int((~inzone).sum())
    Q = quads_from(TRI)
    ntri = len(TRI)
    n_cells = ctx.pick(96, 288)
    for i in ctx.cases('cells', n_cells):
        rng = ctx.rng
        kind = CELL_KINDS[i % 12]
        oc = cells.ORIGINS[(i // 12) % 3]
        scale = LENGTH_SCALES[(i // 12) % 8]
        cell = make_cell(rng, kind, oc, scale)
        v, o, L = cell['vects'], cell['origin'], np.linalg.norm(cell['vects'], axis=1).max()
        rec.case(('cell', kind, oc, scale), nontrivial=True, fp=fingerprint(v, o))
        if i < 24:
            rec.sample(dict(kind=kind, vects=v, origin=o, triples=ntri))
        box = None
        with ctx.guard('Box can be built from right-handed vectors', 'cells:build'):
            box = am.Box(vects=v, origin=o)
        if box is None:
            continue
        TRUTH[id(box)] = v
        rec.count('cellkind:' + kind)
        rec.count(f'length-scale:{scale:g}')
        n_exp, d_exp = M.plane_normal(TRI, v)
        c_exp = M.cart_uvw(TRI, v)
        normals_N = None
        # --- plane normals, all three leading shapes
        for s, shape in enumerate(GI.SHAPES):
            typ = GI.TYPES[(i + s) % 3]
            meth = (i + s) % 2 == 0
            f = (lambda a: box.plane_crystal_to_cartesian(a)) if meth else (lambda a: miller.plane_crystal_to_cartesian(a, box))
            got = run_presented(ctx, f, TRI, shape, typ, 'plane normal is computed for every non-zero integer triple',
                                f'plane:exception:{shape}')
            if got is None:
                continue
            rec.count(f'exhaustive:plane-triples[-{m},{m}]^3:{shape}', ntri)
            rec.count('entry:plane:' + ('Box-method' if meth else 'stand-alone'))
            rec.count('type:' + typ)
            err = np.abs(got - n_exp).max(axis=1)
            bad = ~(err <= 1e-9)
            key = 'plane:normal:' + (M.zero_pattern(TRI[bad][0]) if bad.any() else '')
            rec.check(not bad.any(), 'plane normal is the unit vector along h a* + k b* + l c* (direct, all triples of the bound)',
                      key, indices=TRI[bad][:3], got=got[bad][:3], expected=n_exp[bad][:3], vects=v, shape=shape, type=typ)
            if shape == 'N':
                normals_N = got
        for p in M.ZERO_PATTERNS:
            rec.count('class:zero-pattern:' + p, pats.count(p))
        # --- zone law, both directions, over planes x directions of the bound
        if normals_N is not None:
            tolz = 1e-9 * L * 3 * m
            signed = normals_N @ c_exp.T                          # n_j . r_k for every plane x direction of the bound
            work = d_exp[:, None] * zonef                         # d_hkl (hu+kv+lw), oracle spacing
            np.subtract(signed, work, out=work)
            np.abs(work, out=work)
            worst = float(work.max())
            rec.check(worst <= tolz * (1 + zmax), 'n.[uvw] = d_hkl (hu+kv+lw)', 'zone:spacing', worst=worst, vects=v)
            dots = np.abs(signed, out=signed)
            din = dots[inzone]
            rec.check((din <= tolz).all(), 'the normal is perpendicular to every lattice vector with hu+kv+lw = 0',
                      'zone:in-zone-perpendicular', worst=float(din.max()), tol=tolz, vects=v)
            # |n.r| = d_hkl |hu+kv+lw| >= d_hkl off the zone: demand at least half the (oracle) spacing
            if d_exp.min() < 1e3 * tolz:
                rec.count('zone:exempt-spacing-near-tolerance')
            else:
                np.divide(dots, d_exp[:, None], out=dots)
                dots[inzone] = 1.0
                least = float(dots.min())
                rec.check(least >= 0.5, 'the normal is perpendicular to no lattice vector with hu+kv+lw != 0',
                          'zone:off-zone-not-perpendicular', least_over_spacing=least, vects=v)
            rec.count('zone:pairs-in-zone', n_in)
            rec.count('zone:pairs-off-zone', n_off)
            del signed, work, dots
        # --- the same cell shape at every other length scale: unit normals unchanged, directions scale with the cell
        if normals_N is not None:
            for s2 in SWEEP_SCALES[(i // 12) % 4]:
                if s2 == scale:
                    continue
                r = s2 / scale
                v2, o2 = v * r, o * r
                with ctx.guard('plane normal / direction in the same cell at another length scale', f'length-scale:{s2:g}:exception'):
                    box2 = am.Box(vects=v2, origin=o2)
                    TRUTH[id(box2)] = v2
                    try:
                        got2 = np.asarray(box2.plane_crystal_to_cartesian(TRI))          # also judged by the monitor against v2
                        gotv = np.asarray(miller.vector_crystal_to_cartesian(TRI, box2))
                    finally:
                        TRUTH.pop(id(box2), None)
                    e2 = np.abs(got2 - normals_N).max(axis=1) if got2.shape == normals_N.shape else np.array([np.inf])
                    bad = ~(e2 <= 1e-10)
                    rec.check(not bad.any(), 'the unit plane normal does not depend on the length scale of the cell (1e-10 .. 1e4)',
                              f'plane:length-scale:{s2:g}', indices=TRI[bad][:3] if bad.shape == (ntri,) else None,
                              got=got2[bad][:3] if bad.shape == (ntri,) else None, at_case_scale=normals_N[bad][:3] if bad.shape == (ntri,) else None,
                              vects=v2, case_scale=scale)
                    rec.close(1e-10 * L * r * (1 + m), gotv, c_exp * r, '[uvw] scales with the cell', f'vector:length-scale:{s2:g}', vects=v2)
                    rec.count('length-scale-sweep:cells')
                    rec.count(f'length-scale-sweep:{s2:g}')
        # --- directions, all three leading shapes
        for s, shape in enumerate(GI.SHAPES):
            typ = GI.TYPES[(i + s + 1) % 3]
            meth = (i + s) % 2 == 1
            f = (lambda a: box.vector_crystal_to_cartesian(a)) if meth else (lambda a: miller.vector_crystal_to_cartesian(a, box))
            got = run_presented(ctx, f, TRI, shape, typ, 'Cartesian vector is computed for every integer triple', f'vector:exception:{shape}')
            if got is None:
                continue
            rec.count(f'exhaustive:vector-triples[-{m},{m}]^3:{shape}', ntri)
            rec.close(1e-10 * L * (1 + m), got, c_exp, '[uvw] is u a + v b + w c (direct, all triples of the bound)',
                      'vector:cartesian:uvw', vects=v, origin=o, shape=shape, type=typ)
        # --- four-index notation
        if kind.startswith('hexagonal'):
            rec.count('hexagonal-cells')
            shape = GI.SHAPES[(i // 6) % 3]
            typ = GI.TYPES[(i // 18) % 3]
            rec.count('hexagonal-4index-shape:' + shape)
            got = run_presented(ctx, lambda a: box.vector_crystal_to_cartesian(a), Q, shape, typ,
                                'four-index direction is converted in a hexagonal cell', f'vector4:exception:{shape}')
            if got is not None:
                rec.count(f'exhaustive:uvtw-quadruples:{shape}', ntri)
                rec.close(1e-10 * L * (1 + 2 * m), got, M.cart_uvtw(Q, v), '[uvtw] = u a1 + v a2 + t a3 + w c with a3 = -(a1+a2)',
                          'vector:cartesian:uvtw', vects=v)
                with ctx.guard('vector4to3 then 3-index conversion', 'vector4:via3'):
                    via3 = box.vector_crystal_to_cartesian(miller.vector4to3(Q))
                    rec.close(1e-10 * L * (1 + 2 * m), got, via3, '[uvtw] and its three-index form are the same Cartesian vector',
                              'vector:same-direction:4vs3', vects=v)
            with ctx.guard('vector3to4 then 4-index conversion', 'vector3to4:cart'):
                frac4 = miller.vector3to4(TRI)
                got4 = box.vector_crystal_to_cartesian(frac4)
                rec.close(1e-10 * L * (1 + m), got4, c_exp, '[uvw] and vector3to4([uvw]) are the same Cartesian vector',
                          'vector:same-direction:3to4', vects=v)
            gotp = run_presented(ctx, lambda a: miller.plane_crystal_to_cartesian(a, box), Q, shape, typ,
                                 'four-index plane is converted in a hexagonal cell', f'plane4:exception:{shape}')
            if gotp is not None:
                rec.count(f'exhaustive:hkil-quadruples:{shape}', ntri)
                rec.close(1e-9, gotp, n_exp, '(hkil) and (hkl) have the same normal', 'plane:same-normal:4vs3', vects=v)
                judge_normals(rec, gotp, Q, v, 'direct')
        else:
            for name, f in (('vector', box.vector_crystal_to_cartesian), ('plane', box.plane_crystal_to_cartesian)):
                g = ctx.guard(f'4-index {name} in a non-hexagonal cell (documented refusal)', f'{name}4:nonhex', accept=(ValueError,))
                with g:
                    f([1, 0, -1, 0])
                    rec.count('nonhex-4index-not-refused')
        TRUTH.pop(id(box), None)


def group_index34(ctx, miller, TRI, m):
    rec = ctx.rec
    n = ctx.pick(18, 54)
    for i in ctx.cases('index34', n):
        rng = ctx.rng
        shape = GI.SHAPES[i % 3]
        typ = GI.TYPES[(i // 3) % 3]
        wide = (i // 9) % 2 == 1
        idx = TRI
        if wide:                                  # the enumerated set plus a wider random integer sample
            extra = rng.integers(-60, 61, (272, 3))
            extra = extra[np.abs(extra).sum(axis=1) != 0]
            idx = np.concatenate([TRI, extra])
        Q = quads_from(idx)
        big = 1 + np.abs(idx).max()
        rec.case(('index34', shape, typ, 'wide' if wide else 'bound'), nontrivial=True, fp=fingerprint(idx, shape, typ))
        if i < 6:
            rec.sample(dict(shape=shape, type=typ, rows=len(idx), first=idx[:3]))
        rec.count('shape:' + shape)
        rec.count(f'exhaustive:index34-triples[-{m},{m}]^3:{shape}', len(TRI))
        # planes
        p4 = run_presented(ctx, miller.plane3to4, idx, shape, typ, 'plane3to4 accepts (...,3) array-likes', 'plane3to4:exception')
        if p4 is not None:
            rec.close(0.0, p4, M.plane3to4(idx), '(hkl) -> (hkil) with i = -(h+k)', 'plane3to4:formula')
            back = run_presented(ctx, miller.plane4to3, p4, shape, 'float-array', 'plane4to3 accepts what plane3to4 returns', 'plane4to3:exception:roundtrip')
            if back is not None:
                rec.close(0.0, back, idx, 'plane 3->4->3 is the identity', 'plane:roundtrip:3-4-3')
        p3 = run_presented(ctx, miller.plane4to3, Q, shape, typ, 'plane4to3 accepts (...,4) array-likes with h+k+i=0', 'plane4to3:exception')
        if p3 is not None:
            rec.close(0.0, p3, M.plane4to3(Q), '(hkil) -> (hkl) keeps h, k, l', 'plane4to3:formula')
            back = run_presented(ctx, miller.plane3to4, p3, shape, 'float-array', 'plane3to4 accepts what plane4to3 returns', 'plane3to4:exception:roundtrip')
            if back is not None:
                rec.close(0.0, back, Q, 'plane 4->3->4 is the identity', 'plane:roundtrip:4-3-4')
        # vectors
        v4 = run_presented(ctx, miller.vector3to4, idx, shape, typ, 'vector3to4 accepts (...,3) array-likes', 'vector3to4:exception')
        if v4 is not None:
            rec.close(1e-14 * big, v4, M.vector3to4(idx), '[UVW] -> [uvtw]: the unique u+v+t=0 representation of U a1 + V a2 + W c',
                      'vector3to4:formula')
            rec.close(1e-14 * big, v4[:, :3].sum(axis=1), np.zeros(len(v4)), 'vector3to4 result satisfies u+v+t = 0', 'vector3to4:sum-rule')
            back = run_presented(ctx, miller.vector4to3, v4, shape, 'float-array', 'vector4to3 accepts what vector3to4 returns',
                                 'vector4to3:exception:roundtrip')
            if back is not None:
                rec.close(1e-13 * big, back, idx, 'vector 3->4->3 is the identity', 'vector:roundtrip:3-4-3')
        v3 = run_presented(ctx, miller.vector4to3, Q, shape, typ, 'vector4to3 accepts (...,4) array-likes with u+v+t=0', 'vector4to3:exception')
        if v3 is not None:
            rec.close(1e-13 * big, v3, M.vector4to3(Q), '[uvtw] -> [UVW] = [u-t, v-t, w]', 'vector4to3:formula')
            back = run_presented(ctx, miller.vector3to4, v3, shape, 'float-array', 'vector3to4 accepts what vector4to3 returns',
                                 'vector3to4:exception:roundtrip')
            if back is not None:
                rec.close(1e-13 * big, back, Q, 'vector 4->3->4 is the identity', 'vector:roundtrip:4-3-4')
        # quadruples breaking the sum rule must be refused, not silently truncated to three indices
        badQ = Q.copy()
        badQ[int(rng.integers(0, len(badQ))), 2] += int(rng.choice([-2, -1, 1, 2]))
        for name, f in (('plane4to3', miller.plane4to3), ('vector4to3', miller.vector4to3)):
            pieces = GI.present(badQ, shape)
            refused = 0
            for piece in pieces:
                try:
                    f(GI.as_type(piece, typ))
                except ValueError:
                    refused += 1
                except Exception as e:
                    rec.fail('a quadruple violating the sum rule is refused with ValueError', f'{name}:guard:other-exception', exception=e)
            rec.check(refused >= 1, 'a quadruple violating h+k+i=0 / u+v+t=0 is refused (no silent loss of the third index)',
                      f'{name}:guard')
            rec.count('sum-rule-refusals', refused)


def group_centring(ctx, miller, TRI, m):
    rec = ctx.rec
    p2c, c2p = miller.vector_primitive_to_conventional, miller.vector_conventional_to_primitive
    n = ctx.pick(48, 144)
    for i in ctx.cases('centring', n):
        setting = M.SETTINGS[i % 8]
        shape = GI.SHAPES[(i // 8) % 3]
        typ = GI.TYPES[(i // 8 + i % 8) % 3]
        npts = M.lattice_points_per_cell(setting)
        rec.case(('centring', setting, shape, typ), nontrivial=True, fp=fingerprint(setting, shape, typ, m))
        if i < 8:
            rec.sample(dict(setting=setting, shape=shape, type=typ, lattice_points_per_cell=npts))
        rec.count('setting:' + setting)
        rec.count(f'exhaustive:centring-triples[-{m},{m}]^3:{setting}', len(TRI))
        k = f'centring:{setting}'
        conv = run_presented(ctx, p2c, TRI, shape, typ, 'primitive->conventional accepts (...,3) array-likes', k + ':p2c:exception', (setting,))
        prim = run_presented(ctx, c2p, TRI, shape, typ, 'conventional->primitive accepts (...,3) array-likes', k + ':c2p:exception', (setting,))
        if conv is not None:
            back = run_presented(ctx, c2p, conv, shape, 'float-array', 'conventional->primitive accepts the other map\'s output',
                                 k + ':c2p:exception', (setting,))
            if back is not None:
                rec.close(1e-12 * (1 + m), back, TRI, 'conventional->primitive inverts primitive->conventional', k + ':inverse:p-c-p')
            rec.check(M.in_centred_lattice(conv, setting).all(),
                      'every integer primitive vector is a translation of the centred conventional lattice', k + ':p2c:lattice-member')
        if prim is not None:
            back = run_presented(ctx, p2c, prim, shape, 'float-array', 'primitive->conventional accepts the other map\'s output',
                                 k + ':p2c:exception', (setting,))
            if back is not None:
                rec.close(1e-12 * (1 + m), back, TRI, 'primitive->conventional inverts conventional->primitive', k + ':inverse:c-p-c')
            rec.close(1e-12 * (1 + 3 * m), prim, np.round(prim), 'every integer conventional vector has integer primitive indices',
                      k + ':c2p:integer')
        P = C = None
        with ctx.guard('conversion of the unit vectors', k + ':matrix:exception'):
            P = np.asarray(p2c(np.eye(3), setting), float)
            C = np.asarray(c2p(np.eye(3), setting), float)
        if P is None or C is None:
            continue
        if conv is not None:
            rec.close(1e-12 * (1 + m), conv, TRI @ P, 'primitive->conventional is linear', k + ':p2c:linear')
        if prim is not None:
            rec.close(1e-12 * (1 + 3 * m), prim, TRI @ C, 'conventional->primitive is linear', k + ':c2p:linear')
        rec.close(1e-12, P @ C, np.eye(3), 'the two conversion matrices are mutually inverse', k + ':inverse:matrices')
        rec.close(1e-12, np.linalg.det(P), 1.0 / npts, 'det(primitive->conventional) = 1 / (lattice points per conventional cell)', k + ':det:p2c')
        rec.close(1e-9, np.linalg.det(C), float(npts), 'det(conventional->primitive) = lattice points per conventional cell (an integer)', k + ':det:c2p')
        tr = M.centring_translations(setting)
        if len(tr):
            with ctx.guard('conversion of the centring translations', k + ':c2p:exception'):
                img = np.asarray(c2p(tr, setting), float)
                rec.close(1e-12, img, np.round(img), 'each centring translation has integer primitive indices', k + ':c2p:centring-integer')
        rec.count('monitor:centring-settings-judged')
        if i % 8 == 0:
            for f, nm in ((p2c, 'p2c'), (c2p, 'c2p')):
                with ctx.guard("bare 't' setting (refused by the code: t1/t2 are the supported names)", f'centring:t:{nm}', accept=(ValueError,)):
                    f([1, 0, 0], 't')
                    rec.count('setting:t-accepted')


def group_reduce(ctx, miller, TRI, m):
    rec = ctx.rec
    n = ctx.pick(32, 96)
    for i in ctx.cases('reduce', n):
        rng = ctx.rng
        shape = GI.SHAPES_SQ[i % 4]
        nterms = 3 + (i // 4) % 2
        typ = ('int-array', 'list')[(i // 8) % 2]
        mult = (i // 16) % 2 == 1
        idx = TRI if nterms == 3 else quads_from(TRI)
        if mult:
            idx = idx * rng.integers(1, 10, (len(idx), 1))
        rec.case(('reduce', shape, nterms, typ, 'multiplied' if mult else 'plain'), nontrivial=True, fp=fingerprint(idx, shape, typ))
        if i < 8:
            rec.sample(dict(shape=shape, terms=nterms, type=typ, rows=len(idx), first=idx[:3]))
        rec.count('reduce-shape:' + shape)
        rec.count(f'exhaustive:reduce-rows[-{m},{m}]^3:{shape}', len(idx))
        exp = M.reduce_rows(idx)
        key = KNOWN_MN if shape in ('MN', 'MM') else f'reduce:{shape}:{nterms}'
        got = run_presented(ctx, miller.reduce_indices, idx, shape, typ,
                            'reduce_indices accepts (...,3)/(...,4) integer arrays of any leading shape', key)
        if got is None:
            continue
        rec.count('monitor:reduce-judged:' + shape)
        rec.close(0.0, got, exp, 'reduce_indices returns the coprime indices of the same direction', key,
                  first_bad=idx[np.any(got != exp, axis=1)][:3], got_rows=got[np.any(got != exp, axis=1)][:3])
        gi = np.asarray(got)
        isint = np.all(gi == np.round(gi))
        rec.check(isint, 'reduced indices are integers', key)
        if isint:
            rec.check((M.row_gcds(gi.astype(int)) == 1).all(), 'reduced indices are coprime', key)
            g = M.row_gcds(idx)
            rec.check((gi.astype(int) * g[:, None] == idx).all(), 'input = positive integer multiple of the reduced indices (co-directed)', key)
    for i in ctx.cases('all_indices', ctx.pick(4, 6)):
        mm = 1 + i
        rec.case(('all_indices', mm), nontrivial=True, fp=fingerprint('all_indices', mm))
        with ctx.guard('all_indices', 'all_indices:exception'):
            a = np.asarray(miller.all_indices(mm))
            exp = M.all_triples(mm)
            ok = a.shape == exp.shape and set(map(tuple, a.tolist())) == set(map(tuple, exp.tolist()))
            rec.check(ok, 'all_indices(m) is every integer triple of [-m,m]^3 except 0, once', 'all_indices:plain', m=mm, got_shape=a.shape)
            r = np.asarray(miller.all_indices(mm, reduce=True))
            rexp = set(map(tuple, M.reduce_rows(exp).tolist()))
            ok = len(r) == len(rexp) and set(map(tuple, r.tolist())) == rexp
            rec.check(ok, 'all_indices(m, reduce=True) is the set of distinct coprime triples', 'all_indices:reduced', m=mm, got_shape=r.shape)


def group_strings(ctx, miller):
    rec = ctx.rec
    n = ctx.pick(680, 5440)
    for i in ctx.cases('strings', n):
        bracket, fraction, nterms = GS.stratified(i)
        s, exp, desc = GS.gen(ctx.rng, bracket, fraction, nterms)
        rec.case(('string', bracket, fraction, nterms), nontrivial=True, fp=fingerprint(s))
        if i < 40:
            rec.sample(dict(string=s, expected=[str(e) for e in exp]))
        rec.count('string-bracket:' + bracket)
        rec.count('string-fraction:' + fraction)
        rec.count(f'string-terms:{nterms}')
        key = f'fromstring:{bracket}:{fraction}'
        got = None
        with ctx.guard('fromstring parses every well-formed index string', key):
            got = miller.fromstring(s)
        if got is None:
            continue
        expf = np.array([float(e) for e in exp])
        rec.close(0.0, got, expf, 'fromstring returns the numbers shown (times the leading fraction)', key, rtol=1e-15, string=s)
        rec.count('monitor:strings-judged')


def build_family(am, fam, p):
    B = am.Box
    if fam == 'cubic':
        return B.cubic(p['a'])
    if fam == 'hexagonal':
        return B.hexagonal(p['a'], p['c'])
    if fam == 'tetragonal':
        return B.tetragonal(p['a'], p['c'])
    if fam == 'rhombohedral':
        return B.trigonal(p['a'], p['alpha'])
    if fam == 'orthorhombic':
        return B.orthorhombic(p['a'], p['b'], p['c'])
    if fam == 'monoclinic':
        return B.monoclinic(p['a'], p['b'], p['c'], p['beta'])
    if fam == 'triclinic':
        return B.triclinic(p['a'], p['b'], p['c'], p['alpha'], p['beta'], p['gamma'])
    raise ValueError(fam)


def group_families(ctx, am, cs):
    rec = ctx.rec
    n = ctx.pick(126, 1260)
    for i in ctx.cases('families', n):
        rng = ctx.rng
        fam = cells.FAMILIES[i % 7]
        scale = cells.SCALES[(i // 7) % 3]
        p = dict(cells.family_params(rng, fam))
        for kk in 'abc':
            p[kk] = float(p[kk] * scale)
        for kk in ('alpha', 'beta', 'gamma'):
            p[kk] = float(p[kk])
        rec.case(('family', fam, scale), nontrivial=True, fp=fingerprint(fam, p))
        if i < 21:
            rec.sample(dict(family=fam, params=p))
        box = None
        with ctx.guard(f'family constructor accepts generic {fam} parameters', f'family:{fam}:constructor'):
            box = build_family(am, fam, p)
        if box is None:
            continue
        rec.count('family:' + fam)
        got = [box.a, box.b, box.c, box.alpha, box.beta, box.gamma]
        want = [p[q] for q in ('a', 'b', 'c', 'alpha', 'beta', 'gamma')]
        rec.close(0.0, got, want, 'the constructor builds the cell with the lattice parameters given', f'family:{fam}:parameters',
                  rtol=1e-9)
        cl = 'a cell built by a family constructor is identified as that family'
        with ctx.guard('Box.identifyfamily', f'family:{fam}:Box.identifyfamily'):
            rec.check(box.identifyfamily() == fam, cl + ' (Box.identifyfamily)', f'family:{fam}:Box.identifyfamily', got=box.identifyfamily(), params=p)
        with ctx.guard('crystalsystem.identifyfamily', f'family:{fam}:crystalsystem.identifyfamily'):
            rec.check(cs.identifyfamily(box) == fam, cl + ' (tools.crystalsystem.identifyfamily)', f'family:{fam}:crystalsystem.identifyfamily',
                      got=cs.identifyfamily(box), params=p)
        for other in FAMILY_OF_PRED:
            with ctx.guard(f'Box.is{other}', f'family:{fam}:Box.is{other}'):
                r = bool(getattr(box, 'is' + other)())
                rec.check(r == (other == fam), 'exactly the predicate of the constructed family holds (Box.is<family>)',
                          f'family:{fam}:Box.is{other}', got=r, params=p)
            with ctx.guard(f'crystalsystem.is{other}', f'family:{fam}:crystalsystem.is{other}'):
                r = bool(getattr(cs, 'is' + other)(box))
                rec.check(r == (other == fam), 'exactly the predicate of the constructed family holds (tools.crystalsystem.is<family>)',
                          f'family:{fam}:crystalsystem.is{other}', got=r, params=p)
        rec.count('monitor:families-judged')


# ----------------------------------------------------------------------------- presentations (dtype / container / layout / magnitude)
PRESENT_FUNCS = ('plane3to4', 'plane4to3', 'vector3to4', 'vector4to3', 'p2c', 'c2p', 'reduce3', 'reduce4',
                 'vector-cart3', 'vector-cart4', 'plane-cart3', 'plane-cart4')
FOUR_INDEX = ('plane4to3', 'vector4to3', 'reduce4', 'vector-cart4', 'plane-cart4')
CL_SAME = ('the result does not depend on how the same integers are handed over (element type, container, leading shape, '
           'memory layout): it equals the result of the int64 call')
EPS = float(np.finfo(float).eps)


def _flat(outs, k):
    return np.concatenate([np.asarray(o, float).reshape(-1, k) for o in outs], axis=0)


def present_calls(ctx, f, base, ref_full, name, shape, layout, key, n_single, real_output=False, accept=()):
    """Call f on the presentation ``name``/``layout`` of the pieces of ``base`` in the leading shape asked for.
    ref_full: the rows f returned for the whole of ``base`` as one C-contiguous (N,k) int64 array.
    -> (rows int64, results, int64-call results, layout label) flattened over the pieces, or None."""
    rec = ctx.rec
    sel, gots = [], []
    lab = 'n/a'
    for piece, rows in GP.pieces(base, shape, ctx.rng, n_single):
        if real_output:
            arg, lab = piece, 'as-returned'
        else:
            arg, lab = GP.present(piece, name, layout)
        got = None
        g = ctx.guard('every presentation of an integer index array is accepted', key, accept=accept)
        with g:
            got = f(arg)
        if g.exc is not None and accept and isinstance(g.exc, tuple(accept)):
            rec.count('present:documented-refusal:' + type(g.exc).__name__)
            return None
        if got is None:
            return None
        got = np.asarray(got)
        if got.shape[:-1] != piece.shape[:-1] or got.shape[-1] != ref_full.shape[-1]:
            rec.fail(CL_SAME + ' (leading shape of the result = leading shape of the input)', key, got_shape=got.shape,
                     in_shape=piece.shape, presentation=name, layout=lab)
            return None
        sel.append(rows)
        gots.append(got)
    sel = np.concatenate(sel)
    return np.asarray(base)[sel], _flat(gots, ref_full.shape[-1]), ref_full[sel], lab


def group_present(ctx, am, miller, TRI, m):
    """Every index-taking function x element type / container x leading shape x memory layout x magnitude."""
    rec = ctx.rec
    NP = len(GP.NAMES)
    n = ctx.pick(2, 6) * 3 * NP
    n_single = ctx.pick(16, 40)
    p2c, c2p = miller.vector_primitive_to_conventional, miller.vector_conventional_to_primitive
    for i in ctx.cases('present', n):
        rng = ctx.rng
        name = GP.NAMES[i % NP]
        mag = GP.MAGS[(i // NP) % 3]
        rnd = i // (3 * NP)
        dcl = GP.dclass(name)
        scale = LENGTH_SCALES[(i + 3 * rnd) % 8]
        kind = CELL_KINDS[(i + 5 * rnd) % 12]
        oc = cells.ORIGINS[(i + rnd) % 3]
        cell = make_cell(rng, kind, oc, scale)
        hcell = make_cell(rng, ('hexagonal', 'hexagonal-rotated')[(i + rnd) % 2], oc, scale)
        box = hbox = None
        with ctx.guard('Box can be built from right-handed vectors', 'cells:build'):
            box = am.Box(vects=cell['vects'], origin=cell['origin'])
            hbox = am.Box(vects=hcell['vects'], origin=hcell['origin'])
        if box is None or hbox is None:
            continue
        TRUTH[id(box)], TRUTH[id(hbox)] = cell['vects'], hcell['vects']
        # --- index sets
        real_out = name == 'all_indices-output'
        if real_out:
            mm = {'bound': m, 'large': ctx.pick(7, 11), 'huge': m + 2}[mag]
            base = None
            with ctx.guard('all_indices', 'all_indices:exception'):
                base = np.asarray(miller.all_indices(mm, reduce=(mag == 'huge')))
            if base is None:
                continue
            if base.ndim != 2 or base.shape[1] != 3 or len(base) == 0 or base.dtype.kind not in 'iu':
                rec.fail('all_indices returns an (N,3) integer array', 'all_indices:plain', got_shape=base.shape, dtype=str(base.dtype))
                continue
            lin3 = pl3 = red3 = base
        else:
            nl = ctx.pick(360, 1500)
            lin3 = GP.triples(rng, name, mag, 'linear', m, nl, ctx.pick(240, 600))
            pl3 = lin3
            if mag == 'huge':
                pl3 = GP.triples(rng, name, mag, 'plane', m, nl, ctx.pick(240, 600))
            elif mag == 'large' and not ctx.quick:
                pl3 = GP.triples(rng, name, mag, 'plane', m, None, 0)           # thorough: the whole [-11,11]^3 cube
            red3 = GP.triples(rng, name, mag, 'reduce', m, nl, ctx.pick(240, 600)) if mag == 'huge' else lin3
        qname = 'int64' if real_out else name
        lin4, pl4, red4 = GP.quads(qname, lin3), GP.quads(qname, pl3), GP.quads(qname, red3)
        rec.case(('present', name, mag), nontrivial=True, fp=fingerprint(name, mag, lin3, pl3, cell['vects']))
        if rnd == 0 and mag != 'bound' and i % 5 == 0:
            rec.sample(dict(presentation=name, magnitude=mag, rows_linear=len(lin3), rows_plane=len(pl3), first_plane_rows=pl3[:3],
                            largest=int(np.abs(pl3).max()), cell_scale=scale))
        rec.count('present:' + name)
        rec.count(f'present-magnitude:{name}:{mag}')
        rec.count(f'present-length-scale:{scale:g}')
        prod = np.abs(pl3.astype(float).prod(axis=1))
        rec.count('present:plane-rows-with-|hkl|>127', int((prod > 127).sum()))
        rec.count('present:plane-rows-with-|hkl|>32767', int((prod > 32767).sum()))
        rec.count('present:plane-rows-with-|hkl|>2^31', int((prod > 2.0 ** 31).sum()))
        if name in ('int8', 'uint8', 'list-of-int8-scalars'):
            rec.count('present:8-bit-plane-rows-with-|hkl|>127', int((prod > 127).sum()))
        setting = M.SETTINGS[(i + rnd) % 8]
        Lc, Lh = cell['L'], hcell['L']
        table = {
            'plane3to4': (miller.plane3to4, lin3, M.plane3to4, 0.0, 0.0),
            'plane4to3': (miller.plane4to3, lin4, M.plane4to3, 0.0, 0.0),
            'vector3to4': (miller.vector3to4, lin3, M.vector3to4, 1.0, 1e-14),
            'vector4to3': (miller.vector4to3, lin4, M.vector4to3, 0.0, 0.0),
            'p2c': (lambda a: p2c(a, setting), lin3, None, 0.0, 0.0),
            'c2p': (lambda a: c2p(a, setting), lin3, None, 0.0, 0.0),
            'reduce3': (miller.reduce_indices, red3, M.reduce_rows, 0.0, 0.0),
            'reduce4': (miller.reduce_indices, red4, M.reduce_rows, 0.0, 0.0),
            'vector-cart3': ((lambda a: box.vector_crystal_to_cartesian(a)) if i % 2 else (lambda a: miller.vector_crystal_to_cartesian(a, box)),
                             lin3, None, 0.0, 0.0),
            'vector-cart4': ((lambda a: miller.vector_crystal_to_cartesian(a, hbox)) if i % 2 else (lambda a: hbox.vector_crystal_to_cartesian(a)),
                             lin4, None, 0.0, 0.0),
            'plane-cart3': ((lambda a: miller.plane_crystal_to_cartesian(a, box)) if i % 2 else (lambda a: box.plane_crystal_to_cartesian(a)),
                            pl3, None, 0.0, 0.0),
            'plane-cart4': ((lambda a: hbox.plane_crystal_to_cartesian(a)) if i % 2 else (lambda a: miller.plane_crystal_to_cartesian(a, hbox)),
                            pl4, None, 0.0, 0.0),
        }
        epsP = GP.eps_of(name)
        for j, fname in enumerate(PRESENT_FUNCS):
            f, base, oracle, narrow_div, otol = table[fname]
            if len(base) == 0:
                rec.count('present:empty-set:' + fname)
                continue
            key = f'present:{fname}:{dcl}:{mag}'
            isred = fname.startswith('reduce')
            accept = (TypeError,) if (isred and name in GP.FLOATS) else ()      # "An array of ints": float element types are refused
            realo = real_out and fname not in FOUR_INDEX          # the array exactly as all_indices returned it (and views of it)
            pname = 'int64' if real_out else name
            ref_full = None
            with ctx.guard('the int64 call succeeds', key):
                ref_full = np.asarray(f(np.array(base, dtype=np.int64, order='C')), float)
            if ref_full is None:
                continue
            if ref_full.shape[:-1] != (len(base),):
                rec.fail(CL_SAME + ' (leading shape of the result = leading shape of the input)', key, got_shape=ref_full.shape, in_shape=base.shape)
                continue
            for s, shape in enumerate(GP.SHAPES):
                layout = GP.LAYOUTS[(i + j + s + rnd) % len(GP.LAYOUTS)]
                r = present_calls(ctx, f, base, ref_full, pname, shape, layout, key, n_single, real_output=realo, accept=accept)
                if r is None:
                    continue
                rows, got, ref, lab = r
                big = 1.0 + float(np.abs(rows).max())
                # bound on |got - ref|: a few double round-offs of a result of size ~3*big (times the cell for Cartesian
                # results); for a narrow float element type the division by 3 of vector3to4 is done in that type
                if fname.startswith('plane-cart'):
                    tol = 1e-12
                elif fname.startswith('vector-cart'):
                    tol = 16 * EPS * big * (Lh if fname.endswith('4') else Lc)
                elif fname in ('p2c', 'c2p', 'vector3to4'):
                    tol = 16 * EPS * big + 4 * narrow_div * epsP * big
                else:
                    tol = 0.0
                err = np.abs(got - ref).max(axis=1)
                bad = ~(err <= tol)
                rec.check(not bad.any(), CL_SAME, key, function=fname, presentation=name, layout=lab, shape=shape, magnitude=mag,
                          indices=rows[bad][:3], got=got[bad][:3], int64_call=ref[bad][:3], tol=tol,
                          setting=setting if fname in ('p2c', 'c2p') else None)
                if oracle is not None:
                    exp = np.asarray(oracle(rows), float).reshape(got.shape)
                    e2 = np.abs(got - exp).max(axis=1)
                    b2 = ~(e2 <= otol * big + 4 * narrow_div * epsP * big)
                    rec.check(not b2.any(), ('reduce_indices' if isred else fname) + ': the value the notation defines, for every presentation of the indices',
                              key, function=fname, presentation=name, layout=lab, shape=shape, magnitude=mag, indices=rows[b2][:3],
                              got=got[b2][:3], expected=exp[b2][:3])
                rec.count(f'present:{fname}:{name}')
                rec.count('present-layout:' + lab)
                rec.count(f'present-layout:{fname}:{lab}')
                rec.count('present-shape:' + shape)
                rec.count('present:rows-compared', len(rows))
                if fname == 'plane-cart3':
                    rec.count(f'present:plane-cart3:{dcl}:{lab}')
                    if mag == 'large' and shape in ('N', 'MN'):
                        rec.count('present:plane-normal-large-rows', len(rows))
                        if not ctx.quick and not real_out:
                            rec.count(f'exhaustive:present-plane-normal[-11,11]^3:{name}:{shape}', len(rows))
            # centring: the two maps stay mutually inverse whatever the presentation
            if fname == 'p2c':
                with ctx.guard('centring round trip on a presented array', key):
                    arg, lab = (lin3, 'as-returned') if real_out else GP.present(lin3, name, GP.LAYOUTS[(i + rnd) % len(GP.LAYOUTS)])
                    back = np.asarray(c2p(p2c(arg, setting), setting), float)
                    big = 1.0 + float(np.abs(lin3).max())
                    rec.close(64 * EPS * big, back, lin3, 'conventional->primitive inverts primitive->conventional for every presentation',
                              key, setting=setting, presentation=name, layout=lab)
        # --- reduce at the most negative value of a signed element type (its gcd, 2**(bits-1), is not representable in that type)
        dt = GP.PRES[name][0]
        if dt is not None and np.dtype(dt).kind == 'i' and mag == 'huge':
            lo = int(np.iinfo(dt).min)
            rowsmin = np.array([[lo, 0, 0], [0, lo, lo], [lo, lo, lo], [lo, 0, lo], [lo, lo // 2, 0], [0, lo, lo // 4]], dtype=dt)
            expmin = np.array([[-1, 0, 0], [0, -1, -1], [-1, -1, -1], [-1, 0, -1], [-2, -1, 0], [0, -4, -1]])
            with ctx.guard('reduce_indices at the most negative representable index', 'reduce:dtype-minimum'):
                gotmin = np.asarray(miller.reduce_indices(rowsmin))
                rec.close(0.0, gotmin, expmin, 'reduce_indices returns the coprime indices of the same direction (rows holding the most '
                          'negative value of the element type)', 'reduce:dtype-minimum', element_type=name, rows=rowsmin)
            rec.count('present:reduce-dtype-minimum')
        # --- sum-rule guard: a quadruple whose h+k+i is a whole wrap-around of the element type is not a valid four-index set
        if dt is not None and np.dtype(dt).kind in 'iu' and np.dtype(dt).itemsize < 8 and mag == 'huge':
            wq = GP.wrapping_quads(rng, name)
            guards = (('plane4to3', miller.plane4to3), ('vector4to3', miller.vector4to3),
                      ('vector-cart4', lambda a: miller.vector_crystal_to_cartesian(a, hbox)),
                      ('plane-cart4', lambda a: miller.plane_crystal_to_cartesian(a, hbox)))
            for fname, f in guards:
                for arg in (wq.astype(dt), wq[0].astype(dt), GP.lay(wq.astype(dt), 'transposed')[0]):
                    refused = False
                    try:
                        f(arg)
                    except ValueError:
                        refused = True
                    except Exception as e:
                        rec.fail('a quadruple violating the sum rule is refused with ValueError', f'{fname}:guard:other-exception', exception=e)
                        refused = True
                    rec.check(refused, 'a quadruple violating h+k+i=0 / u+v+t=0 by a whole wrap-around of its element type is refused',
                              f'{fname}:guard:wrapping-sum:{dcl}', element_type=name, rows=np.asarray(arg).reshape(-1, 4)[:2])
                    rec.count('present:wrapping-sum-rule-refusals', int(refused))
        TRUTH.pop(id(box), None)
        TRUTH.pop(id(hbox), None)



# ----------------------------------------------------------------------------- run
def run(ctx):
    import atomman as am
    from atomman.tools import miller
    from atomman.tools import crystalsystem as cs
    rec = ctx.rec
    m = ctx.pick(4, 6)
    TRI = M.all_triples(m)
    assert len(TRI) == (2 * m + 1) ** 3 - 1

    real_plane = miller.plane_crystal_to_cartesian
    blines = branch_lines(real_plane)
    cover.start([MILLER_PY])
    install_monitors(rec, miller)

    group_cells(ctx, am, miller, TRI, m)
    group_index34(ctx, miller, TRI, m)
    group_centring(ctx, miller, TRI, m)
    group_reduce(ctx, miller, TRI, m)
    group_strings(ctx, miller)
    group_families(ctx, am, cs)
    group_present(ctx, am, miller, TRI, m)

    # reach: the seven zero-pattern branches of plane_crystal_to_cartesian
    rec.count('reach:plane-branches-located', 1 if len(blines) == 7 else 0)
    labels = M.ZERO_PATTERNS if len(blines) == 7 else [f'#{j}' for j in range(len(blines))]
    for lab, ln in zip(labels, blines):
        rec.count('reach:plane-branch:' + lab, 1 if cover.hit(MILLER_PY, ln) else 0)
    for k, v_ in monitor.calls.items():
        if isinstance(v_, int):
            rec.count('monitor_calls:' + k, v_)

    for lab in M.ZERO_PATTERNS:
        rec.floor('reach:plane-branch:' + lab, 1)
        rec.floor('class:zero-pattern:' + lab, 6)
    rec.floor('reach:plane-branches-located', 1)
    for shape in GI.SHAPES:
        rec.floor(f'exhaustive:plane-triples[-{m},{m}]^3:{shape}', 12 * len(TRI))
        rec.floor(f'exhaustive:vector-triples[-{m},{m}]^3:{shape}', 12 * len(TRI))
        rec.floor(f'exhaustive:index34-triples[-{m},{m}]^3:{shape}', len(TRI))
        rec.floor('reduce-shape:' + shape, 2)
        rec.floor('hexagonal-4index-shape:' + shape, 1)
    rec.floor('reduce-shape:MM', 2)
    for kind in set(CELL_KINDS):
        rec.floor('cellkind:' + kind, 2)
    rec.floor('hexagonal-cells', 4)
    rec.floor('monitor_calls:miller.plane_crystal_to_cartesian', 1000)
    rec.floor('monitor_calls:miller.vector_crystal_to_cartesian', 1000)
    rec.floor('monitor:plane-normals-judged', 24 * len(TRI))
    rec.floor('monitor:vectors-judged', 24 * len(TRI))
    rec.floor('zone:pairs-in-zone', 1000)
    rec.floor('zone:pairs-off-zone', 1000)
    rec.floor('sum-rule-refusals', 10)
    for s in M.SETTINGS:
        rec.floor('setting:' + s, 3)
    rec.floor('monitor:centring-settings-judged', 24)
    rec.floor('monitor:strings-judged', 300)
    for b in list(GS.BRACKETS) + ['bare']:
        rec.floor('string-bracket:' + b, 20)
    for f in GS.FRACTIONS:
        rec.floor('string-fraction:' + f, 40)
    rec.floor('string-terms:3', 100)
    rec.floor('string-terms:4', 100)
    for fam in cells.FAMILIES:
        rec.floor('family:' + fam, 6)
    rec.floor('monitor:families-judged', 60)
    # presentations: every function x element type / container, every magnitude, every memory layout, every leading shape
    for fname in PRESENT_FUNCS:
        for name in GP.NAMES:
            if fname.startswith('reduce') and name in GP.FLOATS:
                continue                                   # refused by the code ("An array of ints"), counted as refusal
            rec.floor(f'present:{fname}:{name}', 15)
        for lay in GP.LAYOUTS:
            rec.floor(f'present-layout:{fname}:{lay}', 10)
    for name in GP.NAMES:
        for mag in GP.MAGS:
            rec.floor(f'present-magnitude:{name}:{mag}', 2)
    for dcl in ('int64', 'float64', 'signed-narrow', 'unsigned', 'float-narrow'):
        for lay in GP.LAYOUTS:
            rec.floor(f'present:plane-cart3:{dcl}:{lay}', 2)
    rec.floor('present:plane-cart3:all_indices:as-returned', 6)
    for shape in GP.SHAPES:
        rec.floor('present-shape:' + shape, 1000)
    rec.floor('present:8-bit-plane-rows-with-|hkl|>127', 500)
    rec.floor('present:plane-rows-with-|hkl|>127', 5000)
    rec.floor('present:plane-rows-with-|hkl|>32767', 1000)
    rec.floor('present:plane-rows-with-|hkl|>2^31', 100)
    rec.floor('present:plane-normal-large-rows', 10000)
    rec.floor('present:wrapping-sum-rule-refusals', 100)
    rec.floor('present:reduce-dtype-minimum', 4)
    if not ctx.quick:
        for name in GP.NAMES:
            if name == 'all_indices-output':
                continue
            full = 12 ** 3 - 1 if name in GP.UNSIGNED else 23 ** 3 - 1
            rec.floor(f'exhaustive:present-plane-normal[-11,11]^3:{name}:N', full)
            rec.floor(f'exhaustive:present-plane-normal[-11,11]^3:{name}:MN', full)
    for sc in LENGTH_SCALES:
        rec.floor(f'length-scale:{sc:g}', 12)
        rec.floor(f'present-length-scale:{sc:g}', 6)
    rec.floor('length-scale-sweep:1e-10', 12)
    rec.floor('length-scale-sweep:10000', 12)
    rec.floor('length-scale-sweep:cells', 100)
