"""C17 - Analysis tools recover a known imposed deformation exactly.

Perfect reference crystals (built with numpy from lattice + basis) are given a
known deformation; every analysis tool of the property is run on the pair
(reference, deformed) and its result is compared with what the imposed
deformation dictates (vf/oracle/c17_deform.py).

Conventions (checked against the docstrings and the unchanged code):
* displacement(s0, s1) = x1 - x0 through the boundaries of the named box.
* Strain: rows Q G = P, so a homogeneous x -> F x gives G = F^-T; strain =
  sym(I - G), rotation = skew(I - G); Nye = -curl G, alpha_jk = -eps_jmi d_m G_ik.
* slip_vector: s_i = -sum_j [d_ij(1) - d_ij(0)], d_ij = x_j - x_i, hence for a rigid
  slip s_i = (u_own - u_other) * (number of neighbours of i in the other half).
* disregistry = displacement(above layer) - displacement(below layer).
* DifferentialDisplacement.ddvectors = d_ij(1) - d_ij(0) = u_j - u_i, listed atom by
  atom in neighbour-list order.
"""
from __future__ import annotations

import numpy as np

from ..core import fingerprint
from ..gen import c17_crystals as C
from ..oracle import c17_deform as O
from ..oracle import geometry as G
from .. import monitor

RULE = ('reference crystals: fcc/bcc/hcp/B2/L1_2 x 3 orientations (conventional, rotated orthogonal, rotated '
        'triclinic; built with numpy) x neighbour cutoffs after the 1st/2nd/3rd complete shell x cell sizes x box '
        'origin classes, all round-robin by case index.  Five groups: homogeneous F (6 classes incl. pure rotation, '
        '|F-I| <= 0.03) x 5 ways of giving the reference vectors; linearly varying correspondence field (Nye = -curl G); '
        'rigid slip of one half (3 plane normals x 4 slip classes x 3 periodicity classes x wrapped or not); imposed '
        'displacement fields (8 pbc settings x 3 box references x 5 field classes); legacy differential_displacement. '
        'Every strain/slip case is repeated under a common translation (then wrap) and/or a consistent renumbering. '
        'Round 4 - call histories: ONE Strain object read (12 ways), then changed (analysed system strained in place by box_set(scale) / '
        'by writing positions, reference exchanged by build_p_vectors / set_p_vectors, theta_max, nothing, clear_properties, '
        'deepcopy, caller overwrites what it was handed), solved again and read again (4 ways) x 5 ways of giving the '
        'reference (incl. the neighbors attribute of the systems); the nyefield object given a second correspondence field; '
        'slip_vector / disregistry / displacement / DifferentialDisplacement taken through a second slip state and back with '
        'the same System, NeighborList and argument objects (6 histories x 3 ways of giving the neighbours x m,n,planepos as '
        'ndarray/list/tuple); results kept by the caller are re-judged after the later calls. '
        'A case is non-trivial when the imposed deformation is not the identity / zero; distinct = distinct fingerprint '
        'of (positions, cell, deformation).')
ASSUMPTIONS = ['every periodic width of the cell exceeds 2(cutoff + largest imposed relative displacement)/0.9, so the '
               'nearest image of every neighbour separation is unique before and after the deformation',
               'neighbour cutoffs lie at the geometric mean of two successive shell radii whose ratio is >= 1.10, and '
               'neighbour sets contain no two collinear vectors (the p/q matching of Strain is by direction)',
               '|F - I|_Frobenius <= 0.03; slip planes lie 30-70 % of the way between two atomic layers',
               'the neighbour list itself is the subject of C03; here the oracle list only has to agree with it',
               'oracle shares numpy/LAPACK with the code under test',
               'call histories (round 4): every state an object or a pair of systems goes through satisfies the assumptions above '
               '(|F1 - I| <= 0.02 and |Fref - I| <= 0.01 so that F1.Fref^-1 stays within 0.03; second slip |s2| <= 0.7|s|, |s - s2| <= 0.9|s|, so '
               'that the pairs listed for one state keep a unique nearest image in the other); a change made behind an object\'s back '
               '(system edited in place, reference exchanged) is followed by solve_G() / solve() / clear_properties() before reading',
               'a caller may write to any array it was handed and may reuse an array it handed over once the call has returned '
               '(staged as known findings where the unchanged code keeps or hands out such arrays)']

T3 = (True, True, True)


# ====================================================================== helpers
class Scen:
    """A (reference, deformed) pair of atomic configurations."""

    def __init__(self, pos0, pos1, types, vects0, vects1, origin0, origin1, pbc, patom=None):
        self.pos0, self.pos1, self.types = np.array(pos0, float), np.array(pos1, float), np.array(types)
        self.vects0, self.vects1 = np.array(vects0, float), np.array(vects1, float)
        self.origin0, self.origin1 = np.array(origin0, float), np.array(origin1, float)
        self.pbc = tuple(bool(x) for x in pbc)
        self.patom = patom                      # per-atom reference vectors (n, k, 3) or None
        self.perm = np.arange(len(self.pos0))   # atom k of this scenario is atom perm[k] of the base scenario
        self.shift = np.zeros(3)
        self.kind = 'base'

    @property
    def n(self):
        return len(self.pos0)

    def systems(self, am):
        s0 = am.System(atoms=am.Atoms(atype=self.types.copy(), pos=self.pos0.copy()),
                       box=am.Box(vects=self.vects0.copy(), origin=self.origin0.copy()), pbc=self.pbc)
        s1 = am.System(atoms=am.Atoms(atype=self.types.copy(), pos=self.pos1.copy()),
                       box=am.Box(vects=self.vects1.copy(), origin=self.origin1.copy()), pbc=self.pbc)
        return s0, s1

    def variant(self, rng, kind):
        """Both systems translated together (then wrapped) and/or renumbered consistently."""
        v = Scen(self.pos0, self.pos1, self.types, self.vects0, self.vects1, self.origin0, self.origin1, self.pbc,
                 self.patom)
        v.kind = kind
        if kind in ('translate', 'both'):
            L = np.linalg.norm(self.vects0, axis=1).max()
            t = rng.uniform(-1, 1, 3) * L * rng.choice([0.05, 0.6])
            v.shift = t
            # along a non-periodic direction the cell moves with the atoms (they cannot be wrapped
            # and the neighbour list requires atoms inside the cell); along periodic ones the
            # cell stays and the atoms are wrapped back into it
            for vects, origin in ((v.vects0, v.origin0), (v.vects1, v.origin1)):
                rt = np.linalg.solve(vects.T, t)
                for k in range(3):
                    if not v.pbc[k]:
                        origin += rt[k] * vects[k]
            v.pos0 = C.wrap(v.pos0 + t, v.vects0, v.origin0, v.pbc)
            v.pos1 = C.wrap(v.pos1 + t, v.vects1, v.origin1, v.pbc)
        if kind in ('permute', 'both'):
            p = rng.permutation(self.n)
            v.perm = p
            v.pos0, v.pos1, v.types = v.pos0[p], v.pos1[p], v.types[p]
            if v.patom is not None:
                v.patom = v.patom[p]
        return v

    def unpermute(self, arr):
        out = np.empty_like(arr)
        out[self.perm] = arr
        return out


VARIANTS = ['translate', 'permute', 'both']


def pad_free(cry, pbc, frac=0.2):
    """Vacuum along the non-periodic directions: the cell vector is lengthened and the
    atoms keep their mutual positions (every tool requires atoms inside the cell, and a
    slipped half must not leave it)."""
    vects, pos = cry['vects'].copy(), cry['pos'].copy()
    for k in range(3):
        if not pbc[k]:
            pos += frac * vects[k]
            vects[k] = vects[k] * (1 + 2 * frac)
    cry['vects'], cry['pos'] = vects, pos
    return cry


def nl_equal(nl, nidx):
    """The real neighbour list holds exactly the oracle's pairs."""
    try:
        return all(np.array_equal(np.sort(np.asarray(nl[i])), nidx[i]) for i in range(len(nidx)))
    except Exception:
        return False


# ====================================================================== displacement monitor
def install_monitors(rec, am):
    """Postcondition on every call of atomman.displacement (also the internal one of disregistry)."""
    def post_disp(args, kwargs, result, exc, old):
        if exc is not None:
            return
        s0, s1 = args[0], args[1]
        ref = args[2] if len(args) > 2 else kwargs.get('box_reference', 'final')
        d = np.asarray(s1.atoms.pos) - np.asarray(s0.atoms.pos)
        if ref is None:
            rec.close(0.0, result, d, 'monitor: displacement(box_reference=None) is the plain difference', 'monitor:displacement:none')
            return
        rs = s1 if ref == 'final' else s0
        v, pbc = np.asarray(rs.box.vects), tuple(bool(x) for x in rs.pbc)
        ln, best, _ = G.min27(d, v, pbc)
        ok = ln < 0.98 * O.unique_image_radius(v, pbc)
        rec.count('monitor:displacement:rows', int(ok.sum()))
        rec.count('monitor:displacement:rows-exempt(no unique image)', int((~ok).sum()))
        L = np.linalg.norm(v, axis=1).max() + np.abs(np.asarray(s0.atoms.pos)).max(initial=0)
        res = np.asarray(result)
        if res.shape != d.shape:
            rec.fail('monitor: displacement is the separation through the boundaries of the reference box',
                     'monitor:displacement:shape', got_shape=res.shape)
            return
        rec.close(1e-11 * L, res[ok], best[ok], 'monitor: displacement is the separation through the boundaries of the reference box',
                  f'monitor:displacement:{ref}')

    real = am.displacement
    w, n = monitor.observe_function(real, post_disp, label='displacement')
    rec.count('monitor:displacement-aliases-patched', n)
    return w


# ====================================================================== group 1: homogeneous deformation
PSRC = ['base', 'base-nl', 'p-single', 'p-atom', 'p-axes']


def strat_strain(i):
    struct = C.STRUCTS[i % 5]
    orient = C.ORIENTS[(i // 5) % 3]
    fclass = C.FCLASSES[i % 6] if i % 30 != 29 else 'identity'
    if fclass == 'identity' and i % 30 != 29:
        fclass = 'general'                                   # identity only once per 30 cases
    psrc = PSRC[(i + i // 5) % 5]
    shell = (i // 3) % 3
    variant = VARIANTS[(i // 2) % 3]
    pbcclass = 'ppp' if (i // 4) % 4 else 'free-' + 'abc'[(i // 16) % 3]
    origin = ['zero', 'near', 'far'][(i // 7) % 3]
    size = (i // 11) % 3
    return dict(struct=struct, orient=orient, fclass=fclass, psrc=psrc, shell=shell, variant=variant,
                pbcclass=pbcclass, origin=origin, size=size)


def p_argument(cls, cry, sc, i):
    """(p_vectors, axes) for the p-vector ways of giving the reference."""
    same = all(len(v) == len(cry['site_vectors'][0]) and
               np.allclose(np.sort(v, axis=0), np.sort(cry['site_vectors'][0], axis=0), atol=1e-9)
               for v in cry['site_vectors'])
    if cls == 'p-single' and not same:
        cls = 'p-atom'                                       # hcp: two different environments
    if cls == 'p-single':
        p = cry['site_vectors'][0].copy()
        return ([p] if i % 2 else p), None, cls
    if cls == 'p-atom':
        return sc.patom.copy(), None, cls
    if cls == 'p-axes':
        svc = cry['site_vectors_crystal']
        axes = cry['R'] * np.array([1.0, 2.5, 0.5])[:, None]         # axes need not be unit vectors
        if same:
            return svc[0].copy(), axes, cls
        site = np.asarray(cry['site'])[sc.perm]
        return np.array([svc[s] for s in site]), axes, cls
    raise ValueError(cls)


def strain_outputs(ctx, am, cls, cry, sc, cutoff, theta, i, tag):
    """Run Strain (and the legacy nye_tensor where it applies) on one scenario."""
    rec = ctx.rec
    out = {}
    s0, s1 = sc.systems(am)
    st = None
    if cls in ('p-single', 'p-atom', 'p-axes'):
        p, axes, cls2 = p_argument(cls, cry, sc, i)
        if cls2 == 'p-single':
            # one list of reference vectors for all atoms (documented form)
            rec.count('strain:p-single:attempted-without-axes')
            try:
                am.defect.Strain(s1, cutoff=cutoff, p_vectors=p, theta_max=theta).G
                rec.count('strain:p-single:solved-without-axes')
            except ValueError as e:
                if 'read-only' in str(e):
                    rec.fail('Strain accepts one list of reference vectors for all atoms',
                             'strain:p-single:read-only-buffer', exception=e)
                    axes = np.eye(3)            # the same list goes through when axes are given: keep checking the values
                else:
                    rec.fail('Strain accepts one list of reference vectors for all atoms', 'strain:p-single:build', exception=e)
            except Exception as e:
                rec.fail('Strain accepts one list of reference vectors for all atoms', 'strain:p-single:build', exception=e)
    with ctx.guard('Strain can be built and solved for a homogeneously deformed crystal', f'strain:{cls}:build'):
        if cls == 'base':
            st = am.defect.Strain(s1, cutoff=cutoff, basesystem=s0, theta_max=theta)
        elif cls == 'base-nl':
            nl1 = s1.neighborlist(cutoff=cutoff)
            nl0 = s0.neighborlist(cutoff=cutoff)
            st = am.defect.Strain(s1, neighbors=nl1, basesystem=s0, baseneighbors=nl0, theta_max=theta)
        else:
            pkeep = [np.array(x) for x in p]
            st = am.defect.Strain(s1, cutoff=cutoff, p_vectors=p, axes=axes, theta_max=theta)
            out['p'], out['axes'] = p, axes
        out['G'] = np.array(st.G)
        out['strain'] = np.array(st.strain)
        out['rotation'] = np.array(st.rotation)
        out['invariant1'] = np.array(st.invariant1)
        out['invariant2'] = np.array(st.invariant2)
        out['invariant3'] = np.array(st.invariant3)
        out['angularvelocity'] = np.array(st.angularvelocity)
        out['nye'] = np.array(st.nye)
        out['neighbors'] = st.neighbors
        rec.count('strain:solved')
        rec.count(f'reach:{ctx.flavour}:Strain')
    if 'nye' not in out:
        return None
    if 'p' in out or all(sc.pbc):
        # legacy function on the same input
        if 'p' in out:
            p, axes = out['p'], out['axes']
        else:
            p, axes = sc.patom.copy(), None
        with ctx.guard('nye_tensor (legacy) can be evaluated for a homogeneously deformed crystal', f'legacy:{cls}:call'):
            leg = am.defect.nye_tensor(s1, p, theta_max=theta, axes=axes, cutoff=cutoff)
            out['legacy'] = {k: np.array(v) for k, v in leg.items()}
            rec.count('legacy:solved')
    if 'p' in out:
        # (round 4) the reference vectors are an argument: Strain and nye_tensor leave them as they were
        rec.check(len(out['p']) == len(pkeep) and all(np.array_equal(np.asarray(x), y) for x, y in zip(out['p'], pkeep)),
                  'Strain and nye_tensor leave the reference vectors they were handed as they were', f'strain:{cls}:p-argument-changed')
        rec.count('strain:p-argument-compared')
    return out


LEGACY_KEYS = {'strain': 'strain', 'strain_invariant_1': 'invariant1', 'strain_invariant_2': 'invariant2',
               'strain_invariant_3': 'invariant3', 'angular_velocity': 'angularvelocity', 'Nye_tensor': 'nye'}


def check_strain(rec, out, F, sc, a, ok_atoms, cls, tag):
    """Every clause of the homogeneous-deformation part against the oracle."""
    n = sc.n
    Gexp = O.G_from_F(F)
    e = O.strain_from_G(Gexp)
    r = O.rotation_from_G(Gexp)
    i1, i2, i3 = O.invariants(e)
    av = O.angular_velocity(r)
    m = ok_atoms
    rec.count('strain:atoms-checked', int(m.sum()))
    rec.count('strain:atoms-exempt(neighbour vectors do not span space)', int((~m).sum()))
    k = f'{tag}{cls}'

    def full(x):
        return np.broadcast_to(x, (int(m.sum()),) + np.shape(x))
    if out['G'].shape != (n, 3, 3):
        rec.fail('G has one 3x3 tensor per atom', f'strain:{k}:G-shape', got=out['G'].shape)
        return
    rec.close(1e-9, out['G'][m], full(Gexp), 'homogeneous F: G equals the inverse transpose of F at every atom', f'strain:{k}:G', F=F)
    rec.close(1e-9, out['strain'][m], full(e), 'strain is the symmetric part of I - G (G = F^-T)', f'strain:{k}:strain', F=F)
    rec.close(1e-9, out['rotation'][m], full(r), 'rotation is the antisymmetric part of I - G (G = F^-T)', f'strain:{k}:rotation', F=F)
    rec.close(1e-9, out['invariant1'][m], full(i1), 'first invariant is the trace of the strain', f'strain:{k}:invariant1')
    rec.close(1e-10, out['invariant2'][m], full(i2), 'second invariant is (tr^2 - tr(e.e))/2 of the strain', f'strain:{k}:invariant2')
    rec.close(1e-11, out['invariant3'][m], full(i3), 'third invariant is the determinant of the strain', f'strain:{k}:invariant3')
    rec.close(1e-9, out['angularvelocity'][m], full(av), 'angular velocity is the length of the axial vector of the rotation', f'strain:{k}:angularvelocity')
    # the derived quantities follow from the tool's own G as well (any G, not only the expected one)
    rec.close(1e-12, out['strain'], O.strain_from_G(out['G']), 'strain follows from the returned G', f'strain:{k}:strain-of-G')
    rec.close(1e-12, out['rotation'], O.rotation_from_G(out['G']), 'rotation follows from the returned G', f'strain:{k}:rotation-of-G')
    j1, j2, j3 = O.invariants(out['strain'])
    rec.close(1e-12, out['invariant1'], j1, 'invariants follow from the returned strain', f'strain:{k}:inv1-of-strain')
    rec.close(1e-12, out['invariant2'], j2, 'invariants follow from the returned strain', f'strain:{k}:inv2-of-strain')
    rec.close(1e-12, out['invariant3'], j3, 'invariants follow from the returned strain', f'strain:{k}:inv3-of-strain')
    rec.close(1e-12, out['angularvelocity'], O.angular_velocity(out['rotation']), 'angular velocity follows from the returned rotation', f'strain:{k}:angvel-of-rotation')
    # Nye tensor vanishes where the atom and all its neighbours have a determined G
    mn = m.copy()
    for i in range(n):
        if m[i] and not m[np.asarray(out['neighbors'][i], int)].all():
            mn[i] = False
    rec.count('nye:atoms-checked(homogeneous)', int(mn.sum()))
    if out['nye'].shape != (n, 3, 3):
        rec.fail('Nye tensor has one 3x3 tensor per atom', f'strain:{k}:nye-shape', got=out['nye'].shape)
    else:
        rec.close(1e-8 / a, out['nye'][mn], np.zeros((int(mn.sum()), 3, 3)), 'homogeneous F: the Nye tensor vanishes', f'strain:{k}:nye', F=F)
    leg = out.get('legacy')
    if leg is not None:
        exp = dict(strain=e, invariant1=i1, invariant2=i2, invariant3=i3, angularvelocity=av, nye=np.zeros((3, 3)))
        tol = dict(strain=1e-9, invariant1=1e-9, invariant2=1e-10, invariant3=1e-11, angularvelocity=1e-9, nye=1e-8 / a)
        for lk, nk in LEGACY_KEYS.items():
            if lk not in leg:
                rec.fail('legacy nye_tensor returns strain, the three invariants, angular velocity and Nye tensor', f'legacy:{k}:missing-{nk}')
                continue
            mm = mn if nk == 'nye' else m
            if leg[lk].shape[:1] != (n,):
                rec.fail('legacy nye_tensor returns per-atom arrays', f'legacy:{k}:{nk}-shape', got=leg[lk].shape)
                continue
            rec.close(tol[nk], leg[lk][mm], np.broadcast_to(exp[nk], (int(mm.sum()),) + np.shape(exp[nk])),
                      f'legacy nye_tensor: {nk} of a homogeneous deformation', f'legacy:{k}:{nk}', F=F)


def run_strain_case(ctx, am, i):
    rec, rng = ctx.rec, ctx.rng
    cl = strat_strain(i)
    shrink = ctx.flavour == 'asan'
    cry = C.gen_crystal(rng, cl['struct'], cl['orient'], cl['shell'], 0 if shrink else cl['size'], cl['origin'],
                        need=2.45, maxatoms=500 if ctx.quick or shrink else 1200)
    F = C.gen_F(rng, cl['fclass'])
    pbc = T3 if cl['pbcclass'] == 'ppp' else tuple(k != 'abc'.index(cl['pbcclass'][-1]) for k in range(3))
    cry = pad_free(cry, pbc)
    cutoff, a = cry['cutoff'], cry['a']
    theta = [27, 27, 20, 35][int(rng.integers(0, 4))]
    pos0 = cry['pos']
    sc = Scen(pos0, pos0 @ F.T, cry['types'], cry['vects'], cry['vects'] @ F.T, cry['origin'], F @ cry['origin'], pbc,
              patom=np.array([cry['site_vectors'][s] for s in cry['site']]))
    rec.case(('strain', cl['struct'], cl['orient'], 'shell%d' % cry['shell']['nshell'], cl['fclass'], cl['psrc'], cl['pbcclass'], cl['variant']),
             nontrivial=cl['fclass'] != 'identity', fp=fingerprint(pos0, cry['vects'], F))
    for k_, v_ in cl.items():
        rec.count(f'class:strain:{k_}={v_}')
    if i < 12:
        rec.sample(dict(classes=cl, natoms=sc.n, cutoff=cutoff, shell=cry['shell'], F=F, mults=cry['mults'], a=a, theta_max=theta))
    # oracle neighbourhood of the reference
    nidx, nvec, margin = O.neighbours(sc.pos0, sc.vects0, sc.pbc, cutoff)
    if margin < 0.035 * cutoff or not O.no_double_images(nidx):
        rec.count('strain:case-exempt(pair too near the cutoff)')
        return
    if min(len(x) for x in nidx) < 2:
        rec.count('strain:case-exempt(free-surface atom with a single neighbour)')
        return
    ok = np.array([len(v) >= 3 and np.linalg.matrix_rank(v, tol=1e-6 * a) == 3 and np.linalg.cond(v) < 50 for v in nvec])
    results = {}
    for sv in (sc, sc.variant(rng, cl['variant'])):
        out = strain_outputs(ctx, am, cl['psrc'], cry, sv, cutoff, theta, i, sv.kind)
        if out is None:
            continue
        same_nl = nl_equal(out['neighbors'], [np.sort(np.argsort(sv.perm)[nidx[j]]) for j in sv.perm])
        rec.check(same_nl, 'the neighbour list of the deformed crystal holds the pairs of the complete shells', 'strain:neighbours')
        okv = ok[sv.perm]
        check_strain(rec, out, F, sv, a, okv, cl['psrc'], '' if sv.kind == 'base' else 'variant:')
        results[sv.kind] = (sv, out)
        rec.count(f'strain:evaluated:{sv.kind}')
    if 'base' in results and len(results) == 2:
        sv, outv = [v for k, v in results.items() if k != 'base'][0]
        outb = results['base'][1]
        for name, tol in (('G', 1e-9), ('strain', 1e-9), ('rotation', 1e-9), ('invariant1', 1e-9), ('invariant2', 1e-10),
                          ('invariant3', 1e-11), ('angularvelocity', 1e-9), ('nye', 1e-8 / a)):
            rec.close(tol, sv.unpermute(outv[name])[ok], outb[name][ok],
                      f'Strain results are unchanged by a common translation / consistent renumbering ({name})',
                      f'invariance:{sv.kind}:strain:{name}')
        rec.count(f'invariance:strain:{sv.kind}')


# ====================================================================== group 2: linear correspondence field
def run_nyefield_case(ctx, am, i):
    rec, rng = ctx.rec, ctx.rng
    struct = C.STRUCTS[i % 5]
    orient = C.ORIENTS[(i // 5) % 3]
    shell = (i // 2) % 3
    pbc = T3 if i % 2 else (False, False, False)
    how = ['Strain', 'Strain+legacy'][(i // 2) % 2]
    for sh in range(shell, 3):
        cry = C.gen_crystal(np.random.default_rng([ctx.seed, 17, i, sh]), struct, orient, sh, 0, ['zero', 'near'][(i // 3) % 2],
                            need=3.2 if all(pbc) else 2.2, maxatoms=450)
        nidx, nvec, margin = O.neighbours(cry['pos'], cry['vects'], pbc, cry['cutoff'])
        if min(len(x) for x in nidx) >= 2:
            break
        # an atom with a single neighbour (corner of a free block, first shell only) is outside the
        # quantifier (perfect crystal environments): take the next shell instead
        rec.count('nyefield:shell-raised(single-neighbour corner atoms)')
    a, cutoff = cry['a'], cry['cutoff']
    pos = cry['pos']
    n = len(pos)
    xc = pos.mean(axis=0)
    A = rng.normal(size=(3, 3, 3))
    if i % 4 == 3:                                           # a single non-zero gradient component: one Nye entry
        A[:] = 0
        A[tuple(rng.integers(0, 3, 3))] = 1.0
    ext = np.abs(pos - xc).max()
    A *= rng.uniform(0.01, 0.04) / (np.abs(A).sum(axis=2).max() * ext)
    Gi = np.eye(3) + np.einsum('abm,nm->nab', A, pos - xc)
    sitev = cry['site_vectors']
    patom = np.array([sitev[s] @ Gi[k] for k, s in enumerate(cry['site'])])       # P = Q G
    rec.case(('nyefield', struct, orient, 'shell%d' % cry['shell']['nshell'], 'ppp' if all(pbc) else 'fff', how),
             nontrivial=True, fp=fingerprint(pos, A))
    rec.count(f'class:nyefield:pbc={"ppp" if all(pbc) else "fff"}')
    if i < 6:
        rec.sample(dict(struct=struct, orient=orient, natoms=n, cutoff=cutoff, pbc=pbc, gradG=A, expected_nye=O.nye_from_gradient(A)))
    ok = np.array([len(v) >= 3 and np.linalg.matrix_rank(v, tol=1e-6 * a) == 3 and np.linalg.cond(v) < 50 for v in nvec])
    interior = ok.copy()
    for k in range(n):
        if ok[k]:
            direct = np.abs((pos[nidx[k]] - pos[k]) - nvec[k]).max() < 1e-8
            if not (direct and ok[nidx[k]].all() and len(nidx[k]) >= 4 and np.linalg.cond(nvec[k]) < 50):
                interior[k] = False
    sc = Scen(pos, pos, cry['types'], cry['vects'], cry['vects'], cry['origin'], cry['origin'], pbc, patom=patom)
    s0, _ = sc.systems(am)
    nye_exp = O.nye_from_gradient(A)
    scale = np.abs(A).max()
    st_nye = None
    with ctx.guard('Strain accepts per-atom reference vectors', 'nyefield:Strain'):
        st = am.defect.Strain(s0, cutoff=cutoff, p_vectors=patom.copy())
        Gm = np.array(st.G)
        st_nye = np.array(st.nye)
    if st_nye is not None:
        rec.close(1e-9, Gm[ok], Gi[ok], 'per-atom reference vectors p = q.G_i: the returned G is G_i', 'nyefield:G')
        rec.close(1e-8 / a, st_nye[interior], np.broadcast_to(nye_exp, (int(interior.sum()), 3, 3)),
                  'linearly varying G: Nye tensor equals -curl G (alpha_jk = -eps_jmi d_m G_ik)', 'nyefield:nye', gradG=A,
                  rel_scale=scale)
        rec.count('nye:atoms-checked(linear field)', int(interior.sum()))
        rec.count('nye:nonzero-components-checked', int((np.abs(nye_exp) > 1e-3 * scale).sum()) * int(interior.sum() > 0))
        # (round 4) the same object is handed a second set of reference vectors (another correspondence field) and solved again
        A2 = rng.normal(size=(3, 3, 3))
        A2 *= rng.uniform(0.01, 0.04) / (np.abs(A2).sum(axis=2).max() * ext)
        Gi2 = np.eye(3) + np.einsum('abm,nm->nab', A2, pos - xc)
        patom2 = np.array([sitev[s] @ Gi2[k] for k, s in enumerate(cry['site'])])
        how2 = ['solve_G()', 'clear_properties()', 'solve_G(theta_max)'][i % 3]
        kept_nye, kept_G = st.nye, st.G
        G2 = nye2 = None
        with ctx.guard('a Strain object accepts new reference vectors and can be solved again', f'nyefield:reset:{how2}'):
            st.set_p_vectors([np.array(x) for x in patom2] if (i // 3) % 2 else patom2.copy())
            if how2 == 'solve_G()':
                st.solve_G()
            elif how2 == 'clear_properties()':
                st.clear_properties()
            else:
                st.solve_G(theta_max=27.0)
            if i % 2:
                nye2, G2 = np.array(st.nye), np.array(st.G)
            else:
                G2, nye2 = np.array(st.G), np.array(st.nye)
        if G2 is not None and nye2 is not None:
            rec.close(1e-9, G2[ok], Gi2[ok], 'new per-atom reference vectors p = q.G_i on the same object: the returned G is the new G_i',
                      f'nyefield:reset:{how2}:G')
            rec.close(1e-8 / a, nye2[interior], np.broadcast_to(O.nye_from_gradient(A2), (int(interior.sum()), 3, 3)),
                      'new reference vectors on the same object: the Nye tensor is -curl of the new G field', f'nyefield:reset:{how2}:nye',
                      gradG=A2)
            rec.check(np.array_equal(kept_nye, st_nye) and np.array_equal(kept_G, Gm),
                      'results handed out before are not overwritten by a later solve', f'nyefield:reset:{how2}:kept')
            rec.count(f'nyefield:reset:{how2}')
            rec.count('nye:atoms-checked(linear field, second reference)', int(interior.sum()))
    if how == 'Strain+legacy':
        leg = None
        with ctx.guard('legacy nye_tensor accepts per-atom reference vectors', 'nyefield:legacy'):
            leg = am.defect.nye_tensor(s0, patom.copy(), cutoff=cutoff)
        if leg is not None:
            rec.close(1e-8 / a, np.asarray(leg['Nye_tensor'])[interior], np.broadcast_to(nye_exp, (int(interior.sum()), 3, 3)),
                      'legacy nye_tensor: linearly varying G gives -curl G', 'nyefield:legacy-nye', gradG=A)
            rec.close(1e-9, np.asarray(leg['strain'])[ok], O.strain_from_G(Gi)[ok], 'legacy nye_tensor: strain of per-atom G_i', 'nyefield:legacy-strain')
            rec.count('nye:atoms-checked(linear field, legacy)', int(interior.sum()))


# ====================================================================== group 3: rigid slip
PBCC = ['ppp', 'normal-free', 'inplane-free']


def strat_slip(i):
    struct = C.STRUCTS[i % 5]
    orient = C.ORIENTS[(i // 5) % 3]
    axis = (i + i // 3) % 3
    sclass = C.SCLASSES[i % 4]
    pbcclass = PBCC[(i // 4) % 3]
    wrapped = bool((i // 2) % 2)
    shell = (i // 6) % 2
    variant = VARIANTS[(i // 2 + i // 12) % 3]
    origin = ['zero', 'near', 'far'][(i // 7) % 3]
    ref = (i // 3) % 2
    return dict(struct=struct, orient=orient, axis=axis, sclass=sclass, pbcclass=pbcclass, wrapped=wrapped, shell=shell,
                variant=variant, origin=origin, ref=ref)


def slip_outputs(ctx, am, sc, cutoff, cl, sl, i, planepos, m_vec, do_dis):
    rec = ctx.rec
    s0, s1 = sc.systems(am)
    out = {}
    with ctx.guard('slip_vector can be evaluated for a rigidly slipped crystal', 'slip:call'):
        if i % 2:
            out['nl0'] = s0.neighborlist(cutoff=cutoff)
            out['slip'] = np.array(am.defect.slip_vector(s0, s1, neighbors=out['nl0']))
        else:
            out['slip'] = np.array(am.defect.slip_vector(s0, s1, cutoff=cutoff))
        rec.count('slip:evaluated')
        rec.count(f'reach:{ctx.flavour}:slip_vector')
    if do_dis:
        with ctx.guard('disregistry can be evaluated for a slip plane between two atomic layers', 'disregistry:call'):
            if cl.get('defaults'):
                coord, dis = am.defect.disregistry(s0, s1, planepos=planepos)
            else:
                coord, dis = am.defect.disregistry(s0, s1, m=m_vec, n=sl['n'], planepos=planepos)
            out['coord'], out['dis'] = np.array(coord), np.array(dis)
            rec.count('disregistry:evaluated')
    with ctx.guard('DifferentialDisplacement can be solved for a rigidly slipped crystal', 'dd:call'):
        how = i % 3
        if how == 0:
            dd = am.defect.DifferentialDisplacement(s0, s1, cutoff=cutoff, reference=cl['ref'])
        elif how == 1:
            ref_sys = s0 if cl['ref'] == 0 else s1
            dd = am.defect.DifferentialDisplacement(s0, s1, neighbors=ref_sys.neighborlist(cutoff=cutoff), reference=cl['ref'])
        else:
            dd = am.defect.DifferentialDisplacement(s0, s1, reference=cl['ref'])
            dd.solve(cutoff=cutoff)
        out['dd'] = np.array(dd.ddvectors)
        out['ddnl'] = [np.asarray(dd.neighbors[k], int) for k in range(sc.n)]
        out['ddref'] = dd.reference
        rec.count('dd:evaluated')
    return out


def check_slip(rec, out, sc, sl, nidx, expected, nacross, u, cutoff, cl, tag, m_vec, a):
    n = sc.n
    s = sl['s']
    upper = sl['upper'][sc.perm]
    uu = u[sc.perm]
    if 'slip' in out:
        sv = out['slip']
        if sv.shape != (n, 3):
            rec.fail('slip_vector returns one vector per atom', f'slip:{tag}shape', got=sv.shape)
        else:
            e = expected[sc.perm]
            k = nacross[sc.perm]
            at = k > 0
            rec.close(1e-9 * (1 + k.max()), sv[at], e[at],
                      'slip vector = (own-half displacement - other-half displacement) x number of neighbours across the plane',
                      f'slip:{tag}{cl["pbcclass"]}:at-plane', s=s, pbc=sc.pbc, wrapped=cl['wrapped'])
            rec.close(1e-9, sv[~at], e[~at], 'slip vector is zero away from the slip plane', f'slip:{tag}{cl["pbcclass"]}:away', s=s, pbc=sc.pbc)
            rec.count('slip:atoms-at-plane', int(at.sum()))
            rec.count('slip:atoms-away', int((~at).sum()))
            if cl['pbcclass'] != 'normal-free' and at.any():
                rec.count('slip:atoms-across-periodic-boundary-plane')
        if 'nl0' in out:
            rec.check(nl_equal(out['nl0'], [np.sort(np.argsort(sc.perm)[nidx[j]]) for j in sc.perm]),
                      'the neighbour list of the reference crystal holds the pairs of the complete shells', 'slip:neighbours')
    if 'dis' in out:
        coord, dis = out['coord'], out['dis']
        okshape = dis.ndim == 2 and dis.shape[1:] == (3,) and coord.shape == (len(dis),) and len(dis) > 0
        rec.check(okshape, 'disregistry returns N coordinates and an (N,3) array', f'disregistry:{tag}shape', got=(coord.shape, dis.shape))
        if okshape:
            rec.close(1e-9, dis, np.broadcast_to(s, dis.shape), 'disregistry across the slip plane equals the imposed slip',
                      f'disregistry:{tag}value', s=s, wrapped=cl['wrapped'], pbc=sc.pbc)
            # the coordinates are those of the atoms in the two layers adjoining the plane
            h = (sc.pos0 - sc.origin0) @ sl['n']
            hp = (out['planepos'] - sc.origin0) @ sl['n']
            above = h[h > hp].min()
            below = h[h < hp].max()
            adj = (np.abs(h - above) < 1e-6) | (np.abs(h - below) < 1e-6)
            xs = sc.pos0[adj] @ out['m']
            d1 = np.abs(coord[:, None] - xs[None, :]).min(axis=1).max()
            d2 = np.abs(coord[:, None] - xs[None, :]).min(axis=0).max()
            rec.check(max(d1, d2) < 1e-7, 'disregistry coordinates are the m-coordinates of the atoms adjoining the slip plane',
                      f'disregistry:{tag}coord', err=(d1, d2), ncoord=len(coord))
            rec.check(bool(np.all(np.diff(coord) > 0)), 'disregistry coordinates are increasing', f'disregistry:{tag}coord-sorted')
            rec.count('disregistry:rows-checked', len(dis))
    if 'dd' in out:
        nl = out['ddnl']
        exp = np.concatenate([uu[nl[k]] - uu[k] for k in range(n) if len(nl[k])] or [np.zeros((0, 3))])
        dd = out['dd']
        if dd.shape != exp.shape:
            rec.fail('ddvectors lists one vector per neighbour pair', f'dd:{tag}shape', got=dd.shape, expected=exp.shape)
        else:
            rec.close(1e-9, dd, exp, 'differential displacement of a pair = difference of the two imposed displacements',
                      f'dd:{tag}ref{cl["ref"]}:value', s=s, wrapped=cl['wrapped'], pbc=sc.pbc)
            nz = np.abs(exp).max(axis=1) > 0
            rec.count('dd:pairs-across-plane', int(nz.sum()))
            rec.count('dd:pairs-same-half', int((~nz).sum()))
        rec.check(out['ddref'] == cl['ref'], 'DifferentialDisplacement remembers its reference system', f'dd:{tag}reference')
        if cl['ref'] == 0:
            rec.check(nl_equal(nl, [np.sort(np.argsort(sc.perm)[nidx[j]]) for j in sc.perm]),
                      'reference=0: the listed pairs are the neighbour pairs of the reference crystal', f'dd:{tag}ref0:pairs')
        else:
            # neighbour pairs of the slipped crystal: separation below the cutoff in system1
            d1 = np.concatenate([G.min27(sc.pos1[nl[k]] - sc.pos1[k], sc.vects1, sc.pbc)[0] for k in range(n) if len(nl[k])] or [np.zeros(0)])
            rec.check(bool((d1 < cutoff + 1e-9).all()), 'reference=1: the listed pairs are neighbour pairs of the slipped crystal', f'dd:{tag}ref1:pairs')
            cnt = sum(len(x) for x in nl)
            rec.count('dd:ref1-pairs', cnt)


def slip_setup(ctx, i, cl, maxatoms):
    """The rigid-slip scenario of case i: crystal, periodicity, slip, disregistry direction."""
    rng = ctx.rng
    lat, basis, types, fam, a0 = C.unit_cell(cl['struct'], np.random.default_rng(0))
    target = {'inplane-small': 0.2, 'inplane-large': 0.78, 'opening': 0.45, 'general': 0.5}[cl['sclass']]
    # need: 0.45 w >= cutoff + smax  (cutoff ~ 0.8-1.3 a); the generator takes a factor of the cutoff
    need = (1.0 + target / 0.8) / 0.45 * 1.03
    cry = C.gen_crystal(rng, cl['struct'], cl['orient'], cl['shell'], 0, cl['origin'], need=need, maxatoms=maxatoms)
    a, cutoff = cry['a'], cry['cutoff']
    axis = cl['axis']
    if cl['pbcclass'] == 'ppp':
        pbc = T3
    elif cl['pbcclass'] == 'normal-free':
        pbc = tuple(k != axis for k in range(3))
    else:
        pbc = tuple(k != (axis + 1 + i % 2) % 3 for k in range(3))
    cry = pad_free(cry, pbc)
    smax = min(target * a, 0.45 * 2 * O.unique_image_radius(cry['vects'], pbc) - cutoff)
    sl = C.gen_slip(rng, cry, axis, cl['sclass'], pbc, smax)
    s = sl['s']
    u = np.where(sl['upper'][:, None], s, 0.0)
    pos0 = cry['pos']
    pos1 = pos0 + u
    if cl['wrapped']:
        pos1 = C.wrap(pos1, cry['vects'], cry['origin'], pbc)
    sc = Scen(pos0, pos1, cry['types'], cry['vects'], cry['vects'], cry['origin'], cry['origin'], pbc)
    # disregistry direction m: a cell edge in the plane, its in-plane normal, or a general in-plane direction
    mk = (i // 5) % 3
    ang = rng.uniform(0, 2 * np.pi)
    m_vec = [sl['e1'], sl['e2'], np.cos(ang) * sl['e1'] + np.sin(ang) * sl['e2']][mk]
    cl['defaults'] = bool(np.allclose(sl['n'], [0, 1, 0], atol=1e-12) and i % 2 == 0)
    if cl['defaults']:
        m_vec = np.array([1.0, 0.0, 0.0])
    return cry, sc, sl, u, pbc, m_vec


def run_slip_case(ctx, am, i):
    rec, rng = ctx.rec, ctx.rng
    cl = strat_slip(i)
    shrink = ctx.flavour == 'asan'
    cry, sc, sl, u, pbc, m_vec = slip_setup(ctx, i, cl, 700 if ctx.quick or shrink else 1400)
    a, cutoff, axis, s, pos0 = cry['a'], cry['cutoff'], cl['axis'], sl['s'], cry['pos']
    rec.case(('slip', cl['struct'], cl['orient'], 'axis%d' % axis, cl['sclass'], cl['pbcclass'], 'wrapped' if cl['wrapped'] else 'unwrapped',
              cl['variant'], 'ref%d' % cl['ref']), nontrivial=True, fp=fingerprint(pos0, cry['vects'], s, sl['hp']))
    for k_, v_ in cl.items():
        rec.count(f'class:slip:{k_}={v_}')
    if i < 12:
        rec.sample(dict(classes=cl, natoms=sc.n, cutoff=cutoff, s=s, normal=sl['n'], plane_height=sl['hp'], layers=(sl['below'], sl['above']),
                        nupper=int(sl['upper'].sum()), pbc=pbc, mults=cry['mults'], a=a))
    nidx, nvec, margin = O.neighbours(pos0, cry['vects'], pbc, cutoff)
    if margin < 1e-6 * cutoff or not O.no_double_images(nidx) or not (0 < sl['upper'].sum() < sc.n):
        rec.count('slip:case-exempt')
        return
    expected, nacross = O.slip_expected(nidx, sl['upper'], s)
    results = {}
    for sv in (sc, sc.variant(rng, cl['variant'])):
        planepos = sl['planepos'] + sv.shift
        do_dis = True
        if sv.kind != 'base' and np.any(sv.shift != 0):
            # the translated plane must still lie between the same two (wrapped) layers
            w = G.perp_widths(sv.vects0)[axis]
            tn = sv.shift @ sl['n']
            hb, hpn, ha = sl['below'] + tn, sl['hp'] + tn, sl['above'] + tn
            if pbc[axis]:
                if np.floor(hb / w) != np.floor(ha / w) or min(abs(hb / w - np.round(hb / w)), abs(ha / w - np.round(ha / w))) < 1e-6:
                    do_dis = False
                    rec.count('disregistry:variant-exempt(wrap splits the adjoining layers)')
                else:
                    planepos = planepos - np.floor(hpn / w) * sv.vects0[axis]
        # the tools get their own copies of planepos, m and n; what they do to them is judged, not inherited
        pp_arg, m_arg, sl_arg = planepos.copy(), m_vec.copy(), dict(sl, n=sl['n'].copy())
        out = slip_outputs(ctx, am, sv, cutoff, cl, sl_arg, i, pp_arg, m_arg, do_dis)
        rec.check(np.array_equal(pp_arg, planepos) and np.array_equal(m_arg, m_vec) and np.array_equal(sl_arg['n'], sl['n']),
                  'disregistry leaves m, n and planepos as they were', 'disregistry:arguments-changed')
        out['planepos'], out['m'] = planepos, m_vec
        check_slip(rec, out, sv, sl, nidx, expected, nacross, u, cutoff, cl, '' if sv.kind == 'base' else 'variant:', m_vec, a)
        results[sv.kind] = (sv, out)
    if len(results) == 2 and 'base' in results:
        sv, outv = [v for k, v in results.items() if k != 'base'][0]
        outb = results['base'][1]
        if 'slip' in outv and 'slip' in outb and outv['slip'].shape == outb['slip'].shape:
            rec.close(1e-9 * (1 + nacross.max()), sv.unpermute(outv['slip']), outb['slip'],
                      'slip vectors are unchanged by a common translation / consistent renumbering', f'invariance:{sv.kind}:slip')
            rec.count(f'invariance:slip:{sv.kind}')
        if 'dis' in outv and 'dis' in outb and outv['dis'].ndim == 2 and outb['dis'].ndim == 2:
            rec.close(1e-9, outv['dis'].mean(axis=0), outb['dis'].mean(axis=0),
                      'disregistry is unchanged by a common translation / consistent renumbering', f'invariance:{sv.kind}:disregistry')
            rec.count(f'invariance:disregistry:{sv.kind}')
        if 'dd' in outv and 'dd' in outb:
            def table(scn, o):
                t = {}
                r = 0
                for k in range(scn.n):
                    for j in o['ddnl'][k]:
                        t[(int(scn.perm[k]), int(scn.perm[j]))] = o['dd'][r] if r < len(o['dd']) else None
                        r += 1
                return t
            tb, tv = table(results['base'][0], outb), table(sv, outv)
            same = set(tb) == set(tv)
            rec.check(same, 'the differential-displacement pairs are unchanged by a common translation / consistent renumbering',
                      f'invariance:{sv.kind}:dd-pairs', nbase=len(tb), nvariant=len(tv))
            if same and len(tb):
                keys = sorted(tb)
                rec.close(1e-9, np.array([tv[k] for k in keys]), np.array([tb[k] for k in keys]),
                          'differential displacements are unchanged by a common translation / consistent renumbering', f'invariance:{sv.kind}:dd')
            rec.count(f'invariance:dd:{sv.kind}')


# ====================================================================== group 4: displacement
FIELDS = ['random-small', 'random-large', 'homogeneous', 'slip', 'zero']
BOXREF = ['final', 'initial', None]


def run_displacement_case(ctx, am, i):
    rec, rng = ctx.rec, ctx.rng
    struct = C.STRUCTS[i % 5]
    orient = C.ORIENTS[(i // 5) % 3]
    field = FIELDS[(i + i // 5) % 5]
    pbc = tuple(bool((i // 3) % 8 & (1 << k)) for k in range(3))
    ref = BOXREF[i % 3]
    origin = ['zero', 'near', 'far'][(i // 4) % 3]
    cry = C.gen_crystal(rng, struct, orient, 0, 0, origin, need=2.2, maxatoms=300)
    pos0, v0, o0 = cry['pos'], cry['vects'], cry['origin']
    n = len(pos0)
    runi = O.unique_image_radius(v0, pbc)
    rcap = min(runi, 0.5 * G.perp_widths(v0).min())
    v1, o1 = v0, o0
    if field == 'random-small':
        u = rng.normal(size=(n, 3)) * 0.1
    elif field == 'random-large':
        u = rng.normal(size=(n, 3))
        u *= (rng.uniform(0.05, 0.9, n) * rcap / np.linalg.norm(u, axis=1))[:, None]
    elif field == 'homogeneous':
        F = C.gen_F(rng, C.FCLASSES[(i // 15) % 5])
        v1, o1 = v0 @ F.T, F @ o0
        # a common shift of 5-20 % of the cell along every cell vector (mostly downwards: the lowest
        # layer sits just above the face), so that atoms certainly leave the deformed cell
        t = (rng.uniform(0.05, 0.2, 3) * np.where(rng.random(3) < 0.75, -1.0, 1.0)) @ v1
        u = pos0 @ F.T - pos0 + t
    elif field == 'slip':
        sl = C.gen_slip(rng, cry, i % 3, C.SCLASSES[(i // 3) % 4], pbc, 0.8 * rcap)
        u = np.where(sl['upper'][:, None], sl['s'], 0.0)
    else:
        u = np.zeros((n, 3))
    pos1 = C.wrap(pos0 + u, v1, o1, pbc)                       # the displaced atoms are put back into their cell
    nwrapped = int((np.abs(pos1 - pos0 - u).max(axis=1) > 1e-6).sum())
    rec.count('displacement:atoms-crossing-a-boundary', nwrapped)
    if field == 'homogeneous' and ref is not None and nwrapped:
        rec.count(f'displacement:cases-crossing-a-deformed-cell:{ref}')
    rec.case(('displacement', struct, orient, field, 'pbc%d%d%d' % pbc, str(ref)), nontrivial=field != 'zero',
             fp=fingerprint(pos0, u, v0))
    rec.count(f'class:displacement:ref={ref}')
    rec.count(f'class:displacement:field={field}')
    rec.count('class:displacement:pbc=%d%d%d' % pbc)
    if i < 6:
        rec.sample(dict(struct=struct, orient=orient, field=field, pbc=pbc, box_reference=ref, natoms=n, max_u=float(np.abs(u).max()),
                        atoms_wrapped=nwrapped))
    sc = Scen(pos0, pos1, cry['types'], v0, v1, o0, o1, pbc)
    s0, s1 = sc.systems(am)
    res = raw = None
    with ctx.guard('displacement can be evaluated for two systems with the same atoms', f'displacement:{ref}:call'):
        if ref == 'final' and i % 2:
            raw = am.displacement(s0, s1)
        else:
            raw = am.displacement(s0, s1, box_reference=ref)
        res = np.array(raw)
    if res is None:
        return
    if isinstance(raw, np.ndarray) and raw.shape == (n, 3):
        # (round 4) the result belongs to the caller: writing to it does not move an atom of either system
        if raw.flags.writeable:
            raw[...] = 7.25
        rec.check(np.array_equal(np.asarray(s0.atoms.pos), sc.pos0) and np.array_equal(np.asarray(s1.atoms.pos), sc.pos1),
                  'the displacement handed out is the caller\'s own array (the systems keep their positions when it is written to)',
                  f'displacement:{ref}:result-aliases-positions', field=field)
        rec.count('displacement:result-aliasing-checked')
    L = np.linalg.norm(v0, axis=1).max() + np.abs(pos0).max()
    if res.shape != (n, 3):
        rec.fail('displacement returns one vector per atom', f'displacement:{ref}:shape', got=res.shape)
        return
    if ref is None:
        rec.close(1e-12 * L, res, pos1 - pos0, 'box_reference=None: displacement is the plain position difference', 'displacement:None')
        return
    vr = v1 if ref == 'final' else v0
    exp = O.through_boundaries(pos1 - pos0, vr, pbc)
    ln = np.linalg.norm(exp, axis=1)
    ok = ln < 0.98 * O.unique_image_radius(vr, pbc)
    rec.count('displacement:rows-exempt(no unique nearest image)', int((~ok).sum()))
    # the periodic separation is, by its own statement (C02), the shortest of the 27 candidates with shifts -1, 0, +1:
    # a position difference whose true nearest image needs a shift of two cells (atoms wrapped into a deformed cell
    # while the reference box is the other one) is beyond its reach - such rows are exempt here and counted
    # (found by thorough seed 4, case displacement:310; the monitor on displacement still judges them against min27)
    ln27 = G.min27(pos1 - pos0, vr, pbc)[0]
    reach = ln27 <= ln + 1e-9 * L
    rec.count('displacement:rows-exempt(beyond the 27-image reach)', int((ok & ~reach).sum()))
    ok = ok & reach
    rec.close(1e-11 * L, res[ok], exp[ok], 'displacement is the position difference taken through the boundaries of the reference box',
              f'displacement:{ref}:{field}', pbc=pbc)
    rec.count('displacement:rows-checked', int(ok.sum()))
    if ref == 'final' or field != 'homogeneous':
        oku = np.linalg.norm(u, axis=1) < 0.98 * O.unique_image_radius(vr, pbc)
        rec.close(1e-11 * L, res[oku], u[oku], 'displacement returns the imposed displacement although atoms crossed the periodic boundaries',
                  f'displacement:{ref}:{field}:imposed', pbc=pbc)
        rec.count('displacement:rows-imposed-checked', int(oku.sum()))


# ====================================================================== group 5: legacy differential_displacement
def run_legacydd_case(ctx, am, i):
    rec, rng = ctx.rec, ctx.rng
    import matplotlib
    matplotlib.use('Agg')
    import matplotlib.pyplot as plt
    struct = C.STRUCTS[i % 5]
    orient = C.ORIENTS[(i // 5 + i) % 3]
    cry = C.gen_crystal(rng, struct, orient, 0, 0, 'zero', need=2.6, maxatoms=200)
    pbc = T3
    cutoff = cry['cutoff']
    axis = i % 3
    smax = min(0.3 * cry['a'], 0.9 * O.unique_image_radius(cry['vects'], pbc) - cutoff)
    sl = C.gen_slip(rng, cry, axis, C.SCLASSES[i % 4], pbc, smax)
    s = sl['s']
    u = np.where(sl['upper'][:, None], s, 0.0)
    pos0 = cry['pos']
    pos1 = C.wrap(pos0 + u, cry['vects'], cry['origin'], pbc) if i % 2 else pos0 + u
    sc = Scen(pos0, pos1, cry['types'], cry['vects'], cry['vects'], cry['origin'], cry['origin'], pbc)
    s0, s1 = sc.systems(am)
    axes = [('x', 'y'), ('y', 'z'), ('z', 'x')][i % 3]
    T = np.eye(3)[['xyz'.index(axes[0]), 'xyz'.index(axes[1]), 3 - 'xyz'.index(axes[0]) - 'xyz'.index(axes[1])]]
    rec.case(('legacy-dd', struct, orient, axes), nontrivial=True, fp=fingerprint(pos0, s))
    data = None
    fig = plt.figure()
    try:
        ax = fig.add_subplot(111)
        nl = s0.neighborlist(cutoff=cutoff)
        with ctx.guard('differential_displacement(return_data=True) can be evaluated', 'legacy-dd:call'):
            data = am.defect.differential_displacement(s0, s1, s, plotxaxis=axes[0], plotyaxis=axes[1], zlim=(-1e9, 1e9),
                                                       neighbors=nl, atom_color='w', return_data=True, matplotlib_axes=ax)
    finally:
        plt.close(fig)
    if data is None:
        return
    if not isinstance(data, dict):
        rec.fail('differential_displacement(return_data=True, matplotlib_axes=ax) returns the data dict', 'legacy-dd:return-type', got=type(data))
        return
    exp = np.concatenate([(u[np.asarray(nl[k], int)] - u[k]) @ T.T for k in range(sc.n)])
    rec.close(1e-9, np.asarray(data['vectors']), exp, 'legacy differential_displacement: pair vectors = difference of imposed displacements (plot axes)',
              'legacy-dd:vectors', s=s)
    rec.count('legacy-dd:pairs-checked', len(exp))


# ====================================================================== group 6: one Strain object, several states
# (round 4) The ordinary use - a new Strain object per analysed state - is what groups 1 and 2 do.  Here ONE object
# lives through a history: some of its results are read (and kept by the caller), then what G depends on is changed
# (the analysed system strained in place, the reference exchanged, theta_max changed, nothing at all), the object is
# solved again, everything is read again and judged against the deformation that is imposed NOW; what the caller kept
# from before must still be what it was.
CHANGES = ['boxset-scale', 'pos-inplace', 'ref-build', 'ref-set', 'theta', 'nothing', 'clear', 'deepcopy', 'overwrite']
READ1 = ['all', 'strain', 'invariant3', 'angularvelocity', 'nye', 'asdict', 'save_to_system', 'rotation', 'invariant1',
         'invariant2', 'G', 'none']
READ2 = ['derived-first', 'G-first', 'asdict', 'save_to_system']
RPSRC = ['base', 'p-atom', 'attr-nl', 'p-axes', 'base-nl']
NAMES = ['G', 'strain', 'rotation', 'invariant1', 'invariant2', 'invariant3', 'angularvelocity', 'nye']
DERIVED_FIRST = ['invariant3', 'angularvelocity', 'nye', 'invariant2', 'invariant1', 'rotation', 'strain', 'G']


def strat_restrain(i):
    c, k = i % 9, i // 9
    return dict(struct=C.STRUCTS[i % 5], orient=C.ORIENTS[(i // 5) % 3], change=CHANGES[c], read1=READ1[(c + 5 * k) % 12],
                read2=READ2[(i + i // 4) % 4], psrc=RPSRC[(i + i // 5) % 5], shell=(i // 3) % 3,
                f1=C.FCLASSES[i % 5], f2='identity' if k % 4 == 3 else C.FCLASSES[(i + 2) % 5],
                pbcclass='ppp' if i % 4 != 3 else 'free-' + 'abc'[(i // 4) % 3], origin=['zero', 'near', 'far'][(i // 7) % 3])


def read_strain(st, how, names=NAMES):
    """The results of a Strain object as the caller receives them (no copies): {name: array}."""
    if how == 'asdict':
        d = dict(st.asdict([n for n in names if n in ('G', 'rotation')]))
        d.update(st.asdict() if len(names) == len(NAMES) else st.asdict([n for n in names if n not in ('G', 'rotation')]))
        return {n: d[n] for n in names}
    if how == 'save_to_system':
        st.save_to_system([n for n in names if n in ('G', 'rotation')])
        if len(names) == len(NAMES):
            st.save_to_system()
        else:
            st.save_to_system([n for n in names if n not in ('G', 'rotation')])
        return {n: np.array(st.system.atoms.view[n]) for n in names}
    order = names if how == 'G-first' else [n for n in DERIVED_FIRST if n in names]
    return {n: getattr(st, n) for n in order}


def strain_expected(F):
    Gexp = O.G_from_F(F)
    e, r = O.strain_from_G(Gexp), O.rotation_from_G(Gexp)
    i1, i2, i3 = O.invariants(e)
    return dict(G=Gexp, strain=e, rotation=r, invariant1=i1, invariant2=i2, invariant3=i3, angularvelocity=O.angular_velocity(r),
                nye=np.zeros((3, 3)))


STOL = dict(G=1e-9, strain=1e-9, rotation=1e-9, invariant1=1e-9, invariant2=1e-10, invariant3=1e-11, angularvelocity=1e-9)


def judge_some(rec, vals, F, m, mn, a, clause, key):
    """Whatever subset of the results was read, against the imposed F."""
    exp = strain_expected(F)
    for name, v in vals.items():
        mm = mn if name == 'nye' else m
        v = np.asarray(v)
        if v.shape[:1] != m.shape:
            rec.fail(clause + f' ({name}: one value per atom)', f'{key}:{name}-shape', got=v.shape)
            continue
        rec.close(1e-8 / a if name == 'nye' else STOL[name], v[mm], np.broadcast_to(exp[name], (int(mm.sum()),) + np.shape(exp[name])),
                  clause + f' ({name})', f'{key}:{name}', F=F)


def strained_system(am, sc, F, which=1):
    pos, v, o = sc.pos0 @ F.T, sc.vects0 @ F.T, F @ sc.origin0
    return am.System(atoms=am.Atoms(atype=sc.types.copy(), pos=pos), box=am.Box(vects=v, origin=o), pbc=sc.pbc)


def run_restrain_case(ctx, am, i):
    import copy
    rec, rng = ctx.rec, ctx.rng
    cl = strat_restrain(i)
    ch, psrc = cl['change'], cl['psrc']
    cry = C.gen_crystal(rng, cl['struct'], cl['orient'], cl['shell'], 0, cl['origin'], need=2.45, maxatoms=350)
    F1 = C.gen_F(rng, cl['f1'], maxnorm=0.02)
    F2 = C.gen_F(rng, cl['f2'])
    Fref = C.gen_F(rng, 'general', maxnorm=0.01)
    pbc = T3 if cl['pbcclass'] == 'ppp' else tuple(k != 'abc'.index(cl['pbcclass'][-1]) for k in range(3))
    cry = pad_free(cry, pbc)
    cutoff, a = cry['cutoff'], cry['a']
    theta = [27, 20, 35][int(rng.integers(0, 3))]
    pos0 = cry['pos']
    # sc.pos0 / vects0 / origin0 is the undeformed reference; the analysed system starts in state F1
    sc = Scen(pos0, pos0 @ F1.T, cry['types'], cry['vects'], cry['vects'] @ F1.T, cry['origin'], F1 @ cry['origin'], pbc,
              patom=np.array([cry['site_vectors'][s] for s in cry['site']]))
    rec.case(('restrain', cl['struct'], cl['orient'], ch, cl['read1'], cl['read2'], psrc, cl['pbcclass']), nontrivial=True,
             fp=fingerprint(pos0, cry['vects'], F1, F2, Fref))
    for k_ in ('change', 'read1', 'read2', 'psrc'):
        rec.count(f'class:restrain:{k_}={cl[k_]}')
    if i < 9:
        rec.sample(dict(group='restrain', classes=cl, natoms=sc.n, cutoff=cutoff, F1=F1, F2=F2, Fref=Fref, theta_max=theta))
    nidx, nvec, margin = O.neighbours(sc.pos0, sc.vects0, sc.pbc, cutoff)
    if margin < 0.035 * cutoff or not O.no_double_images(nidx) or min(len(x) for x in nidx) < 2:
        rec.count('restrain:case-exempt')
        return
    m = np.array([len(v) >= 3 and np.linalg.matrix_rank(v, tol=1e-6 * a) == 3 and np.linalg.cond(v) < 50 for v in nvec])
    mn = np.array([m[k] and m[nidx[k]].all() for k in range(sc.n)])
    s0, s1 = sc.systems(am)
    st = None
    parg = None
    with ctx.guard('Strain can be built for a homogeneously deformed crystal', f'reuse:{psrc}:build'):
        if psrc == 'base':
            st = am.defect.Strain(s1, cutoff=cutoff, basesystem=s0, theta_max=theta)
        elif psrc == 'base-nl':
            st = am.defect.Strain(s1, neighbors=s1.neighborlist(cutoff=cutoff), basesystem=s0,
                                  baseneighbors=s0.neighborlist(cutoff=cutoff), theta_max=theta)
        elif psrc == 'attr-nl':
            # "... or system must have a neighbors attribute"
            s1.neighbors = s1.neighborlist(cutoff=cutoff)
            s0.neighbors = s0.neighborlist(cutoff=cutoff)
            st = am.defect.Strain(s1, basesystem=s0, theta_max=theta)
        else:
            parg, axes, _ = p_argument(psrc, cry, sc, i)
            if psrc == 'p-atom' and i % 2:
                parg = [np.array(x) for x in parg]                  # a list of per-atom arrays
            pkeep = [np.array(x) for x in parg] if np.ndim(parg) == 3 or isinstance(parg, list) else np.array(parg)
            st = am.defect.Strain(s1, cutoff=cutoff, p_vectors=parg, axes=axes, theta_max=theta)
    if st is None:
        return
    rec.count(f'reach:{ctx.flavour}:Strain')
    if parg is not None:
        # the caller's reference vectors are an argument, not scratch space
        same = len(parg) == len(pkeep) and all(np.array_equal(np.asarray(x), y) for x, y in zip(parg, pkeep))
        rec.check(same, 'Strain leaves the reference vectors it was handed as they were', f'reuse:{psrc}:p-argument-changed')
        rec.count('restrain:p-argument-compared')

    if psrc in ('p-atom', 'p-axes'):
        # ... and a Strain object does not go on reading the caller's array: Strain solves lazily, the caller reuses its
        # buffer between construction and the first read (a separate object on the same system; all array forms)
        pcls = 'p-single' if psrc == 'p-atom' and (i // 5) % 2 else psrc
        pb, axb, pcls = p_argument(pcls, cry, sc, (i // 10) % 2)                       # p-single: the bare array or [array]
        g1 = None
        with ctx.guard('Strain can be solved after the caller reused its reference-vector buffer', f'reuse:p-buffer:{pcls}:solve'):
            stp = am.defect.Strain(s1, cutoff=cutoff, p_vectors=pb, axes=axb, theta_max=theta)
            if isinstance(pb, np.ndarray):
                pb[...] = pb[..., ::-1, :] * 1.7
            else:
                for x in pb:
                    x[...] = x[::-1] * 1.7
            g1 = np.array(stp.G)
        rec.count(f'restrain:p-buffer-reused-before-the-lazy-solve:{pcls}')
        rec.count('restrain:p-buffer-reused-before-the-lazy-solve')
        if g1 is not None and g1.shape == (sc.n, 3, 3):
            bad = float(np.abs(g1[m] - O.G_from_F(F1)).max())
            rec.check(bad <= 1e-9, 'G = F^-T for the reference vectors given at construction, whatever the caller does with its '
                      'array afterwards (Strain solves lazily)', 'strain:p-vectors-alias-the-callers-array', err=bad, form=pcls,
                      axes=axb is not None)

    # ---- state 1: read (part of) the results, keep them as handed out
    names1 = {'all': NAMES, 'asdict': NAMES, 'save_to_system': NAMES, 'none': []}.get(cl['read1'], [cl['read1']])
    how1 = cl['read1'] if cl['read1'] in ('asdict', 'save_to_system') else ('G-first' if i % 2 else 'derived-first')
    kept, copies = {}, {}
    with ctx.guard('Strain can be solved for a homogeneously deformed crystal', f'reuse:{psrc}:first-solve'):
        kept = read_strain(st, how1, names1) if names1 else {}
        copies = {n: np.array(v) for n, v in kept.items()}
    judge_some(rec, copies, F1, m, mn, a, 'first state of a reused Strain object', f'reuse:first:{psrc}')
    if names1 and any(n != 'G' for n in names1):
        rec.count('restrain:derived-results-read-before-the-change')

    # ---- the change
    Fnow, target, nover = F1, st, 0
    resolve = 'solve_G()'
    with ctx.guard('a Strain object can be solved again after what it analyses has changed', f'reuse:{ch}:change'):
        if ch in ('boxset-scale', 'clear', 'deepcopy'):
            if ch == 'deepcopy':
                target = copy.deepcopy(st)
            sysn = target.system
            sysn.box_set(vects=sc.vects0 @ F2.T, origin=F2 @ sc.origin0, scale=True)
            Fnow = F2
            if ch == 'clear':
                resolve = 'clear_properties()'
        elif ch == 'pos-inplace':
            s1.atoms.pos[:] = sc.pos0 @ F2.T
            s1.box_set(vects=sc.vects0 @ F2.T, origin=F2 @ sc.origin0)
            Fnow = F2
        elif ch == 'ref-build':
            base2 = strained_system(am, sc, Fref)
            if i % 2:
                st.build_p_vectors(base2, cutoff=cutoff)
            else:
                st.build_p_vectors(base2, neighbors=base2.neighborlist(cutoff=cutoff))
            Fnow = F1 @ np.linalg.inv(Fref)
        elif ch == 'ref-set':
            p2 = sc.patom @ Fref.T
            st.set_p_vectors([np.array(x) for x in p2] if i % 2 else p2)
            Fnow = F1 @ np.linalg.inv(Fref)
        elif ch == 'theta':
            theta2 = [t for t in (27, 20, 35) if t != theta][i % 2]
            resolve = 'solve_G(theta_max)'
        elif ch == 'overwrite':
            resolve = None
            for n_, v in kept.items():
                if isinstance(v, np.ndarray) and v.flags.writeable and how1 != 'save_to_system':
                    v[...] = 12345.678
                    nover += 1
            rec.count('restrain:handed-out-arrays-overwritten-by-the-caller', nover)
        if resolve == 'solve_G()':
            target.solve_G()
            rec.count('restrain:solve_G()-without-argument')
            if names1 and any(n != 'G' for n in names1) and ch != 'nothing':
                rec.count('restrain:derived-read,changed,solve_G()-without-argument')
        elif resolve == 'solve_G(theta_max)':
            target.solve_G(theta_max=theta2)
            rec.check(target.theta_max == theta2, 'solve_G(theta_max) sets theta_max', 'reuse:theta:theta_max')
        elif resolve == 'clear_properties()':
            target.clear_properties()
        rec.count('restrain:changed')

    # ---- state 2: everything is read again and judged against what is imposed now
    out = None
    with ctx.guard('a Strain object can be read again after a change and a new solve', f'reuse:{ch}:second-read'):
        vals = read_strain(target, cl['read2'])
        out = {n: np.array(v) for n, v in vals.items()}
        out['neighbors'] = target.neighbors
    if out is None:
        return
    if ch == 'overwrite':
        # one mechanism, one key: the arrays handed out ARE the object's cache
        bad = {}
        exp = strain_expected(F1)
        for n_ in NAMES:
            mm = mn if n_ == 'nye' else m
            tol = 1e-8 / a if n_ == 'nye' else STOL[n_]
            if out[n_].shape[:1] == (sc.n,):
                err = float(np.abs(out[n_][mm] - exp[n_]).max()) if mm.any() else 0.0
                if not err <= tol:
                    bad[n_] = err
        rec.check(not bad, 'the results of a Strain object are those of the imposed deformation whatever the caller did to the '
                  'arrays it was handed before', 'strain:handed-out-array-is-the-cache', wrong=bad, read_first=cl['read1'])
        if nover:
            rec.count('restrain:reread-after-the-caller-overwrote')
        return
    check_strain(rec, out, Fnow, sc, a, m, psrc, f'reuse:{ch}:')
    rec.count(f'restrain:evaluated:{ch}')
    # what the caller kept from state 1 is still what it was (no buffer handed out earlier is written to again)
    if how1 != 'save_to_system':
        for n_, v in kept.items():
            rec.check(np.array_equal(np.asarray(v), copies[n_]), 'results handed out before are not overwritten by a later solve',
                      f'reuse:{ch}:kept:{n_}')
            rec.count('restrain:kept-results-rejudged')
    if ch == 'nothing':
        for n_, v in copies.items():
            rec.close(1e-13, out[n_], v, 'solving again with nothing changed gives the same values', f'reuse:nothing:{n_}')
    if ch == 'deepcopy':
        # the original still analyses state F1
        o1 = None
        with ctx.guard('the copied-from Strain object can still be read', 'reuse:deepcopy:original'):
            o1 = {n: np.array(v) for n, v in read_strain(st, 'G-first').items()}
        if o1 is not None:
            judge_some(rec, o1, F1, m, mn, a, 'the original of a deep-copied Strain object still reports its own state',
                       'reuse:deepcopy:original')
            rec.count('restrain:deepcopy-original-rejudged')


# ====================================================================== group 7: slip tools called again
# (round 4) The same System / NeighborList / DifferentialDisplacement / argument objects go through a second slip
# state (positions edited in place, or a new system handed to the same object) and back to the first one.
RESLIP = ['inplace', 'new-system1', 'resolve-cutoff', 'switch-reference', 'deepcopy', 'overwrite']


def dd_expected(nl, uu):
    return np.concatenate([uu[nl[k]] - uu[k] for k in range(len(nl)) if len(nl[k])] or [np.zeros((0, 3))])


def run_reslip_case(ctx, am, i):
    import copy
    rec, rng = ctx.rec, ctx.rng
    cl = strat_slip(i)
    hist = RESLIP[(i + i // 6) % 6]
    form = ['neighbors', 'cutoff', 'attribute'][(i + i // 3) % 3]
    argform = ['ndarray', 'list', 'tuple'][(i // 2) % 3]
    cry, sc, sl, u, pbc, m_vec = slip_setup(ctx, i, cl, 450)
    a, cutoff, axis, s, pos0 = cry['a'], cry['cutoff'], cl['axis'], sl['s'], cry['pos']
    e = rng.normal(size=3)
    s2 = 0.4 * s + 0.3 * np.linalg.norm(s) * e / np.linalg.norm(e)
    u2 = np.where(sl['upper'][:, None], s2, 0.0)
    pos1a = sc.pos1
    pos1b = C.wrap(pos0 + u2, cry['vects'], cry['origin'], pbc) if cl['wrapped'] else pos0 + u2
    ref = cl['ref']
    rec.case(('reslip', cl['struct'], cl['orient'], 'axis%d' % axis, cl['sclass'], cl['pbcclass'], hist, form, argform, 'ref%d' % ref),
             nontrivial=True, fp=fingerprint(pos0, cry['vects'], s, s2, sl['hp']))
    rec.count(f'class:reslip:hist={hist}')
    rec.count(f'class:reslip:form={form}')
    rec.count(f'class:reslip:argform={argform}')
    if i < 6:
        rec.sample(dict(group='reslip', classes=cl, history=hist, neighbours_given_as=form, m_n_planepos_given_as=argform, natoms=sc.n,
                        s_first=s, s_second=s2, pbc=pbc))
    nidx, nvec, margin = O.neighbours(pos0, cry['vects'], pbc, cutoff)
    if margin < 1e-6 * cutoff or not O.no_double_images(nidx) or not (0 < sl['upper'].sum() < sc.n):
        rec.count('reslip:case-exempt')
        return
    exp_slip = {1: O.slip_expected(nidx, sl['upper'], s), 2: O.slip_expected(nidx, sl['upper'], s2)}
    uu = {1: u, 2: u2}
    ss = {1: s, 2: s2}
    s0, s1 = sc.systems(am)
    nl0 = s0.neighborlist(cutoff=cutoff)
    if form == 'attribute':
        s0.neighbors = nl0
    conv = {'ndarray': np.array, 'list': lambda x: [float(t) for t in x], 'tuple': lambda x: tuple(float(t) for t in x)}[argform]
    m_arg, n_arg, pp_arg = conv(m_vec), conv(sl['n']), conv(sl['planepos'])
    args_before = (np.array(m_arg), np.array(n_arg), np.array(pp_arg))
    defaults_before = copy.deepcopy(am.defect.disregistry.__defaults__)
    L = np.linalg.norm(cry['vects'], axis=1).max() + np.abs(pos0).max()

    def functions(sys1, state, tag):
        """slip_vector, disregistry, displacement on (s0, sys1), judged for slip state `state`."""
        res = {}
        with ctx.guard('slip_vector can be evaluated for a rigidly slipped crystal', f'reslip:{tag}:slip:call'):
            if form == 'neighbors':
                res['slip'] = am.defect.slip_vector(s0, sys1, neighbors=nl0)
            elif form == 'cutoff':
                res['slip'] = am.defect.slip_vector(s0, sys1, cutoff=cutoff)
            else:
                res['slip'] = am.defect.slip_vector(s0, sys1)
            rec.count(f'reach:{ctx.flavour}:slip_vector')
        with ctx.guard('disregistry can be evaluated for a slip plane between two atomic layers', f'reslip:{tag}:disregistry:call'):
            if cl.get('defaults'):
                res['coord'], res['dis'] = am.defect.disregistry(s0, sys1, planepos=pp_arg)
            else:
                res['coord'], res['dis'] = am.defect.disregistry(s0, sys1, m=m_arg, n=n_arg, planepos=pp_arg)
        with ctx.guard('displacement can be evaluated for two systems with the same atoms', f'reslip:{tag}:displacement:call'):
            res['disp'] = am.displacement(s0, sys1)
        expv, nac = exp_slip[state]
        if 'slip' in res:
            sv = np.asarray(res['slip'])
            if sv.shape != (sc.n, 3):
                rec.fail('slip_vector returns one vector per atom', f'reslip:{tag}:slip:shape', got=sv.shape)
            else:
                rec.close(1e-9 * (1 + nac.max()), sv, expv, 'slip vector = (own-half displacement - other-half displacement) x number '
                          'of neighbours across the plane, for the slip imposed NOW', f'reslip:{tag}:slip', s=ss[state], pbc=pbc)
                rec.count(f'reslip:slip-judged:{tag}')
        if 'dis' in res:
            dis = np.asarray(res['dis'])
            if dis.ndim != 2 or dis.shape[1:] != (3,) or len(dis) == 0:
                rec.fail('disregistry returns N coordinates and an (N,3) array', f'reslip:{tag}:disregistry:shape', got=dis.shape)
            else:
                rec.close(1e-9, dis, np.broadcast_to(ss[state], dis.shape), 'disregistry across the slip plane equals the slip imposed NOW',
                          f'reslip:{tag}:disregistry', s=ss[state], pbc=pbc)
                rec.count(f'reslip:disregistry-judged:{tag}')
        if 'disp' in res:
            d = np.asarray(res['disp'])
            if d.shape != (sc.n, 3):
                rec.fail('displacement returns one vector per atom', f'reslip:{tag}:displacement:shape', got=d.shape)
            else:
                rec.close(1e-11 * L, d, uu[state], 'displacement returns the displacement imposed NOW', f'reslip:{tag}:displacement',
                          s=ss[state], pbc=pbc)
                rec.count(f'reslip:displacement-judged:{tag}')
        return res

    def dd_judge(ddo, state, tag, want_ref):
        vec = nl = None
        with ctx.guard('the differential displacements can be read', f'reslip:{tag}:dd:read'):
            vec = ddo.ddvectors
            nl = [np.asarray(ddo.neighbors[k], int) for k in range(sc.n)]
        if vec is None or nl is None:
            return None
        expd = dd_expected(nl, uu[state])
        v = np.asarray(vec)
        if v.shape != expd.shape:
            rec.fail('ddvectors lists one vector per neighbour pair', f'reslip:{tag}:dd:shape', got=v.shape, expected=expd.shape)
            return vec
        rec.close(1e-9, v, expd, 'differential displacement of a pair = difference of the two displacements imposed NOW',
                  f'reslip:{tag}:dd', s=ss[state], pbc=pbc)
        rec.check(ddo.reference == want_ref, 'DifferentialDisplacement remembers its reference system', f'reslip:{tag}:dd:reference')
        rec.count(f'reslip:dd-judged:{tag}')
        rec.count('reslip:dd-pairs-across-plane', int((np.abs(expd).max(axis=1) > 0).sum()) if len(expd) else 0)
        return vec

    # ---- state A
    resA = functions(s1, 1, 'first')
    dd = None
    with ctx.guard('DifferentialDisplacement can be solved for a rigidly slipped crystal', 'reslip:first:dd:call'):
        if form == 'neighbors':
            dd = am.defect.DifferentialDisplacement(s0, s1, neighbors=(s0 if ref == 0 else s1).neighborlist(cutoff=cutoff), reference=ref)
        elif form == 'cutoff':
            dd = am.defect.DifferentialDisplacement(s0, s1, cutoff=cutoff, reference=ref)
        else:
            dd = am.defect.DifferentialDisplacement(s0, s1, reference=ref)
            dd.solve(cutoff=cutoff)
    ddA = dd_judge(dd, 1, 'first', ref) if dd is not None else None
    keptA = {k: v for k, v in resA.items() if isinstance(v, np.ndarray)}
    if isinstance(ddA, np.ndarray):
        keptA['dd'] = ddA
    copiesA = {k: np.array(v) for k, v in keptA.items()}

    # ---- state B
    sysB, ddB, refB = s1, dd, ref
    with ctx.guard('the slip tools can be used again on a second slip state', f'reslip:{hist}:change'):
        if hist == 'new-system1':
            sysB = am.System(atoms=am.Atoms(atype=sc.types.copy(), pos=pos1b.copy()),
                             box=am.Box(vects=sc.vects1.copy(), origin=sc.origin1.copy()), pbc=sc.pbc)
            if dd is not None:
                dd.solve(system1=sysB)
        elif hist == 'deepcopy' and dd is not None:
            ddB = copy.deepcopy(dd)
            sysB = ddB.system1
            sysB.atoms.pos[:] = pos1b
            ddB.solve()
        else:
            if hist == 'overwrite':
                nover = 0
                for k_, v in keptA.items():
                    if v.flags.writeable:
                        v[...] = -4321.5
                        nover += 1
                rec.count('reslip:handed-out-arrays-overwritten-by-the-caller', nover)
                if dd is not None and 'dd' in keptA:
                    again = np.asarray(dd.ddvectors)
                    bad = again.shape != copiesA['dd'].shape or not np.array_equal(again, copiesA['dd'])
                    rec.check(not bad, 'the differential displacements of a solved object are those of the imposed slip whatever the '
                              'caller did to the array it was handed before', 'dd:handed-out-array-is-the-cache')
                    rec.count('reslip:dd-reread-after-the-caller-overwrote')
            s1.atoms.pos[:] = pos1b
            if dd is not None:
                if hist == 'resolve-cutoff':
                    dd.solve(cutoff=cutoff)
                elif hist == 'switch-reference':
                    refB = 1 - ref
                    dd.solve(reference=refB)
                else:
                    dd.solve()
        rec.count('reslip:changed')
    functions(sysB, 2, hist)
    if ddB is not None:
        dd_judge(ddB, 2, hist, refB)
    if hist == 'deepcopy' and dd is not None:
        dd.solve()
        dd_judge(dd, 1, 'deepcopy-original', ref)
    if hist != 'overwrite':
        for k_, v in keptA.items():
            rec.check(np.array_equal(v, copiesA[k_]), 'results handed out before are not overwritten by later calls',
                      f'reslip:{hist}:kept:{k_}')
            rec.count('reslip:kept-results-rejudged')

    # ---- back to state A: an equal call gives an equal value whatever happened in between
    if hist not in ('new-system1', 'deepcopy'):
        s1.atoms.pos[:] = pos1a
    resC = functions(s1, 1, 'again')
    for k_ in ('slip', 'coord', 'dis', 'disp'):
        if k_ in resC and k_ in copiesA and np.shape(resC[k_]) == copiesA[k_].shape:
            rec.close(1e-12 * L, np.asarray(resC[k_]), copiesA[k_], 'the same call on the same state gives the same value whatever was '
                      'computed in between', f'reslip:again:{k_}')
            rec.count('reslip:repeat-compared')
    if dd is not None and hist != 'deepcopy':
        with ctx.guard('DifferentialDisplacement can be solved again', 'reslip:again:dd:call'):
            if hist == 'new-system1':
                dd.solve(system1=s1)
            elif hist == 'switch-reference':
                dd.solve(reference=ref)
            else:
                dd.solve()
        dd_judge(dd, 1, 'again', ref)
    # arguments and default-argument objects are as they were
    now = (np.array(m_arg), np.array(n_arg), np.array(pp_arg))
    rec.check(all(np.array_equal(x, y) for x, y in zip(now, args_before)), 'disregistry leaves m, n and planepos as they were',
              'reslip:disregistry:arguments-changed', form=argform)
    rec.check(am.defect.disregistry.__defaults__ == defaults_before and
              [list(x) for x in am.defect.disregistry.__defaults__] == [[1.0, 0.0, 0.0], [0.0, 1.0, 0.0], [0.0, 0.0, 0.0]],
              'the default m, n and planepos of disregistry stay the documented ones', 'reslip:disregistry:defaults-changed')
    rec.count('reslip:arguments-compared')


# ====================================================================== driver
def run(ctx):
    import atomman as am
    import atomman.defect  # noqa: F401
    rec = ctx.rec
    install_monitors(rec, am)
    O.selfcheck()                               # the oracle against hand-computed cases (a failure makes the run inconclusive)
    rec.count('oracle:selfcheck-passed')
    asan = ctx.flavour == 'asan'
    div = 8 if asan else 1

    for i in ctx.cases('strain', ctx.pick(90, 810) // div):
        run_strain_case(ctx, am, i)
    for i in ctx.cases('nyefield', ctx.pick(48, 384) // div):
        run_nyefield_case(ctx, am, i)
    for i in ctx.cases('slip', ctx.pick(72, 648) // div):
        run_slip_case(ctx, am, i)
    for i in ctx.cases('displacement', ctx.pick(120, 1080) // div):
        run_displacement_case(ctx, am, i)
    for i in ctx.cases('restrain', ctx.pick(54, 432) // div):
        run_restrain_case(ctx, am, i)
    for i in ctx.cases('reslip', ctx.pick(36, 288) // div):
        run_reslip_case(ctx, am, i)
    if not asan:
        for i in ctx.cases('legacy-dd', ctx.pick(8, 40)):
            run_legacydd_case(ctx, am, i)

    for k, v_ in monitor.calls.items():
        if isinstance(v_, int):
            rec.count('monitor_calls:' + k, v_)

    # ---- floors: monitors reached, every class generated (merged over shards; asan runs 1/8 of the cases)
    f = (lambda q: max(1, q // div)) if asan else (lambda q: q)
    rec.floor('strain:solved', f(120))
    rec.floor(f'reach:{ctx.flavour}:Strain', 10)
    rec.floor(f'reach:{ctx.flavour}:slip_vector', 10)
    rec.floor('strain:atoms-checked', f(10000))
    rec.floor('nye:atoms-checked(homogeneous)', f(8000))
    rec.floor('legacy:solved', f(60))
    rec.floor('strain:p-single:attempted-without-axes', f(12))
    rec.floor('nye:atoms-checked(linear field)', f(1500))
    rec.floor('nye:nonzero-components-checked', f(100))
    rec.floor('nye:atoms-checked(linear field, legacy)', f(500))
    rec.floor('slip:evaluated', f(120))
    rec.floor('slip:atoms-at-plane', f(3000))
    rec.floor('slip:atoms-away', f(2000))
    rec.floor('disregistry:evaluated', f(80))
    rec.floor('disregistry:rows-checked', f(300))
    rec.floor('dd:evaluated', f(120))
    rec.floor('dd:pairs-across-plane', f(10000))
    rec.floor('dd:pairs-same-half', f(10000))
    rec.floor('displacement:rows-checked', f(3000))
    rec.floor('displacement:rows-imposed-checked', f(3000))
    rec.floor('displacement:atoms-crossing-a-boundary', f(300))
    rec.floor('monitor_calls:displacement', f(150))
    rec.floor('displacement:cases-crossing-a-deformed-cell:final', 2)
    rec.floor('displacement:cases-crossing-a-deformed-cell:initial', 2)
    rec.floor('monitor:displacement:rows', f(5000))
    for v in VARIANTS:
        rec.floor(f'invariance:strain:{v}', f(15))
        rec.floor(f'invariance:slip:{v}', f(12))
        rec.floor(f'invariance:dd:{v}', f(12))
    rec.floor('invariance:disregistry:permute', f(10))
    rec.floor('invariance:disregistry:translate', f(4))
    for st in C.STRUCTS:
        rec.floor(f'class:strain:struct={st}', f(12))
        rec.floor(f'class:slip:struct={st}', f(10))
    for o in C.ORIENTS:
        rec.floor(f'class:strain:orient={o}', f(20))
        rec.floor(f'class:slip:orient={o}', f(16))
    for fc in C.FCLASSES:
        rec.floor(f'class:strain:fclass={fc}', f(3 if fc == 'identity' else 10))
    for p in PSRC:
        rec.floor(f'class:strain:psrc={p}', f(12))
    for sc_ in C.SCLASSES:
        rec.floor(f'class:slip:sclass={sc_}', f(12))
    for pc in PBCC:
        rec.floor(f'class:slip:pbcclass={pc}', f(16))
    for ax in range(3):
        rec.floor(f'class:slip:axis={ax}', f(16))
    rec.floor('class:slip:wrapped=True', f(24))
    rec.floor('class:slip:ref=0', f(24))
    rec.floor('class:slip:ref=1', f(24))
    rec.floor('class:nyefield:pbc=ppp', f(16))
    rec.floor('class:nyefield:pbc=fff', f(16))
    for r in BOXREF:
        rec.floor(f'class:displacement:ref={r}', f(30))
    for fl in FIELDS:
        rec.floor(f'class:displacement:field={fl}', f(16))
    if not asan:
        rec.floor('legacy-dd:pairs-checked', 2000)
    # ---- round 4: one object / the same argument objects through several states
    for ch in CHANGES:
        rec.floor(f'class:restrain:change={ch}', f(5))
        if ch != 'overwrite':
            rec.floor(f'restrain:evaluated:{ch}', f(4))
    for r in READ1:
        rec.floor(f'class:restrain:read1={r}', f(3))
    for r in READ2:
        rec.floor(f'class:restrain:read2={r}', f(8))
    for p in RPSRC:
        rec.floor(f'class:restrain:psrc={p}', f(6))
    rec.floor('restrain:derived-read,changed,solve_G()-without-argument', f(16))
    rec.floor('restrain:kept-results-rejudged', f(60))
    rec.floor('restrain:deepcopy-original-rejudged', f(4))
    rec.floor('restrain:reread-after-the-caller-overwrote', f(2))
    rec.floor('restrain:p-argument-compared', f(12))
    rec.floor('restrain:p-buffer-reused-before-the-lazy-solve', f(12))
    for h in RESLIP:
        rec.floor(f'class:reslip:hist={h}', f(5))
        for tool in ('slip', 'disregistry', 'displacement', 'dd'):
            rec.floor(f'reslip:{tool}-judged:{h}', f(4))
    for tool in ('slip', 'disregistry', 'displacement', 'dd'):
        rec.floor(f'reslip:{tool}-judged:again', f(20))
    for x in ('neighbors', 'cutoff', 'attribute'):
        rec.floor(f'class:reslip:form={x}', f(8))
    for x in ('ndarray', 'list', 'tuple'):
        rec.floor(f'class:reslip:argform={x}', f(8))
    rec.floor('reslip:kept-results-rejudged', f(80))
    rec.floor('reslip:repeat-compared', f(80))
    rec.floor('reslip:arguments-compared', f(24))
    rec.floor('reslip:dd-pairs-across-plane', f(20000))
    rec.floor('reslip:dd-reread-after-the-caller-overwrote', f(4))
    for h in ('solve_G()', 'clear_properties()', 'solve_G(theta_max)'):
        rec.floor(f'nyefield:reset:{h}', f(10))
    rec.floor('nye:atoms-checked(linear field, second reference)', f(1500))
    rec.floor('displacement:result-aliasing-checked', f(100))
    rec.floor('strain:p-argument-compared', f(60))
