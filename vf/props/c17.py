"""C17 - Analysis tools recover a known imposed deformation exactly.

Perfect reference crystals (built with numpy from lattice + basis) are given a
known deformation; every analysis tool of the property is run on the pair
(reference, deformed) and its result is compared with what the imposed
deformation dictates (vf/oracle/c17_deform.py).

Conventions (checked against the docstrings and the unchanged code):
* displacement(s0, s1) = x1 - x0 through the boundaries of the named box.
* Strain: rows Q G = P, so a homogeneous x -> F x gives G = F^-T; strain =
  sym(I - G), rotation = skew(I - G); Nye = -curl G, alpha_jk = -eps_jmi d_m G_ik.
* slip_vector: s_i = -sum_j [d_ij(1) - d_ij(0)], d_ij = x_j - x_i, hence for a rigid
  slip s_i = (u_own - u_other) * (number of neighbours of i in the other half).
* disregistry = displacement(above layer) - displacement(below layer).
* DifferentialDisplacement.ddvectors = d_ij(1) - d_ij(0) = u_j - u_i, listed atom by
  atom in neighbour-list order.
"""
from __future__ import annotations

import numpy as np

from ..core import fingerprint
from ..gen import c17_crystals as C
from ..oracle import c17_deform as O
from ..oracle import geometry as G
from .. import monitor

RULE = ('reference crystals: fcc/bcc/hcp/B2/L1_2 x 3 orientations (conventional, rotated orthogonal, rotated '
        'triclinic; built with numpy) x neighbour cutoffs after the 1st/2nd/3rd complete shell x cell sizes x box '
        'origin classes, all round-robin by case index.  Five groups: homogeneous F (6 classes incl. pure rotation, '
        '|F-I| <= 0.03) x 5 ways of giving the reference vectors; linearly varying correspondence field (Nye = -curl G); '
        'rigid slip of one half (3 plane normals x 4 slip classes x 3 periodicity classes x wrapped or not); imposed '
        'displacement fields (8 pbc settings x 3 box references x 5 field classes); legacy differential_displacement. '
        'Every strain/slip case is repeated under a common translation (then wrap) and/or a consistent renumbering. '
        'A case is non-trivial when the imposed deformation is not the identity / zero; distinct = distinct fingerprint '
        'of (positions, cell, deformation).')
ASSUMPTIONS = ['every periodic width of the cell exceeds 2(cutoff + largest imposed relative displacement)/0.9, so the '
               'nearest image of every neighbour separation is unique before and after the deformation',
               'neighbour cutoffs lie at the geometric mean of two successive shell radii whose ratio is >= 1.10, and '
               'neighbour sets contain no two collinear vectors (the p/q matching of Strain is by direction)',
               '|F - I|_Frobenius <= 0.03; slip planes lie 30-70 % of the way between two atomic layers',
               'the neighbour list itself is the subject of C03; here the oracle list only has to agree with it',
               'oracle shares numpy/LAPACK with the code under test']

T3 = (True, True, True)


# ====================================================================== helpers
class Scen:
    """A (reference, deformed) pair of atomic configurations."""

    def __init__(self, pos0, pos1, types, vects0, vects1, origin0, origin1, pbc, patom=None):
        self.pos0, self.pos1, self.types = np.array(pos0, float), np.array(pos1, float), np.array(types)
        self.vects0, self.vects1 = np.array(vects0, float), np.array(vects1, float)
        self.origin0, self.origin1 = np.array(origin0, float), np.array(origin1, float)
        self.pbc = tuple(bool(x) for x in pbc)
        self.patom = patom                      # per-atom reference vectors (n, k, 3) or None
        self.perm = np.arange(len(self.pos0))   # atom k of this scenario is atom perm[k] of the base scenario
        self.shift = np.zeros(3)
        self.kind = 'base'

    @property
    def n(self):
        return len(self.pos0)

    def systems(self, am):
        s0 = am.System(atoms=am.Atoms(atype=self.types.copy(), pos=self.pos0.copy()),
                       box=am.Box(vects=self.vects0.copy(), origin=self.origin0.copy()), pbc=self.pbc)
        s1 = am.System(atoms=am.Atoms(atype=self.types.copy(), pos=self.pos1.copy()),
                       box=am.Box(vects=self.vects1.copy(), origin=self.origin1.copy()), pbc=self.pbc)
        return s0, s1

    def variant(self, rng, kind):
        """Both systems translated together (then wrapped) and/or renumbered consistently."""
        v = Scen(self.pos0, self.pos1, self.types, self.vects0, self.vects1, self.origin0, self.origin1, self.pbc,
                 self.patom)
        v.kind = kind
        if kind in ('translate', 'both'):
            L = np.linalg.norm(self.vects0, axis=1).max()
            t = rng.uniform(-1, 1, 3) * L * rng.choice([0.05, 0.6])
            v.shift = t
            # along a non-periodic direction the cell moves with the atoms (they cannot be wrapped
            # and the neighbour list requires atoms inside the cell); along periodic ones the
            # cell stays and the atoms are wrapped back into it
            for vects, origin in ((v.vects0, v.origin0), (v.vects1, v.origin1)):
                rt = np.linalg.solve(vects.T, t)
                for k in range(3):
                    if not v.pbc[k]:
                        origin += rt[k] * vects[k]
            v.pos0 = C.wrap(v.pos0 + t, v.vects0, v.origin0, v.pbc)
            v.pos1 = C.wrap(v.pos1 + t, v.vects1, v.origin1, v.pbc)
        if kind in ('permute', 'both'):
            p = rng.permutation(self.n)
            v.perm = p
            v.pos0, v.pos1, v.types = v.pos0[p], v.pos1[p], v.types[p]
            if v.patom is not None:
                v.patom = v.patom[p]
        return v

    def unpermute(self, arr):
        out = np.empty_like(arr)
        out[self.perm] = arr
        return out


VARIANTS = ['translate', 'permute', 'both']


def pad_free(cry, pbc, frac=0.2):
    """Vacuum along the non-periodic directions: the cell vector is lengthened and the
    atoms keep their mutual positions (every tool requires atoms inside the cell, and a
    slipped half must not leave it)."""
    vects, pos = cry['vects'].copy(), cry['pos'].copy()
    for k in range(3):
        if not pbc[k]:
            pos += frac * vects[k]
            vects[k] = vects[k] * (1 + 2 * frac)
    cry['vects'], cry['pos'] = vects, pos
    return cry


def nl_equal(nl, nidx):
    """The real neighbour list holds exactly the oracle's pairs."""
    try:
        return all(np.array_equal(np.sort(np.asarray(nl[i])), nidx[i]) for i in range(len(nidx)))
    except Exception:
        return False


# ====================================================================== displacement monitor
def install_monitors(rec, am):
    """Postcondition on every call of atomman.displacement (also the internal one of disregistry)."""
    def post_disp(args, kwargs, result, exc, old):
        if exc is not None:
            return
        s0, s1 = args[0], args[1]
        ref = args[2] if len(args) > 2 else kwargs.get('box_reference', 'final')
        d = np.asarray(s1.atoms.pos) - np.asarray(s0.atoms.pos)
        if ref is None:
            rec.close(0.0, result, d, 'monitor: displacement(box_reference=None) is the plain difference', 'monitor:displacement:none')
            return
        rs = s1 if ref == 'final' else s0
        v, pbc = np.asarray(rs.box.vects), tuple(bool(x) for x in rs.pbc)
        ln, best, _ = G.min27(d, v, pbc)
        ok = ln < 0.98 * O.unique_image_radius(v, pbc)
        rec.count('monitor:displacement:rows', int(ok.sum()))
        rec.count('monitor:displacement:rows-exempt(no unique image)', int((~ok).sum()))
        L = np.linalg.norm(v, axis=1).max() + np.abs(np.asarray(s0.atoms.pos)).max(initial=0)
        res = np.asarray(result)
        if res.shape != d.shape:
            rec.fail('monitor: displacement is the separation through the boundaries of the reference box',
                     'monitor:displacement:shape', got_shape=res.shape)
            return
        rec.close(1e-11 * L, res[ok], best[ok], 'monitor: displacement is the separation through the boundaries of the reference box',
                  f'monitor:displacement:{ref}')

    real = am.displacement
    w, n = monitor.observe_function(real, post_disp, label='displacement')
    rec.count('monitor:displacement-aliases-patched', n)
    return w


# ====================================================================== group 1: homogeneous deformation
PSRC = ['base', 'base-nl', 'p-single', 'p-atom', 'p-axes']


def strat_strain(i):
    struct = C.STRUCTS[i % 5]
    orient = C.ORIENTS[(i // 5) % 3]
    fclass = C.FCLASSES[i % 6] if i % 30 != 29 else 'identity'
    if fclass == 'identity' and i % 30 != 29:
        fclass = 'general'                                   # identity only once per 30 cases
    psrc = PSRC[(i + i // 5) % 5]
    shell = (i // 3) % 3
    variant = VARIANTS[(i // 2) % 3]
    pbcclass = 'ppp' if (i // 4) % 4 else 'free-' + 'abc'[(i // 16) % 3]
    origin = ['zero', 'near', 'far'][(i // 7) % 3]
    size = (i // 11) % 3
    return dict(struct=struct, orient=orient, fclass=fclass, psrc=psrc, shell=shell, variant=variant,
                pbcclass=pbcclass, origin=origin, size=size)


def p_argument(cls, cry, sc, i):
    """(p_vectors, axes) for the p-vector ways of giving the reference."""
    same = all(len(v) == len(cry['site_vectors'][0]) and
               np.allclose(np.sort(v, axis=0), np.sort(cry['site_vectors'][0], axis=0), atol=1e-9)
               for v in cry['site_vectors'])
    if cls == 'p-single' and not same:
        cls = 'p-atom'                                       # hcp: two different environments
    if cls == 'p-single':
        p = cry['site_vectors'][0].copy()
        return ([p] if i % 2 else p), None, cls
    if cls == 'p-atom':
        return sc.patom.copy(), None, cls
    if cls == 'p-axes':
        svc = cry['site_vectors_crystal']
        axes = cry['R'] * np.array([1.0, 2.5, 0.5])[:, None]         # axes need not be unit vectors
        if same:
            return svc[0].copy(), axes, cls
        site = np.asarray(cry['site'])[sc.perm]
        return np.array([svc[s] for s in site]), axes, cls
    raise ValueError(cls)


def strain_outputs(ctx, am, cls, cry, sc, cutoff, theta, i, tag):
    """Run Strain (and the legacy nye_tensor where it applies) on one scenario."""
    rec = ctx.rec
    out = {}
    s0, s1 = sc.systems(am)
    st = None
    if cls in ('p-single', 'p-atom', 'p-axes'):
        p, axes, cls2 = p_argument(cls, cry, sc, i)
        if cls2 == 'p-single':
            # one list of reference vectors for all atoms (documented form)
            rec.count('strain:p-single:attempted-without-axes')
            try:
                am.defect.Strain(s1, cutoff=cutoff, p_vectors=p, theta_max=theta).G
                rec.count('strain:p-single:solved-without-axes')
            except ValueError as e:
                if 'read-only' in str(e):
                    rec.fail('Strain accepts one list of reference vectors for all atoms',
                             'strain:p-single:read-only-buffer', exception=e)
                    axes = np.eye(3)            # the same list goes through when axes are given: keep checking the values
                else:
                    rec.fail('Strain accepts one list of reference vectors for all atoms', 'strain:p-single:build', exception=e)
            except Exception as e:
                rec.fail('Strain accepts one list of reference vectors for all atoms', 'strain:p-single:build', exception=e)
    with ctx.guard('Strain can be built and solved for a homogeneously deformed crystal', f'strain:{cls}:build'):
        if cls == 'base':
            st = am.defect.Strain(s1, cutoff=cutoff, basesystem=s0, theta_max=theta)
        elif cls == 'base-nl':
            nl1 = s1.neighborlist(cutoff=cutoff)
            nl0 = s0.neighborlist(cutoff=cutoff)
            st = am.defect.Strain(s1, neighbors=nl1, basesystem=s0, baseneighbors=nl0, theta_max=theta)
        else:
            st = am.defect.Strain(s1, cutoff=cutoff, p_vectors=p, axes=axes, theta_max=theta)
            out['p'], out['axes'] = p, axes
        out['G'] = np.array(st.G)
        out['strain'] = np.array(st.strain)
        out['rotation'] = np.array(st.rotation)
        out['invariant1'] = np.array(st.invariant1)
        out['invariant2'] = np.array(st.invariant2)
        out['invariant3'] = np.array(st.invariant3)
        out['angularvelocity'] = np.array(st.angularvelocity)
        out['nye'] = np.array(st.nye)
        out['neighbors'] = st.neighbors
        rec.count('strain:solved')
        rec.count(f'reach:{ctx.flavour}:Strain')
    if 'nye' not in out:
        return None
    if 'p' in out or all(sc.pbc):
        # legacy function on the same input
        if 'p' in out:
            p, axes = out['p'], out['axes']
        else:
            p, axes = sc.patom.copy(), None
        with ctx.guard('nye_tensor (legacy) can be evaluated for a homogeneously deformed crystal', f'legacy:{cls}:call'):
            leg = am.defect.nye_tensor(s1, p, theta_max=theta, axes=axes, cutoff=cutoff)
            out['legacy'] = {k: np.array(v) for k, v in leg.items()}
            rec.count('legacy:solved')
    return out


LEGACY_KEYS = {'strain': 'strain', 'strain_invariant_1': 'invariant1', 'strain_invariant_2': 'invariant2',
               'strain_invariant_3': 'invariant3', 'angular_velocity': 'angularvelocity', 'Nye_tensor': 'nye'}


def check_strain(rec, out, F, sc, a, ok_atoms, cls, tag):
    """Every clause of the homogeneous-deformation part against the oracle."""
    n = sc.n
    Gexp = O.G_from_F(F)
    e = O.strain_from_G(Gexp)
    r = O.rotation_from_G(Gexp)
    i1, i2, i3 = O.invariants(e)
    av = O.angular_velocity(r)
    m = ok_atoms
    rec.count('strain:atoms-checked', int(m.sum()))
    rec.count('strain:atoms-exempt(neighbour vectors do not span space)', int((~m).sum()))
    k = f'{tag}{cls}'

    def full(x):
        return np.broadcast_to(x, (int(m.sum()),) + np.shape(x))
    if out['G'].shape != (n, 3, 3):
        rec.fail('G has one 3x3 tensor per atom', f'strain:{k}:G-shape', got=out['G'].shape)
        return
    rec.close(1e-9, out['G'][m], full(Gexp), 'homogeneous F: G equals the inverse transpose of F at every atom', f'strain:{k}:G', F=F)
    rec.close(1e-9, out['strain'][m], full(e), 'strain is the symmetric part of I - G (G = F^-T)', f'strain:{k}:strain', F=F)
    rec.close(1e-9, out['rotation'][m], full(r), 'rotation is the antisymmetric part of I - G (G = F^-T)', f'strain:{k}:rotation', F=F)
    rec.close(1e-9, out['invariant1'][m], full(i1), 'first invariant is the trace of the strain', f'strain:{k}:invariant1')
    rec.close(1e-10, out['invariant2'][m], full(i2), 'second invariant is (tr^2 - tr(e.e))/2 of the strain', f'strain:{k}:invariant2')
    rec.close(1e-11, out['invariant3'][m], full(i3), 'third invariant is the determinant of the strain', f'strain:{k}:invariant3')
    rec.close(1e-9, out['angularvelocity'][m], full(av), 'angular velocity is the length of the axial vector of the rotation', f'strain:{k}:angularvelocity')
    # the derived quantities follow from the tool's own G as well (any G, not only the expected one)
    rec.close(1e-12, out['strain'], O.strain_from_G(out['G']), 'strain follows from the returned G', f'strain:{k}:strain-of-G')
    rec.close(1e-12, out['rotation'], O.rotation_from_G(out['G']), 'rotation follows from the returned G', f'strain:{k}:rotation-of-G')
    j1, j2, j3 = O.invariants(out['strain'])
    rec.close(1e-12, out['invariant1'], j1, 'invariants follow from the returned strain', f'strain:{k}:inv1-of-strain')
    rec.close(1e-12, out['invariant2'], j2, 'invariants follow from the returned strain', f'strain:{k}:inv2-of-strain')
    rec.close(1e-12, out['invariant3'], j3, 'invariants follow from the returned strain', f'strain:{k}:inv3-of-strain')
    rec.close(1e-12, out['angularvelocity'], O.angular_velocity(out['rotation']), 'angular velocity follows from the returned rotation', f'strain:{k}:angvel-of-rotation')
    # Nye tensor vanishes where the atom and all its neighbours have a determined G
    mn = m.copy()
    for i in range(n):
        if m[i] and not m[np.asarray(out['neighbors'][i], int)].all():
            mn[i] = False
    rec.count('nye:atoms-checked(homogeneous)', int(mn.sum()))
    if out['nye'].shape != (n, 3, 3):
        rec.fail('Nye tensor has one 3x3 tensor per atom', f'strain:{k}:nye-shape', got=out['nye'].shape)
    else:
        rec.close(1e-8 / a, out['nye'][mn], np.zeros((int(mn.sum()), 3, 3)), 'homogeneous F: the Nye tensor vanishes', f'strain:{k}:nye', F=F)
    leg = out.get('legacy')
    if leg is not None:
        exp = dict(strain=e, invariant1=i1, invariant2=i2, invariant3=i3, angularvelocity=av, nye=np.zeros((3, 3)))
        tol = dict(strain=1e-9, invariant1=1e-9, invariant2=1e-10, invariant3=1e-11, angularvelocity=1e-9, nye=1e-8 / a)
        for lk, nk in LEGACY_KEYS.items():
            if lk not in leg:
                rec.fail('legacy nye_tensor returns strain, the three invariants, angular velocity and Nye tensor', f'legacy:{k}:missing-{nk}')
                continue
            mm = mn if nk == 'nye' else m
            if leg[lk].shape[:1] != (n,):
                rec.fail('legacy nye_tensor returns per-atom arrays', f'legacy:{k}:{nk}-shape', got=leg[lk].shape)
                continue
            rec.close(tol[nk], leg[lk][mm], np.broadcast_to(exp[nk], (int(mm.sum()),) + np.shape(exp[nk])),
                      f'legacy nye_tensor: {nk} of a homogeneous deformation', f'legacy:{k}:{nk}', F=F)


def run_strain_case(ctx, am, i):
    rec, rng = ctx.rec, ctx.rng
    cl = strat_strain(i)
    shrink = ctx.flavour == 'asan'
    cry = C.gen_crystal(rng, cl['struct'], cl['orient'], cl['shell'], 0 if shrink else cl['size'], cl['origin'],
                        need=2.45, maxatoms=500 if ctx.quick or shrink else 1200)
    F = C.gen_F(rng, cl['fclass'])
    pbc = T3 if cl['pbcclass'] == 'ppp' else tuple(k != 'abc'.index(cl['pbcclass'][-1]) for k in range(3))
    cry = pad_free(cry, pbc)
    cutoff, a = cry['cutoff'], cry['a']
    theta = [27, 27, 20, 35][int(rng.integers(0, 4))]
    pos0 = cry['pos']
    sc = Scen(pos0, pos0 @ F.T, cry['types'], cry['vects'], cry['vects'] @ F.T, cry['origin'], F @ cry['origin'], pbc,
              patom=np.array([cry['site_vectors'][s] for s in cry['site']]))
    rec.case(('strain', cl['struct'], cl['orient'], 'shell%d' % cry['shell']['nshell'], cl['fclass'], cl['psrc'], cl['pbcclass'], cl['variant']),
             nontrivial=cl['fclass'] != 'identity', fp=fingerprint(pos0, cry['vects'], F))
    for k_, v_ in cl.items():
        rec.count(f'class:strain:{k_}={v_}')
    if i < 12:
        rec.sample(dict(classes=cl, natoms=sc.n, cutoff=cutoff, shell=cry['shell'], F=F, mults=cry['mults'], a=a, theta_max=theta))
    # oracle neighbourhood of the reference
    nidx, nvec, margin = O.neighbours(sc.pos0, sc.vects0, sc.pbc, cutoff)
    if margin < 0.035 * cutoff or not O.no_double_images(nidx):
        rec.count('strain:case-exempt(pair too near the cutoff)')
        return
    if min(len(x) for x in nidx) < 2:
        rec.count('strain:case-exempt(free-surface atom with a single neighbour)')
        return
    ok = np.array([len(v) >= 3 and np.linalg.matrix_rank(v, tol=1e-6 * a) == 3 and np.linalg.cond(v) < 50 for v in nvec])
    results = {}
    for sv in (sc, sc.variant(rng, cl['variant'])):
        out = strain_outputs(ctx, am, cl['psrc'], cry, sv, cutoff, theta, i, sv.kind)
        if out is None:
            continue
        same_nl = nl_equal(out['neighbors'], [np.sort(np.argsort(sv.perm)[nidx[j]]) for j in sv.perm])
        rec.check(same_nl, 'the neighbour list of the deformed crystal holds the pairs of the complete shells', 'strain:neighbours')
        okv = ok[sv.perm]
        check_strain(rec, out, F, sv, a, okv, cl['psrc'], '' if sv.kind == 'base' else 'variant:')
        results[sv.kind] = (sv, out)
        rec.count(f'strain:evaluated:{sv.kind}')
    if 'base' in results and len(results) == 2:
        sv, outv = [v for k, v in results.items() if k != 'base'][0]
        outb = results['base'][1]
        for name, tol in (('G', 1e-9), ('strain', 1e-9), ('rotation', 1e-9), ('invariant1', 1e-9), ('invariant2', 1e-10),
                          ('invariant3', 1e-11), ('angularvelocity', 1e-9), ('nye', 1e-8 / a)):
            rec.close(tol, sv.unpermute(outv[name])[ok], outb[name][ok],
                      f'Strain results are unchanged by a common translation / consistent renumbering ({name})',
                      f'invariance:{sv.kind}:strain:{name}')
        rec.count(f'invariance:strain:{sv.kind}')


# ====================================================================== group 2: linear correspondence field
def run_nyefield_case(ctx, am, i):
    rec, rng = ctx.rec, ctx.rng
    struct = C.STRUCTS[i % 5]
    orient = C.ORIENTS[(i // 5) % 3]
    shell = (i // 2) % 3
    pbc = T3 if i % 2 else (False, False, False)
    how = ['Strain', 'Strain+legacy'][(i // 2) % 2]
    for sh in range(shell, 3):
        cry = C.gen_crystal(np.random.default_rng([ctx.seed, 17, i, sh]), struct, orient, sh, 0, ['zero', 'near'][(i // 3) % 2],
                            need=3.2 if all(pbc) else 2.2, maxatoms=450)
        nidx, nvec, margin = O.neighbours(cry['pos'], cry['vects'], pbc, cry['cutoff'])
        if min(len(x) for x in nidx) >= 2:
            break
        # an atom with a single neighbour (corner of a free block, first shell only) is outside the
        # quantifier (perfect crystal environments): take the next shell instead
        rec.count('nyefield:shell-raised(single-neighbour corner atoms)')
    a, cutoff = cry['a'], cry['cutoff']
    pos = cry['pos']
    n = len(pos)
    xc = pos.mean(axis=0)
    A = rng.normal(size=(3, 3, 3))
    if i % 4 == 3:                                           # a single non-zero gradient component: one Nye entry
        A[:] = 0
        A[tuple(rng.integers(0, 3, 3))] = 1.0
    ext = np.abs(pos - xc).max()
    A *= rng.uniform(0.01, 0.04) / (np.abs(A).sum(axis=2).max() * ext)
    Gi = np.eye(3) + np.einsum('abm,nm->nab', A, pos - xc)
    sitev = cry['site_vectors']
    patom = np.array([sitev[s] @ Gi[k] for k, s in enumerate(cry['site'])])       # P = Q G
    rec.case(('nyefield', struct, orient, 'shell%d' % cry['shell']['nshell'], 'ppp' if all(pbc) else 'fff', how),
             nontrivial=True, fp=fingerprint(pos, A))
    rec.count(f'class:nyefield:pbc={"ppp" if all(pbc) else "fff"}')
    if i < 6:
        rec.sample(dict(struct=struct, orient=orient, natoms=n, cutoff=cutoff, pbc=pbc, gradG=A, expected_nye=O.nye_from_gradient(A)))
    ok = np.array([len(v) >= 3 and np.linalg.matrix_rank(v, tol=1e-6 * a) == 3 and np.linalg.cond(v) < 50 for v in nvec])
    interior = ok.copy()
    for k in range(n):
        if ok[k]:
            direct = np.abs((pos[nidx[k]] - pos[k]) - nvec[k]).max() < 1e-8
            if not (direct and ok[nidx[k]].all() and len(nidx[k]) >= 4 and np.linalg.cond(nvec[k]) < 50):
                interior[k] = False
    sc = Scen(pos, pos, cry['types'], cry['vects'], cry['vects'], cry['origin'], cry['origin'], pbc, patom=patom)
    s0, _ = sc.systems(am)
    nye_exp = O.nye_from_gradient(A)
    scale = np.abs(A).max()
    st_nye = None
    with ctx.guard('Strain accepts per-atom reference vectors', 'nyefield:Strain'):
        st = am.defect.Strain(s0, cutoff=cutoff, p_vectors=patom.copy())
        Gm = np.array(st.G)
        st_nye = np.array(st.nye)
    if st_nye is not None:
        rec.close(1e-9, Gm[ok], Gi[ok], 'per-atom reference vectors p = q.G_i: the returned G is G_i', 'nyefield:G')
        rec.close(1e-8 / a, st_nye[interior], np.broadcast_to(nye_exp, (int(interior.sum()), 3, 3)),
                  'linearly varying G: Nye tensor equals -curl G (alpha_jk = -eps_jmi d_m G_ik)', 'nyefield:nye', gradG=A,
                  rel_scale=scale)
        rec.count('nye:atoms-checked(linear field)', int(interior.sum()))
        rec.count('nye:nonzero-components-checked', int((np.abs(nye_exp) > 1e-3 * scale).sum()) * int(interior.sum() > 0))
    if how == 'Strain+legacy':
        leg = None
        with ctx.guard('legacy nye_tensor accepts per-atom reference vectors', 'nyefield:legacy'):
            leg = am.defect.nye_tensor(s0, patom.copy(), cutoff=cutoff)
        if leg is not None:
            rec.close(1e-8 / a, np.asarray(leg['Nye_tensor'])[interior], np.broadcast_to(nye_exp, (int(interior.sum()), 3, 3)),
                      'legacy nye_tensor: linearly varying G gives -curl G', 'nyefield:legacy-nye', gradG=A)
            rec.close(1e-9, np.asarray(leg['strain'])[ok], O.strain_from_G(Gi)[ok], 'legacy nye_tensor: strain of per-atom G_i', 'nyefield:legacy-strain')
            rec.count('nye:atoms-checked(linear field, legacy)', int(interior.sum()))


# ====================================================================== group 3: rigid slip
PBCC = ['ppp', 'normal-free', 'inplane-free']


def strat_slip(i):
    struct = C.STRUCTS[i % 5]
    orient = C.ORIENTS[(i // 5) % 3]
    axis = (i + i // 3) % 3
    sclass = C.SCLASSES[i % 4]
    pbcclass = PBCC[(i // 4) % 3]
    wrapped = bool((i // 2) % 2)
    shell = (i // 6) % 2
    variant = VARIANTS[(i // 2 + i // 12) % 3]
    origin = ['zero', 'near', 'far'][(i // 7) % 3]
    ref = (i // 3) % 2
    return dict(struct=struct, orient=orient, axis=axis, sclass=sclass, pbcclass=pbcclass, wrapped=wrapped, shell=shell,
                variant=variant, origin=origin, ref=ref)


def slip_outputs(ctx, am, sc, cutoff, cl, sl, i, planepos, m_vec, do_dis):
    rec = ctx.rec
    s0, s1 = sc.systems(am)
    out = {}
    with ctx.guard('slip_vector can be evaluated for a rigidly slipped crystal', 'slip:call'):
        if i % 2:
            out['nl0'] = s0.neighborlist(cutoff=cutoff)
            out['slip'] = np.array(am.defect.slip_vector(s0, s1, neighbors=out['nl0']))
        else:
            out['slip'] = np.array(am.defect.slip_vector(s0, s1, cutoff=cutoff))
        rec.count('slip:evaluated')
        rec.count(f'reach:{ctx.flavour}:slip_vector')
    if do_dis:
        with ctx.guard('disregistry can be evaluated for a slip plane between two atomic layers', 'disregistry:call'):
            if cl.get('defaults'):
                coord, dis = am.defect.disregistry(s0, s1, planepos=planepos)
            else:
                coord, dis = am.defect.disregistry(s0, s1, m=m_vec, n=sl['n'], planepos=planepos)
            out['coord'], out['dis'] = np.array(coord), np.array(dis)
            rec.count('disregistry:evaluated')
    with ctx.guard('DifferentialDisplacement can be solved for a rigidly slipped crystal', 'dd:call'):
        how = i % 3
        if how == 0:
            dd = am.defect.DifferentialDisplacement(s0, s1, cutoff=cutoff, reference=cl['ref'])
        elif how == 1:
            ref_sys = s0 if cl['ref'] == 0 else s1
            dd = am.defect.DifferentialDisplacement(s0, s1, neighbors=ref_sys.neighborlist(cutoff=cutoff), reference=cl['ref'])
        else:
            dd = am.defect.DifferentialDisplacement(s0, s1, reference=cl['ref'])
            dd.solve(cutoff=cutoff)
        out['dd'] = np.array(dd.ddvectors)
        out['ddnl'] = [np.asarray(dd.neighbors[k], int) for k in range(sc.n)]
        out['ddref'] = dd.reference
        rec.count('dd:evaluated')
    return out


def check_slip(rec, out, sc, sl, nidx, expected, nacross, u, cutoff, cl, tag, m_vec, a):
    n = sc.n
    s = sl['s']
    upper = sl['upper'][sc.perm]
    uu = u[sc.perm]
    if 'slip' in out:
        sv = out['slip']
        if sv.shape != (n, 3):
            rec.fail('slip_vector returns one vector per atom', f'slip:{tag}shape', got=sv.shape)
        else:
            e = expected[sc.perm]
            k = nacross[sc.perm]
            at = k > 0
            rec.close(1e-9 * (1 + k.max()), sv[at], e[at],
                      'slip vector = (own-half displacement - other-half displacement) x number of neighbours across the plane',
                      f'slip:{tag}{cl["pbcclass"]}:at-plane', s=s, pbc=sc.pbc, wrapped=cl['wrapped'])
            rec.close(1e-9, sv[~at], e[~at], 'slip vector is zero away from the slip plane', f'slip:{tag}{cl["pbcclass"]}:away', s=s, pbc=sc.pbc)
            rec.count('slip:atoms-at-plane', int(at.sum()))
            rec.count('slip:atoms-away', int((~at).sum()))
            if cl['pbcclass'] != 'normal-free' and at.any():
                rec.count('slip:atoms-across-periodic-boundary-plane')
        if 'nl0' in out:
            rec.check(nl_equal(out['nl0'], [np.sort(np.argsort(sc.perm)[nidx[j]]) for j in sc.perm]),
                      'the neighbour list of the reference crystal holds the pairs of the complete shells', 'slip:neighbours')
    if 'dis' in out:
        coord, dis = out['coord'], out['dis']
        okshape = dis.ndim == 2 and dis.shape[1:] == (3,) and coord.shape == (len(dis),) and len(dis) > 0
        rec.check(okshape, 'disregistry returns N coordinates and an (N,3) array', f'disregistry:{tag}shape', got=(coord.shape, dis.shape))
        if okshape:
            rec.close(1e-9, dis, np.broadcast_to(s, dis.shape), 'disregistry across the slip plane equals the imposed slip',
                      f'disregistry:{tag}value', s=s, wrapped=cl['wrapped'], pbc=sc.pbc)
            # the coordinates are those of the atoms in the two layers adjoining the plane
            h = (sc.pos0 - sc.origin0) @ sl['n']
            hp = (out['planepos'] - sc.origin0) @ sl['n']
            above = h[h > hp].min()
            below = h[h < hp].max()
            adj = (np.abs(h - above) < 1e-6) | (np.abs(h - below) < 1e-6)
            xs = sc.pos0[adj] @ out['m']
            d1 = np.abs(coord[:, None] - xs[None, :]).min(axis=1).max()
            d2 = np.abs(coord[:, None] - xs[None, :]).min(axis=0).max()
            rec.check(max(d1, d2) < 1e-7, 'disregistry coordinates are the m-coordinates of the atoms adjoining the slip plane',
                      f'disregistry:{tag}coord', err=(d1, d2), ncoord=len(coord))
            rec.check(bool(np.all(np.diff(coord) > 0)), 'disregistry coordinates are increasing', f'disregistry:{tag}coord-sorted')
            rec.count('disregistry:rows-checked', len(dis))
    if 'dd' in out:
        nl = out['ddnl']
        exp = np.concatenate([uu[nl[k]] - uu[k] for k in range(n) if len(nl[k])] or [np.zeros((0, 3))])
        dd = out['dd']
        if dd.shape != exp.shape:
            rec.fail('ddvectors lists one vector per neighbour pair', f'dd:{tag}shape', got=dd.shape, expected=exp.shape)
        else:
            rec.close(1e-9, dd, exp, 'differential displacement of a pair = difference of the two imposed displacements',
                      f'dd:{tag}ref{cl["ref"]}:value', s=s, wrapped=cl['wrapped'], pbc=sc.pbc)
            nz = np.abs(exp).max(axis=1) > 0
            rec.count('dd:pairs-across-plane', int(nz.sum()))
            rec.count('dd:pairs-same-half', int((~nz).sum()))
        rec.check(out['ddref'] == cl['ref'], 'DifferentialDisplacement remembers its reference system', f'dd:{tag}reference')
        if cl['ref'] == 0:
            rec.check(nl_equal(nl, [np.sort(np.argsort(sc.perm)[nidx[j]]) for j in sc.perm]),
                      'reference=0: the listed pairs are the neighbour pairs of the reference crystal', f'dd:{tag}ref0:pairs')
        else:
            # neighbour pairs of the slipped crystal: separation below the cutoff in system1
            d1 = np.concatenate([G.min27(sc.pos1[nl[k]] - sc.pos1[k], sc.vects1, sc.pbc)[0] for k in range(n) if len(nl[k])] or [np.zeros(0)])
            rec.check(bool((d1 < cutoff + 1e-9).all()), 'reference=1: the listed pairs are neighbour pairs of the slipped crystal', f'dd:{tag}ref1:pairs')
            cnt = sum(len(x) for x in nl)
            rec.count('dd:ref1-pairs', cnt)


def run_slip_case(ctx, am, i):
    rec, rng = ctx.rec, ctx.rng
    cl = strat_slip(i)
    shrink = ctx.flavour == 'asan'
    lat, basis, types, fam, a0 = C.unit_cell(cl['struct'], np.random.default_rng(0))
    target = {'inplane-small': 0.2, 'inplane-large': 0.78, 'opening': 0.45, 'general': 0.5}[cl['sclass']]
    # need: 0.45 w >= cutoff + smax  (cutoff ~ 0.8-1.3 a); the generator takes a factor of the cutoff
    need = (1.0 + target / 0.8) / 0.45 * 1.03
    cry = C.gen_crystal(rng, cl['struct'], cl['orient'], cl['shell'], 0, cl['origin'], need=need,
                        maxatoms=700 if ctx.quick or shrink else 1400)
    a, cutoff = cry['a'], cry['cutoff']
    axis = cl['axis']
    if cl['pbcclass'] == 'ppp':
        pbc = T3
    elif cl['pbcclass'] == 'normal-free':
        pbc = tuple(k != axis for k in range(3))
    else:
        pbc = tuple(k != (axis + 1 + i % 2) % 3 for k in range(3))
    cry = pad_free(cry, pbc)
    smax = min(target * a, 0.45 * 2 * O.unique_image_radius(cry['vects'], pbc) - cutoff)
    sl = C.gen_slip(rng, cry, axis, cl['sclass'], pbc, smax)
    s = sl['s']
    u = np.where(sl['upper'][:, None], s, 0.0)
    pos0 = cry['pos']
    pos1 = pos0 + u
    if cl['wrapped']:
        pos1 = C.wrap(pos1, cry['vects'], cry['origin'], pbc)
    sc = Scen(pos0, pos1, cry['types'], cry['vects'], cry['vects'], cry['origin'], cry['origin'], pbc)
    # disregistry direction m: a cell edge in the plane, its in-plane normal, or a general in-plane direction
    mk = (i // 5) % 3
    ang = rng.uniform(0, 2 * np.pi)
    m_vec = [sl['e1'], sl['e2'], np.cos(ang) * sl['e1'] + np.sin(ang) * sl['e2']][mk]
    cl['defaults'] = bool(np.allclose(sl['n'], [0, 1, 0], atol=1e-12) and i % 2 == 0)
    if cl['defaults']:
        m_vec = np.array([1.0, 0.0, 0.0])
    rec.case(('slip', cl['struct'], cl['orient'], 'axis%d' % axis, cl['sclass'], cl['pbcclass'], 'wrapped' if cl['wrapped'] else 'unwrapped',
              cl['variant'], 'ref%d' % cl['ref']), nontrivial=True, fp=fingerprint(pos0, cry['vects'], s, sl['hp']))
    for k_, v_ in cl.items():
        rec.count(f'class:slip:{k_}={v_}')
    if i < 12:
        rec.sample(dict(classes=cl, natoms=sc.n, cutoff=cutoff, s=s, normal=sl['n'], plane_height=sl['hp'], layers=(sl['below'], sl['above']),
                        nupper=int(sl['upper'].sum()), pbc=pbc, mults=cry['mults'], a=a))
    nidx, nvec, margin = O.neighbours(pos0, cry['vects'], pbc, cutoff)
    if margin < 1e-6 * cutoff or not O.no_double_images(nidx) or not (0 < sl['upper'].sum() < sc.n):
        rec.count('slip:case-exempt')
        return
    expected, nacross = O.slip_expected(nidx, sl['upper'], s)
    results = {}
    for sv in (sc, sc.variant(rng, cl['variant'])):
        planepos = sl['planepos'] + sv.shift
        do_dis = True
        if sv.kind != 'base' and np.any(sv.shift != 0):
            # the translated plane must still lie between the same two (wrapped) layers
            w = G.perp_widths(sv.vects0)[axis]
            tn = sv.shift @ sl['n']
            hb, hpn, ha = sl['below'] + tn, sl['hp'] + tn, sl['above'] + tn
            if pbc[axis]:
                if np.floor(hb / w) != np.floor(ha / w) or min(abs(hb / w - np.round(hb / w)), abs(ha / w - np.round(ha / w))) < 1e-6:
                    do_dis = False
                    rec.count('disregistry:variant-exempt(wrap splits the adjoining layers)')
                else:
                    planepos = planepos - np.floor(hpn / w) * sv.vects0[axis]
        out = slip_outputs(ctx, am, sv, cutoff, cl, sl, i, planepos, m_vec, do_dis)
        out['planepos'], out['m'] = planepos, m_vec
        check_slip(rec, out, sv, sl, nidx, expected, nacross, u, cutoff, cl, '' if sv.kind == 'base' else 'variant:', m_vec, a)
        results[sv.kind] = (sv, out)
    if len(results) == 2 and 'base' in results:
        sv, outv = [v for k, v in results.items() if k != 'base'][0]
        outb = results['base'][1]
        if 'slip' in outv and 'slip' in outb and outv['slip'].shape == outb['slip'].shape:
            rec.close(1e-9 * (1 + nacross.max()), sv.unpermute(outv['slip']), outb['slip'],
                      'slip vectors are unchanged by a common translation / consistent renumbering', f'invariance:{sv.kind}:slip')
            rec.count(f'invariance:slip:{sv.kind}')
        if 'dis' in outv and 'dis' in outb and outv['dis'].ndim == 2 and outb['dis'].ndim == 2:
            rec.close(1e-9, outv['dis'].mean(axis=0), outb['dis'].mean(axis=0),
                      'disregistry is unchanged by a common translation / consistent renumbering', f'invariance:{sv.kind}:disregistry')
            rec.count(f'invariance:disregistry:{sv.kind}')
        if 'dd' in outv and 'dd' in outb:
            def table(scn, o):
                t = {}
                r = 0
                for k in range(scn.n):
                    for j in o['ddnl'][k]:
                        t[(int(scn.perm[k]), int(scn.perm[j]))] = o['dd'][r] if r < len(o['dd']) else None
                        r += 1
                return t
            tb, tv = table(results['base'][0], outb), table(sv, outv)
            same = set(tb) == set(tv)
            rec.check(same, 'the differential-displacement pairs are unchanged by a common translation / consistent renumbering',
                      f'invariance:{sv.kind}:dd-pairs', nbase=len(tb), nvariant=len(tv))
            if same and len(tb):
                keys = sorted(tb)
                rec.close(1e-9, np.array([tv[k] for k in keys]), np.array([tb[k] for k in keys]),
                          'differential displacements are unchanged by a common translation / consistent renumbering', f'invariance:{sv.kind}:dd')
            rec.count(f'invariance:dd:{sv.kind}')


# ====================================================================== group 4: displacement
FIELDS = ['random-small', 'random-large', 'homogeneous', 'slip', 'zero']
BOXREF = ['final', 'initial', None]


def run_displacement_case(ctx, am, i):
    rec, rng = ctx.rec, ctx.rng
    struct = C.STRUCTS[i % 5]
    orient = C.ORIENTS[(i // 5) % 3]
    field = FIELDS[(i + i // 5) % 5]
    pbc = tuple(bool((i // 3) % 8 & (1 << k)) for k in range(3))
    ref = BOXREF[i % 3]
    origin = ['zero', 'near', 'far'][(i // 4) % 3]
    cry = C.gen_crystal(rng, struct, orient, 0, 0, origin, need=2.2, maxatoms=300)
    pos0, v0, o0 = cry['pos'], cry['vects'], cry['origin']
    n = len(pos0)
    runi = O.unique_image_radius(v0, pbc)
    rcap = min(runi, 0.5 * G.perp_widths(v0).min())
    v1, o1 = v0, o0
    if field == 'random-small':
        u = rng.normal(size=(n, 3)) * 0.1
    elif field == 'random-large':
        u = rng.normal(size=(n, 3))
        u *= (rng.uniform(0.05, 0.9, n) * rcap / np.linalg.norm(u, axis=1))[:, None]
    elif field == 'homogeneous':
        F = C.gen_F(rng, C.FCLASSES[(i // 15) % 5])
        v1, o1 = v0 @ F.T, F @ o0
        # a common shift of 5-20 % of the cell along every cell vector (mostly downwards: the lowest
        # layer sits just above the face), so that atoms certainly leave the deformed cell
        t = (rng.uniform(0.05, 0.2, 3) * np.where(rng.random(3) < 0.75, -1.0, 1.0)) @ v1
        u = pos0 @ F.T - pos0 + t
    elif field == 'slip':
        sl = C.gen_slip(rng, cry, i % 3, C.SCLASSES[(i // 3) % 4], pbc, 0.8 * rcap)
        u = np.where(sl['upper'][:, None], sl['s'], 0.0)
    else:
        u = np.zeros((n, 3))
    pos1 = C.wrap(pos0 + u, v1, o1, pbc)                       # the displaced atoms are put back into their cell
    nwrapped = int((np.abs(pos1 - pos0 - u).max(axis=1) > 1e-6).sum())
    rec.count('displacement:atoms-crossing-a-boundary', nwrapped)
    if field == 'homogeneous' and ref is not None and nwrapped:
        rec.count(f'displacement:cases-crossing-a-deformed-cell:{ref}')
    rec.case(('displacement', struct, orient, field, 'pbc%d%d%d' % pbc, str(ref)), nontrivial=field != 'zero',
             fp=fingerprint(pos0, u, v0))
    rec.count(f'class:displacement:ref={ref}')
    rec.count(f'class:displacement:field={field}')
    rec.count('class:displacement:pbc=%d%d%d' % pbc)
    if i < 6:
        rec.sample(dict(struct=struct, orient=orient, field=field, pbc=pbc, box_reference=ref, natoms=n, max_u=float(np.abs(u).max()),
                        atoms_wrapped=nwrapped))
    sc = Scen(pos0, pos1, cry['types'], v0, v1, o0, o1, pbc)
    s0, s1 = sc.systems(am)
    res = None
    with ctx.guard('displacement can be evaluated for two systems with the same atoms', f'displacement:{ref}:call'):
        if ref == 'final' and i % 2:
            res = np.array(am.displacement(s0, s1))
        else:
            res = np.array(am.displacement(s0, s1, box_reference=ref))
    if res is None:
        return
    L = np.linalg.norm(v0, axis=1).max() + np.abs(pos0).max()
    if res.shape != (n, 3):
        rec.fail('displacement returns one vector per atom', f'displacement:{ref}:shape', got=res.shape)
        return
    if ref is None:
        rec.close(1e-12 * L, res, pos1 - pos0, 'box_reference=None: displacement is the plain position difference', 'displacement:None')
        return
    vr = v1 if ref == 'final' else v0
    exp = O.through_boundaries(pos1 - pos0, vr, pbc)
    ln = np.linalg.norm(exp, axis=1)
    ok = ln < 0.98 * O.unique_image_radius(vr, pbc)
    rec.count('displacement:rows-exempt(no unique nearest image)', int((~ok).sum()))
    # the periodic separation is, by its own statement (C02), the shortest of the 27 candidates with shifts -1, 0, +1:
    # a position difference whose true nearest image needs a shift of two cells (atoms wrapped into a deformed cell
    # while the reference box is the other one) is beyond its reach - such rows are exempt here and counted
    # (found by thorough seed 4, case displacement:310; the monitor on displacement still judges them against min27)
    ln27 = G.min27(pos1 - pos0, vr, pbc)[0]
    reach = ln27 <= ln + 1e-9 * L
    rec.count('displacement:rows-exempt(beyond the 27-image reach)', int((ok & ~reach).sum()))
    ok = ok & reach
    rec.close(1e-11 * L, res[ok], exp[ok], 'displacement is the position difference taken through the boundaries of the reference box',
              f'displacement:{ref}:{field}', pbc=pbc)
    rec.count('displacement:rows-checked', int(ok.sum()))
    if ref == 'final' or field != 'homogeneous':
        oku = np.linalg.norm(u, axis=1) < 0.98 * O.unique_image_radius(vr, pbc)
        rec.close(1e-11 * L, res[oku], u[oku], 'displacement returns the imposed displacement although atoms crossed the periodic boundaries',
                  f'displacement:{ref}:{field}:imposed', pbc=pbc)
        rec.count('displacement:rows-imposed-checked', int(oku.sum()))


# ====================================================================== group 5: legacy differential_displacement
def run_legacydd_case(ctx, am, i):
    rec, rng = ctx.rec, ctx.rng
    import matplotlib
    matplotlib.use('Agg')
    import matplotlib.pyplot as plt
    struct = C.STRUCTS[i % 5]
    orient = C.ORIENTS[(i // 5 + i) % 3]
    cry = C.gen_crystal(rng, struct, orient, 0, 0, 'zero', need=2.6, maxatoms=200)
    pbc = T3
    cutoff = cry['cutoff']
    axis = i % 3
    smax = min(0.3 * cry['a'], 0.9 * O.unique_image_radius(cry['vects'], pbc) - cutoff)
    sl = C.gen_slip(rng, cry, axis, C.SCLASSES[i % 4], pbc, smax)
    s = sl['s']
    u = np.where(sl['upper'][:, None], s, 0.0)
    pos0 = cry['pos']
    pos1 = C.wrap(pos0 + u, cry['vects'], cry['origin'], pbc) if i % 2 else pos0 + u
    sc = Scen(pos0, pos1, cry['types'], cry['vects'], cry['vects'], cry['origin'], cry['origin'], pbc)
    s0, s1 = sc.systems(am)
    axes = [('x', 'y'), ('y', 'z'), ('z', 'x')][i % 3]
    T = np.eye(3)[['xyz'.index(axes[0]), 'xyz'.index(axes[1]), 3 - 'xyz'.index(axes[0]) - 'xyz'.index(axes[1])]]
    rec.case(('legacy-dd', struct, orient, axes), nontrivial=True, fp=fingerprint(pos0, s))
    data = None
    fig = plt.figure()
    try:
        ax = fig.add_subplot(111)
        nl = s0.neighborlist(cutoff=cutoff)
        with ctx.guard('differential_displacement(return_data=True) can be evaluated', 'legacy-dd:call'):
            data = am.defect.differential_displacement(s0, s1, s, plotxaxis=axes[0], plotyaxis=axes[1], zlim=(-1e9, 1e9),
                                                       neighbors=nl, atom_color='w', return_data=True, matplotlib_axes=ax)
    finally:
        plt.close(fig)
    if data is None:
        return
    if not isinstance(data, dict):
        rec.fail('differential_displacement(return_data=True, matplotlib_axes=ax) returns the data dict', 'legacy-dd:return-type', got=type(data))
        return
    exp = np.concatenate([(u[np.asarray(nl[k], int)] - u[k]) @ T.T for k in range(sc.n)])
    rec.close(1e-9, np.asarray(data['vectors']), exp, 'legacy differential_displacement: pair vectors = difference of imposed displacements (plot axes)',
              'legacy-dd:vectors', s=s)
    rec.count('legacy-dd:pairs-checked', len(exp))


# ====================================================================== driver
def run(ctx):
    import atomman as am
    import atomman.defect  # noqa: F401
    rec = ctx.rec
    install_monitors(rec, am)
    O.selfcheck()                               # the oracle against hand-computed cases (a failure makes the run inconclusive)
    rec.count('oracle:selfcheck-passed')
    asan = ctx.flavour == 'asan'
    div = 8 if asan else 1

    for i in ctx.cases('strain', ctx.pick(90, 810) // div):
        run_strain_case(ctx, am, i)
    for i in ctx.cases('nyefield', ctx.pick(48, 384) // div):
        run_nyefield_case(ctx, am, i)
    for i in ctx.cases('slip', ctx.pick(72, 648) // div):
        run_slip_case(ctx, am, i)
    for i in ctx.cases('displacement', ctx.pick(120, 1080) // div):
        run_displacement_case(ctx, am, i)
    if not asan:
        for i in ctx.cases('legacy-dd', ctx.pick(8, 40)):
            run_legacydd_case(ctx, am, i)

    for k, v_ in monitor.calls.items():
        if isinstance(v_, int):
            rec.count('monitor_calls:' + k, v_)

    # ---- floors: monitors reached, every class generated (merged over shards; asan runs 1/8 of the cases)
    f = (lambda q: max(1, q // div)) if asan else (lambda q: q)
    rec.floor('strain:solved', f(120))
    rec.floor(f'reach:{ctx.flavour}:Strain', 10)
    rec.floor(f'reach:{ctx.flavour}:slip_vector', 10)
    rec.floor('strain:atoms-checked', f(10000))
    rec.floor('nye:atoms-checked(homogeneous)', f(8000))
    rec.floor('legacy:solved', f(60))
    rec.floor('strain:p-single:attempted-without-axes', f(12))
    rec.floor('nye:atoms-checked(linear field)', f(1500))
    rec.floor('nye:nonzero-components-checked', f(100))
    rec.floor('nye:atoms-checked(linear field, legacy)', f(500))
    rec.floor('slip:evaluated', f(120))
    rec.floor('slip:atoms-at-plane', f(3000))
    rec.floor('slip:atoms-away', f(2000))
    rec.floor('disregistry:evaluated', f(80))
    rec.floor('disregistry:rows-checked', f(300))
    rec.floor('dd:evaluated', f(120))
    rec.floor('dd:pairs-across-plane', f(10000))
    rec.floor('dd:pairs-same-half', f(10000))
    rec.floor('displacement:rows-checked', f(3000))
    rec.floor('displacement:rows-imposed-checked', f(3000))
    rec.floor('displacement:atoms-crossing-a-boundary', f(300))
    rec.floor('monitor_calls:displacement', f(150))
    rec.floor('displacement:cases-crossing-a-deformed-cell:final', 2)
    rec.floor('displacement:cases-crossing-a-deformed-cell:initial', 2)
    rec.floor('monitor:displacement:rows', f(5000))
    for v in VARIANTS:
        rec.floor(f'invariance:strain:{v}', f(15))
        rec.floor(f'invariance:slip:{v}', f(12))
        rec.floor(f'invariance:dd:{v}', f(12))
    rec.floor('invariance:disregistry:permute', f(10))
    rec.floor('invariance:disregistry:translate', f(4))
    for st in C.STRUCTS:
        rec.floor(f'class:strain:struct={st}', f(12))
        rec.floor(f'class:slip:struct={st}', f(10))
    for o in C.ORIENTS:
        rec.floor(f'class:strain:orient={o}', f(20))
        rec.floor(f'class:slip:orient={o}', f(16))
    for fc in C.FCLASSES:
        rec.floor(f'class:strain:fclass={fc}', f(3 if fc == 'identity' else 10))
    for p in PSRC:
        rec.floor(f'class:strain:psrc={p}', f(12))
    for sc_ in C.SCLASSES:
        rec.floor(f'class:slip:sclass={sc_}', f(12))
    for pc in PBCC:
        rec.floor(f'class:slip:pbcclass={pc}', f(16))
    for ax in range(3):
        rec.floor(f'class:slip:axis={ax}', f(16))
    rec.floor('class:slip:wrapped=True', f(24))
    rec.floor('class:slip:ref=0', f(24))
    rec.floor('class:slip:ref=1', f(24))
    rec.floor('class:nyefield:pbc=ppp', f(16))
    rec.floor('class:nyefield:pbc=fff', f(16))
    for r in BOXREF:
        rec.floor(f'class:displacement:ref={r}', f(30))
    for fl in FIELDS:
        rec.floor(f'class:displacement:field={fl}', f(16))
    if not asan:
        rec.floor('legacy-dd:pairs-checked', 2000)
