"""C18 - Gamma surface periodic, interpolating; Peierls-Nabarro energies match formulas."""
from __future__ import annotations

import contextlib
import signal
import time
import warnings

import numpy as np

from ..core import fingerprint
from ..gen import c18_cases as gen
from ..oracle import c18_pn as O
from .. import cover, monitor

RULE = ('surfaces: round-robin over 11 shift-vector classes (rectangular/oblique in cubic, hexagonal (3- and 4-index), orthorhombic, '
        'monoclinic, triclinic cells and Cartesian vectors without a cell) x 7 grids (4x4..12x10) x open/duplicated-edge layout x '
        'with/without plane separation x smooth/rough data x row order; per surface: every node, 12 generic + 11 '
        'boundary query points x 6 integer period pairs, position sets of N = 1,2,3,4,17 plus a single (3,) position, '
        'three model encodings; alternative shift vectors (7 classes: sum, diff, swap, only a1vect, only a2vect, general integer '
        'combination, fractional) x 3 ways of fixing the plotting x axis (left to be derived from the given a1vect, explicit along the '
        'saved a1, explicit along another in-plane direction) x scalar/N=3/N=6 positions: all six conversions, all mutual-inverse pairs with '
        'the SAME keywords on both sides, and the a1/a2, pos and x/y query forms of E_gsf and delta.  gamma-surface histories (7 modes): '
        'one object is given data B after it held (and answered queries on) data A - set() twice, set() then model(model=), model then set(), '
        'empty then set(), same shape other data (plane separations kept/added/dropped), same vectors other data, A-B-A - and is judged '
        'against the oracle and a freshly constructed surface.  PN: the 16 finite-difference/stress flag settings x 4 cell classes x '
        'isotropic/Stroh K x 5 profile classes x 3 tau x 5 alpha x 4 beta classes x 6 grid sizes.  PN histories: ONE SDVPN object goes '
        'through 5 of 12 change kinds (x grid: same length other spacing / other length / shifted; disregistry; tau; alpha; beta; cutoff; '
        'finite-difference and stress flags; K tensor via load(); gamma-surface data via gamma.set(); solve() with every setting as a '
        'keyword), first kind = case index mod 12, stride 1/5/7/11, x and disregistry passed as arguments or stored on the object in turn; '
        'after construction and after every change each of the six terms and the total are judged against the oracle evaluated for the '
        'settings REQUESTED so far and against a freshly constructed object.  Ownership (gsown / pnown): data, vectors, settings, grid and '
        'profile are handed over as own float64 arrays / rows of a 2-D table / strided columns / pandas Series (plain or shuffled index) / float32 / '
        'lists / tuples / the lists of a data model, through the constructor / set() on an empty object / set() on a used object / model= '
        '(SDVPN: constructor / setters / solve(keywords) / model=); then the caller overwrites in place (scale / other data / zeros, by case index) '
        'one at a time every array it handed over, every array a read-only attribute handed out (a1vect, a2vect, planenormal; K_tensor, burgers, '
        'transform) and every returned result, builds a second object from fresh data and a third from the SAME data buffers, constructs a '
        'default SDVPN after a customised one and after editing another default object\'s stress / beta in place; after every step the FIRST object is '
        're-judged for the numbers it was given (stored data and geometry, node reproduction, identical answers at fixed queries, periodicity, conversions '
        'against the oracle, model round trip; SDVPN: stored settings, six terms and total against the oracle for the pristine settings and against its own '
        'earlier values) and the new objects against the oracle and an untouched twin; fractional coordinates as Python ints, int lists / arrays, float32 '
        'arrays and tuples.  A case is non-trivial when the data are '
        'not constant and the shift vectors are neither unit Cartesian axes; distinct = fingerprint of the inputs.')
ASSUMPTIONS = ['gamma-surface data are periodic (a duplicated a=1 edge carries the a=0 values) on uniform grids that contain 0',
               'node tolerance 1e-8 of the data range (observed < 1e-12); periodicity / coordinate-interchange tolerance 1e-10 of the range x basis condition number '
               '(the multiquadric interpolant amplifies 1e-16 argument differences by its coefficient size)',
               'K tensor of the Volterra solution is an input (C12 decides it); the oracle only re-labels it into the [m,n,xi] order',
               'half-width clause: compared with the minimiser of the continuum functional on the same finite window '
               '(oracle, 1-D quadrature) within grid step/zeta* + 2 %, and with the classical value within that plus the window shift',
               'stress term with fullstress=False: sign as implemented/explained in the docstring note (tau flipped), fixed '
               'independently by the summation-by-parts identity with the full expression',
               'alternative a1vect=/a2vect= keywords are three-index crystal vectors of the saved box (as their docstrings say); with xvect left at None the '
               'plotting x axis is the Cartesian image of the given a1vect (else of the saved one), the plane normal and handedness stay those of the saved vectors',
               'the energy / plane separation of a position does not depend on which vectors or which of the three coordinate forms name it '
               '(E_gsf(pos=, a1vect=..) and E_gsf(x=, y=, a1vect=..) are judged by that; see KNOWN_FINDINGS)',
               'a re-used object is compared with a freshly constructed one at 1e-11 of the term magnitude (identical arithmetic is expected); '
               'the K tensor of an existing SDVPN object can only be replaced through load(model), so that is the history step used',
               'ownership: an object built from arrays owns its numbers - what the caller later does to the arrays it handed over, to arrays handed out by read-only '
               'attributes or to other instances does not change it (the same standard as the repaired C12 / C01 aliasing defects).  Objects handed over as objects '
               '(Box, GammaSurface, Volterra solution) are held by reference by design (pn.gamma.set() is a supported way of changing the surface of an SDVPN object), '
               'GammaSurface.data is the live table that fit() reads, and the arrays returned by settable SDVPN attributes (x, disregistry, tau, beta) may be edited in '
               'place to change THAT object: none of these is judged.  disldensity() / pn_arctan_* returning the very x array they were given is observed, not judged',
               'data handed over as float32 carry single-precision rounding through numpy\'s own rules (tiling, unit conversion): twin comparison 2e-5 of the range, '
               'round trip 4 eps32; a float32 x grid / disregistry is not generated (energies would be evaluated in single precision)',
               'lists for x / disregistry are passed to setters and solve() only (the energy methods document numpy arrays)',
               'oracle shares numpy/scipy with the code under test']
CONFIG = {'quick': {'timeout': 900}, 'thorough': {'timeout': 3600}}

GS_FILE = 'atomman/defect/GammaSurface.py'
PN_FILE = 'atomman/defect/SDVPN.py'
MAXN_MONITOR = 64
SOLVE_STEP_CPU = 15       # s of CPU for the solve step of a history (normal: about 1 s)
SOLVE_CASE_CPU = 60       # s of CPU for one solve case (normal: 1 - 5 s quick, up to 15 s thorough)


# ----------------------------------------------------------------------------
# helpers
# ----------------------------------------------------------------------------
class CpuLimit(BaseException):
    """Not an Exception: vf.monitor swallows Exceptions raised inside a postcondition (where most of
    the CPU time of a monitored solve is spent), which would silently disarm the limit."""


@contextlib.contextmanager
def cpu_limit(seconds):
    """Raise CpuLimit inside the block after ``seconds`` of process CPU time
    (ITIMER_VIRTUAL, so a loaded machine does not trip it)."""
    def handler(signum, frame):
        raise CpuLimit(f'more than {seconds} s of CPU time')
    try:
        old = signal.signal(signal.SIGVTALRM, handler)
    except ValueError:          # not the main thread
        yield
        return
    left = signal.setitimer(signal.ITIMER_VIRTUAL, seconds, 1.0)[0]      # fires again every second until disarmed; an enclosing limit is re-armed on exit
    t0 = time.process_time()
    try:
        yield
    finally:
        signal.setitimer(signal.ITIMER_VIRTUAL, 0)
        signal.signal(signal.SIGVTALRM, old)
        if left > 0:
            signal.setitimer(signal.ITIMER_VIRTUAL, max(left - (time.process_time() - t0), 0.01))


MON = {'off': False}


@contextlib.contextmanager
def monitors_off():
    """The call monitors read the object's own vectors / settings; while the harness has deliberately
    overwritten arrays the object may (wrongly) share, the ownership clauses judge it instead."""
    old = MON['off']
    MON['off'] = True
    try:
        yield
    finally:
        MON['off'] = old


def plane_of(S, xvect=None, a1=None, a2=None):
    bv = S['boxvects'] if S['boxvects'] is not None else np.eye(3)
    return O.Plane(S['a1vect'] if a1 is None else a1, S['a2vect'] if a2 is None else a2, bv, xvect=xvect)


def build_gamma(am, S, as_list=False):
    box = am.Box(vects=S['boxvects']) if S['boxvects'] is not None else None
    conv = (lambda v: None if v is None else np.asarray(v).tolist()) if as_list else (lambda v: v)
    return am.defect.GammaSurface(a1vect=conv(S['a1vect']), a2vect=conv(S['a2vect']), a1=conv(S['a1']), a2=conv(S['a2']),
                                  E_gsf=conv(S['E']), box=box, delta=conv(S['delta']))


def shape_class(a):
    a = np.asarray(a)
    if a.ndim == 0 or (a.ndim == 1 and a.shape[0] == 3 and False):
        return 'scalar'
    return 'one' if a.size in (1, 3) and a.ndim <= 1 else 'many'


def install_monitors(rec, am):
    """Postconditions on the real methods: fire on every call, also internal ones
    (E_gsf(pos=), SDVPN.misfit_energy, solve's objective)."""
    GS = am.defect.GammaSurface
    PN = am.defect.SDVPN

    def post_pos_to_a12(args, kwargs, result, exc, old):
        if exc is not None or MON['off']:
            return
        g = args[0]
        pos = np.asarray(args[1] if len(args) > 1 else kwargs['pos'], float)
        a1v = kwargs.get('a1vect', args[2] if len(args) > 2 else None)
        a2v = kwargs.get('a2vect', args[3] if len(args) > 3 else None)
        pl = O.Plane(g.a1vect if a1v is None else a1v, g.a2vect if a2v is None else a2v, g.box.vects)
        e1, e2 = pl.pos_to_a12(pos)
        r1, r2 = np.asarray(result[0], float), np.asarray(result[1], float)
        kappa = np.linalg.cond(np.array([pl.A1, pl.A2]).T)
        tol = 1e-9 * kappa * (1 + np.abs(e1).max() + np.abs(e2).max())
        n = pos.reshape(-1, 3).shape[0]
        cls = 'single' if pos.ndim == 1 else ('N=3' if n == 3 else 'N!=3')
        rec.count('monitor:pos_to_a12:' + cls)
        rec.close(tol, r1.reshape(-1), e1, 'monitor: pos_to_a12 returns the in-plane coordinates of every position', 'monitor:pos_to_a12:' + cls, pos=pos)
        rec.close(tol, r2.reshape(-1), e2, 'monitor: pos_to_a12 returns the in-plane coordinates of every position', 'monitor:pos_to_a12:' + cls, pos=pos)

    monitor.observe(GS, 'pos_to_a12', post_pos_to_a12)

    def post_total(args, kwargs, result, exc, old):
        if exc is not None or MON['off']:
            return
        pn = args[0]
        x = kwargs.get('x', args[1] if len(args) > 1 else None)
        d = kwargs.get('disregistry', args[2] if len(args) > 2 else None)
        x = pn.x if x is None else x
        d = pn.disregistry if d is None else d
        if len(x) > MAXN_MONITOR:
            rec.count('monitor:total_energy:skipped-large')
            return
        exp, mag = oracle_total(pn, np.asarray(x, float), np.asarray(d, float))
        if exp is None:
            return
        rec.count('monitor:total_energy')
        rec.close(1e-8 * mag, result, exp, 'monitor: total_energy equals the sum of the documented term formulas', 'monitor:total_energy')

    monitor.observe(PN, 'total_energy', post_total)


def gamma_values(pn, d):
    """gamma at each disregistry vector: oracle frame and plane conversion, then one scalar
    E_gsf(a1=, a2=) query per point (that interpolant is decided separately at nodes)."""
    g = pn.gamma
    T = getattr(pn, '_vf_T', None)
    if T is None:
        T = np.asarray(pn.transform)
    pl = O.Plane(g.a1vect, g.a2vect, g.box.vects)
    vals = []
    for di in d:
        dd = np.array([di[0], 0.0, di[2]])
        pos = T.T @ dd
        a1, a2 = pl.pos_to_a12(pos)
        vals.append(float(g.E_gsf(a1=float(a1[0]), a2=float(a2[0]))))
    return vals


def oracle_terms(pn, x, d, gammas=None):
    """The six documented terms evaluated by the oracle for the object's settings.
    Returns dict name -> (value, magnitude)."""
    K = np.asarray(pn.K_tensor, float)
    out = {}
    if gammas is None:
        gammas = gamma_values(pn, d)
    out['misfit'] = O.misfit_from_values(x, gammas)
    out['elastic'] = O.elastic(x, d, K, pn.cdiffelastic)
    lr = O.longrange(K, pn.burgers, pn.cutofflongrange)
    out['longrange'] = (lr, abs(lr))
    if pn.fullstress:
        out['stress'] = O.stress_full(x, d, pn.tau, pn.cdiffstress)
    else:
        out['stress'] = O.stress_trapezoid(x, d, pn.tau)
    out['surface'] = O.surface(x, d, pn.beta, pn.cdiffsurface)
    out['nonlocal'] = O.nonlocal_(x, d, pn.alpha)
    return out


def oracle_total(pn, x, d):
    if pn.fullstress and pn.cdiffstress:
        return None, None       # documented formula leaves the weights open; decided in the harness
    b = np.asarray(pn.beta)
    if not np.allclose(b, b.T):
        t = oracle_terms(pn, x, d)
        # asymmetric beta is judged by its own clause; here use whichever index order the term method used
        t['surface'] = (float(pn.surface_energy(x, d)), t['surface'][1])
    else:
        t = oracle_terms(pn, x, d)
    return sum(v[0] for v in t.values()), sum(v[1] for v in t.values())


# ----------------------------------------------------------------------------
# gamma surfaces
# ----------------------------------------------------------------------------
def surface_case(ctx, am, i):
    rec, rng = ctx.rec, ctx.rng
    S = gen.gen_surface(rng, i)
    shift, n1, n2 = S['shift'], S['n1'], S['n2']
    as_list = bool(i % 2)
    nontrivial = S['table'].max() - S['table'].min() > 0
    rec.case(S['sig'], nontrivial=nontrivial, fp=fingerprint(S['a1vect'], S['a2vect'], S['E'], S['a1'], S['a2']))
    if i < 24:
        rec.sample(dict(sig=S['sig'], a1vect=S['a1vect'], a2vect=S['a2vect'], boxvects=S['boxvects'], E_head=S['E'][:6]))
    rec.count('class:shift:' + shift)
    rec.count('class:layout:' + S['layout'])
    rec.count('class:delta:' + str(S['with_delta']))
    rec.count('class:kind:' + S['kind'])
    gs = None
    with ctx.guard('a gamma surface can be built from periodic grid data', f'build:{shift}:{S["layout"]}'):
        gs = build_gamma(am, S, as_list)
    if gs is None:
        return
    pl = plane_of(S)
    R = float(S['table'].max() - S['table'].min())
    Rd = float(S['dtable'].max() - S['dtable'].min()) if S['with_delta'] else None
    funcs = [('E_gsf', gs.E_gsf, S['E'], S['table'], R)]
    if S['with_delta']:
        funcs.append(('delta', gs.delta, S['delta'], S['dtable'], Rd))

    # the stored geometry is the one that was asked for
    rec.close(1e-12, gs.planenormal, pl.n, 'plane normal is the unit vector along a1 x a2', f'planenormal:{shift}')

    # -- clause 1: the data are reproduced at every sampled shift ---------------
    for name, f, vals, table, rng_ in funcs:
        for smooth in (True, False):
            key = f'nodes:{name}:{"smooth" if smooth else "nearest"}:{S["layout"]}'
            with ctx.guard(f'{name} evaluates at the sampled shifts', key + ':exception'):
                got = f(a1=np.array(S['a1']), a2=np.array(S['a2']), smooth=smooth)
                rec.close(1e-8 * rng_, got, vals, f'{name} at every sampled (a1,a2) equals the input value', key, layout=S['layout'], grid=(n1, n2))
                rec.count(f'nodes:{name}', len(vals))
                if S['layout'] == 'dup':
                    rec.count('nodes:on-duplicated-edge', int(np.sum((S['a1'] == 1.0) | (S['a2'] == 1.0))))
        # scalar queries and nodes displaced by whole periods
        for _ in range(3):
            k, l = int(rng.integers(0, n1)), int(rng.integers(0, n2))
            p, q = (int(t) for t in rng.integers(-3, 4, 2))
            with ctx.guard(f'{name} evaluates at one (a1,a2) pair', f'nodes:{name}:scalar:exception'):
                got = f(a1=k / n1 + p, a2=l / n2 + q)
                rec.close(1e-8 * rng_, np.asarray(got).reshape(()), table[k, l], f'{name} at a sampled shift plus whole periods equals the input value',
                          f'nodes:{name}:scalar-periodic', k=k, l=l, p=p, q=q)

    # -- clause 2: periodicity ------------------------------------------------
    cushion = 0.0 if S['layout'] == 'dup' else 0.5 / n1
    generic, hard, edge = gen.query_points(rng, 12, n1, n2, cushion)
    pqs = gen.periods(rng, 6)
    for name, f, vals, table, rng_ in funcs:
        for cls, pts, smooths in (('generic', generic, (True, False)), ('boundary', hard, (True,)), ('integer-edge', edge, (True,)),
                                  ('integer-edge', edge[:-1], (False,))):      # the last edge point sits on a nearest-node tie
            for smooth in smooths:
                key = f'periodic:{name}:{"smooth" if smooth else "nearest"}:{cls}'
                with ctx.guard(f'{name} evaluates at displaced points', key + ':exception'):
                    base = f(a1=pts[:, 0].copy(), a2=pts[:, 1].copy(), smooth=smooth)
                    for p, q in pqs:
                        got = f(a1=pts[:, 0] + p, a2=pts[:, 1] + q, smooth=smooth)
                        rec.close(1e-10 * rng_, got, base, f'{name}(a1+p, a2+q) = {name}(a1, a2) for integer p, q in [-3,3]', key,
                                  p=int(p), q=int(q), pts=pts)
                        rec.count('periodic:evaluations', len(pts))
                    rec.count(f'periodic:{cls}')

    # -- clause 3: coordinate conversions, one and many positions ---------------
    alt_x = None
    if i % 4 == 1:
        alt_x = pl.A2 if i % 8 == 1 else pl.A1 + pl.A2
    plx = plane_of(S, xvect=alt_x)
    kx = {} if alt_x is None else {'xvect': alt_x}
    kappa = np.linalg.cond(np.array([pl.A1, pl.A2]).T)
    L = max(np.linalg.norm(pl.A1), np.linalg.norm(pl.A2))
    sets = [(N, rng.uniform(-1.5, 2.5, (N, 2))) for N in gen.NPOS]
    for N, ab in sets:
        cls = f'N={N}'
        a1, a2 = ab[:, 0], ab[:, 1]
        amax = 1 + np.abs(ab).max()
        pos_exp = pl.a12_to_pos(a1, a2)
        x_exp, y_exp = plx.pos_to_xy(pos_exp)
        wrap = (lambda v: np.asarray(v).tolist()) if as_list else (lambda v: np.asarray(v))
        rec.count('conv:sets:' + cls)
        rec.count('conv:input:' + ('list' if as_list else 'array'))
        pos = None
        with ctx.guard('a12_to_pos accepts one or many coordinate pairs', f'conv:a12_to_pos:exception:{cls}'):
            pos = gs.a12_to_pos(wrap(a1), wrap(a2))
            rec.close(1e-12 * L * amax, pos, pos_exp, 'a12_to_pos is a1*A1 + a2*A2', f'conv:a12_to_pos:{cls}')
        with ctx.guard('pos_to_a12 accepts one or many positions', f'conv:pos_to_a12:exception:{cls}'):
            b1, b2 = gs.pos_to_a12(wrap(pos_exp))
            rec.close(1e-9 * kappa * amax, b1, a1, 'pos_to_a12 inverts a12_to_pos', f'conv:pos_to_a12:{cls}', a1=a1, a2=a2, got=(b1, b2))
            rec.close(1e-9 * kappa * amax, b2, a2, 'pos_to_a12 inverts a12_to_pos', f'conv:pos_to_a12:{cls}', a1=a1, a2=a2, got=(b1, b2))
        xy = None
        try:
            xy = gs.pos_to_xy(wrap(pos_exp), **kx)
        except Exception as e:
            if as_list and isinstance(e, AttributeError):
                rec.fail('pos_to_xy accepts array-like positions', 'conv:pos_to_xy:list-input', exception=e)
                with ctx.guard('pos_to_xy accepts one or many positions', f'conv:pos_to_xy:exception:{cls}'):
                    xy = gs.pos_to_xy(np.asarray(pos_exp), **kx)
            else:
                rec.fail('pos_to_xy accepts one or many positions', f'conv:pos_to_xy:exception:{cls}', exception=e)
        if xy is not None:
            rec.close(1e-11 * L * amax, xy[0], x_exp, 'pos_to_xy: x along the x vector, y along n x x', f'conv:pos_to_xy:{cls}')
            rec.close(1e-11 * L * amax, xy[1], y_exp, 'pos_to_xy: x along the x vector, y along n x x', f'conv:pos_to_xy:{cls}')
        with ctx.guard('xy_to_pos accepts one or many coordinate pairs', f'conv:xy_to_pos:exception:{cls}'):
            p2 = gs.xy_to_pos(wrap(x_exp), wrap(y_exp), **kx)
            rec.close(1e-11 * L * amax, p2, pos_exp, 'xy_to_pos inverts pos_to_xy', f'conv:xy_to_pos:{cls}')
        with ctx.guard('a12_to_xy / xy_to_a12 accept one or many coordinate pairs', f'conv:a12_xy:exception:{cls}'):
            xx, yy = gs.a12_to_xy(wrap(a1), wrap(a2), **kx)
            rec.close(1e-11 * L * amax, xx, x_exp, 'a12_to_xy is the composition of a12_to_pos and pos_to_xy', f'conv:a12_to_xy:{cls}')
            rec.close(1e-11 * L * amax, yy, y_exp, 'a12_to_xy is the composition of a12_to_pos and pos_to_xy', f'conv:a12_to_xy:{cls}')
            c1, c2 = gs.xy_to_a12(wrap(x_exp), wrap(y_exp), **kx)
            rec.close(1e-9 * kappa * amax, c1, a1, 'xy_to_a12 inverts a12_to_xy', f'conv:xy_to_a12:{cls}')
            rec.close(1e-9 * kappa * amax, c2, a2, 'xy_to_a12 inverts a12_to_xy', f'conv:xy_to_a12:{cls}')
        # -- clause 4: the three coordinate systems are interchangeable in E_gsf / delta
        for name, f, vals, table, rng_ in funcs:
            key = f'interchange:{name}:{cls}'
            with ctx.guard(f'{name} accepts a1/a2, pos and x/y for one or many positions', key + ':exception'):
                e_a = f(a1=wrap(a1), a2=wrap(a2))
                e_p = f(pos=wrap(pos_exp))
                e_x = f(x=wrap(x_exp), y=wrap(y_exp), **kx)
                rec.close(1e-10 * rng_ * kappa, e_p, e_a, f'{name}(pos=) = {name}(a1=, a2=)', key + ':pos', a1=a1, a2=a2)
                rec.close(1e-10 * rng_ * kappa, np.asarray(e_x).reshape(np.shape(e_a)), e_a, f'{name}(x=, y=) = {name}(a1=, a2=)', key + ':xy', a1=a1, a2=a2)
                rec.count('interchange:evaluations', N)
    # one position given as a bare (3,) vector / scalars
    a1s, a2s = (float(t) for t in rng.uniform(-1.5, 2.5, 2))
    p1 = pl.a12_to_pos(a1s, a2s)[0]
    x1, y1 = plx.pos_to_xy(p1)
    with ctx.guard('conversions accept a single position', 'conv:single:exception'):
        b1, b2 = gs.pos_to_a12(p1)
        rec.close(1e-9 * kappa * 4, [float(b1), float(b2)], [a1s, a2s], 'pos_to_a12 of a single (3,) position', 'conv:pos_to_a12:single')
        xs, ys = gs.pos_to_xy(p1, **kx)
        rec.close(1e-11 * L * 4, [float(xs), float(ys)], [x1[0], y1[0]], 'pos_to_xy of a single (3,) position', 'conv:pos_to_xy:single')
        rec.close(1e-12 * L * 4, np.asarray(gs.a12_to_pos(a1s, a2s)).reshape(-1), p1, 'a12_to_pos of scalars', 'conv:a12_to_pos:single')
        rec.close(1e-11 * L * 4, np.asarray(gs.xy_to_pos(float(x1[0]), float(y1[0]), **kx)).reshape(-1), p1, 'xy_to_pos of scalars', 'conv:xy_to_pos:single')
        for name, f, vals, table, rng_ in funcs:
            e_a = float(f(a1=a1s, a2=a2s))
            rec.close(1e-10 * rng_ * kappa, float(f(pos=p1)), e_a, f'{name}(pos=) = {name}(a1=, a2=)', f'interchange:{name}:single:pos')
            rec.close(1e-10 * rng_ * kappa, float(np.asarray(f(x=float(x1[0]), y=float(y1[0]), **kx)).reshape(-1)[0]), e_a,
                      f'{name}(x=, y=) = {name}(a1=, a2=)', f'interchange:{name}:single:xy')
        rec.count('conv:single')
    # alternative shift vectors (every case; class by case index): all conversions and query forms
    altvect_block(ctx, gs, S, pl, funcs, i, as_list)
    if i % 3 == 1 and S['boxvects'] is not None or i % 6 == 4:
        # 2-D arrays of fractional coordinates (the layout the plotting code uses)
        A1g, A2g = np.meshgrid(np.linspace(0, 1, 4), np.linspace(0, 1, 3))
        with ctx.guard('E_gsf accepts 2-D coordinate arrays', 'grid2d:exception'):
            got = gs.E_gsf(a1=A1g, a2=A2g)
            exp = np.array([[float(gs.E_gsf(a1=float(A1g[r, c]), a2=float(A2g[r, c]))) for c in range(4)] for r in range(3)])
            rec.close(1e-10 * R, got, exp, 'E_gsf of a 2-D coordinate array is elementwise', 'grid2d:E_gsf')

    # -- clause 5: model round trip -------------------------------------------
    units = [dict(), dict(length_unit='nm', energyperarea_unit='eV/angstrom^2')][i % 2]
    model = None
    with ctx.guard('model() writes the data model', 'model:write'):
        model = gs.model(**units)
    if model is None:
        return
    qa = rng.uniform(-0.5, 1.5, (5, 2))
    base = gs.E_gsf(a1=qa[:, 0], a2=qa[:, 1])
    for enc in ('DM', 'JSON', 'XML'):
        g2 = None
        rec.count('model:attempt:' + enc)
        try:
            src = model if enc == 'DM' else (model.json() if enc == 'JSON' else model.xml())
            g2 = am.defect.GammaSurface(model=src)
        except Exception as e:
            rec.fail(f'a gamma surface is rebuilt from its {enc} model', f'model:{enc}:exception', exception=e)
            continue
        rec.count('model:' + enc)
        key = f'model:{enc}'
        rec.close(1e-12 * L, O.crystal_to_cart(g2.a1vect, g2.box.vects), pl.A1, 'model round trip keeps the shift vectors', key + ':vectors')
        rec.close(1e-12 * L, O.crystal_to_cart(g2.a2vect, g2.box.vects), pl.A2, 'model round trip keeps the shift vectors', key + ':vectors')
        rec.close(1e-13, g2.data.a1.values, S['a1'], 'model round trip keeps the fractional coordinates', key + ':a12')
        rec.close(1e-13, g2.data.a2.values, S['a2'], 'model round trip keeps the fractional coordinates', key + ':a12')
        rec.close(1e-12 * S['scale'], g2.data.E_gsf.values, S['E'], 'model round trip keeps the energies', key + ':E', rtol=1e-12)
        rec.check(('delta' in g2.data) == S['with_delta'], 'model round trip keeps the presence of plane-separation data', key + ':delta-presence')
        if S['with_delta'] and 'delta' in g2.data:
            rec.close(1e-12, g2.data.delta.values, S['delta'], 'model round trip keeps the plane separations', key + ':delta')
        with ctx.guard('the rebuilt surface evaluates', key + ':evaluate'):
            rec.close(1e-8 * R, g2.E_gsf(a1=qa[:, 0], a2=qa[:, 1]), base, 'the rebuilt surface gives the same energies', key + ':E_gsf')


# ----------------------------------------------------------------------------
# alternative shift vectors handed to the conversions and to E_gsf / delta
# ----------------------------------------------------------------------------
def box_class(S):
    if S['boxvects'] is None:
        return 'nobox'
    return 'cubic' if S['cellkind'] == 'cubic' else 'noncubic'


def altvect_block(ctx, gs, S, pl, funcs, i, as_list):
    """Conversions and queries with a1vect= / a2vect= (both, or only one) and the three ways of
    fixing the plotting x axis: derived (xvect left at None: along the Cartesian image of the given
    a1vect, else of the saved one), explicit along the saved a1 vector, explicit along another
    in-plane direction.  Every pair of mutually inverse conversions gets the SAME keyword arguments."""
    rec, rng = ctx.rec, ctx.rng
    u1 = np.array(O.three_index(S['a1vect']))
    u2 = np.array(O.three_index(S['a2vect']))
    kind = gen.alt_kind(i)
    v1, v2 = gen.alt_vectors(rng, kind, u1, u2)
    conv = (lambda v: [float(t) for t in v]) if as_list else (lambda v: np.asarray(v, float))
    kv = {}
    if v1 is not None:
        kv['a1vect'] = conv(v1)
    if v2 is not None:
        kv['a2vect'] = conv(v2)
    pla = plane_of(S, a1=v1, a2=v2)          # the vectors the fractional coordinates refer to
    bcls = box_class(S)
    rec.count('altvect:kind:' + kind)
    rec.count('altvect:box:' + bcls)
    rec.count('altvect:given:' + '+'.join(sorted(kv)))
    if v1 is not None:
        # the class in which "crystal vector" and "Cartesian vector" are different directions
        raw = O.unit(v1)
        rec.count('altvect:a1vect-raw-direction-differs', int(np.linalg.norm(np.cross(raw, O.unit(pla.A1))) > 1e-3))
    L = max(np.linalg.norm(t) for t in (pl.A1, pl.A2, pla.A1, pla.A2))
    kap_n = np.linalg.cond(np.array([pl.A1, pl.A2]).T)
    kap_a = np.linalg.cond(np.array([pla.A1, pla.A2]).T)
    c1_, c2_ = rng.uniform(0.3, 1.5), rng.uniform(0.3, 1.5) * rng.choice([-1, 1])
    xmodes = [('derived', None), ('explicit-saved', pl.A1 * rng.uniform(0.5, 2.0)), ('explicit-other', c1_ * pl.A1 + c2_ * pl.A2)]
    forms = [('scalar', 1), ('N=3', 3), ('N=6', 6)]
    for form, N in forms:
        ab = rng.uniform(-1.5, 2.5, (N, 2))
        a, b = ab[:, 0], ab[:, 1]
        if form == 'scalar':
            a_in, b_in = float(a[0]), float(b[0])
        else:
            a_in, b_in = (a.tolist(), b.tolist()) if as_list else (a.copy(), b.copy())
        amax = 1 + np.abs(ab).max()
        pos_exp = pla.a12_to_pos(a, b)
        s1, s2 = pl.pos_to_a12(pos_exp)           # the same positions in the saved vectors
        smax = 1 + max(np.abs(s1).max(), np.abs(s2).max())
        pos_in = pos_exp.tolist() if as_list else pos_exp.copy()
        tol_p = 1e-12 * L * amax
        tol_a = 1e-9 * kap_a * amax
        # the values every query form has to return: the saved-vector coordinates of the same positions
        base = {}
        for name, f, vals, table, rng_ in funcs:
            with ctx.guard(f'{name} evaluates at fractional coordinates', f'altvect:{name}:native:exception'):
                base[name] = (np.reshape(f(a1=s1.copy(), a2=s2.copy()), -1), np.reshape(f(a1=s1.copy(), a2=s2.copy(), smooth=False), -1))
        # -- fractional <-> Cartesian ------------------------------------------------
        with ctx.guard('a12_to_pos accepts alternative shift vectors', f'altvect:a12_to_pos:exception'):
            pa = gs.a12_to_pos(a_in, b_in, **kv)
            rec.close(tol_p, pa, pos_exp, 'a12_to_pos(a1, a2, a1vect=, a2vect=) is a1*A1\' + a2*A2\' for the given crystal vectors', f'altvect:a12_to_pos:{form}', given=kv)
        with ctx.guard('pos_to_a12 accepts alternative shift vectors', f'altvect:pos_to_a12:exception'):
            r1, r2 = gs.pos_to_a12(pos_in, **kv)
            rec.close(tol_a, np.reshape(r1, -1), a, 'pos_to_a12(pos, a1vect=, a2vect=) inverts a12_to_pos with the same vectors', f'altvect:pos_to_a12:{form}', given=kv)
            rec.close(tol_a, np.reshape(r2, -1), b, 'pos_to_a12(pos, a1vect=, a2vect=) inverts a12_to_pos with the same vectors', f'altvect:pos_to_a12:{form}', given=kv)
            back = gs.a12_to_pos(r1, r2, **kv)
            rec.close(1e-9 * kap_a * L * amax, back, pos_exp, 'a12_to_pos(pos_to_a12(pos)) = pos with the same vectors on both sides', f'altvect:roundtrip:pos-a12-pos', given=kv)
            rec.count('altvect:inverse-pairs')
        # -- fractional <-> plotting, Cartesian <-> plotting ---------------------------
        for xm, xv in xmodes:
            kx = dict(kv)
            if xv is not None:
                kx['xvect'] = conv(xv)
            xv_eff = pla.A1 if xv is None else xv      # pla.A1 is the saved a1 vector when a1vect is not given
            plx = plane_of(S, xvect=xv_eff)            # saved plane normal, x along xv_eff, y = n x x
            x_exp, y_exp = plx.pos_to_xy(pos_exp)
            if form == 'scalar':
                x_in, y_in = float(x_exp[0]), float(y_exp[0])
            else:
                x_in, y_in = (x_exp.tolist(), y_exp.tolist()) if as_list else (x_exp.copy(), y_exp.copy())
            tol_x = 1e-11 * L * amax
            rec.count('altvect:xmode:' + xm)
            with ctx.guard('a12_to_xy accepts alternative shift vectors', f'altvect:a12_to_xy:exception:{xm}'):
                xx, yy = gs.a12_to_xy(a_in, b_in, **kx)
                rec.close(tol_x, np.reshape(xx, -1), x_exp, 'a12_to_xy(a1, a2, a1vect=, a2vect=[, xvect=]): x along xvect, else along the Cartesian image of the given a1vect', f'altvect:a12_to_xy:{xm}', given=kx, form=form)
                rec.close(tol_x, np.reshape(yy, -1), y_exp, 'a12_to_xy(a1, a2, a1vect=, a2vect=[, xvect=]): x along xvect, else along the Cartesian image of the given a1vect', f'altvect:a12_to_xy:{xm}', given=kx, form=form)
            with ctx.guard('xy_to_a12 accepts alternative shift vectors', f'altvect:xy_to_a12:exception:{xm}'):
                q1, q2 = gs.xy_to_a12(x_in, y_in, **kx)
                rec.close(tol_a, np.reshape(q1, -1), a, 'xy_to_a12(x, y, a1vect=, a2vect=[, xvect=]) inverts a12_to_xy called with the same keywords', f'altvect:xy_to_a12:{xm}', given=kx, form=form)
                rec.close(tol_a, np.reshape(q2, -1), b, 'xy_to_a12(x, y, a1vect=, a2vect=[, xvect=]) inverts a12_to_xy called with the same keywords', f'altvect:xy_to_a12:{xm}', given=kx, form=form)
            with ctx.guard('a12_to_xy / xy_to_a12 compose with the same keywords', f'altvect:roundtrip:exception:{xm}'):
                xx, yy = gs.a12_to_xy(a_in, b_in, **kx)
                q1, q2 = gs.xy_to_a12(xx, yy, **kx)
                rec.close(tol_a, np.reshape(q1, -1), a, 'xy_to_a12(*a12_to_xy(a1, a2, **kw), **kw) = (a1, a2)', f'altvect:roundtrip:a12-xy-a12:{xm}', given=kx, form=form)
                rec.close(tol_a, np.reshape(q2, -1), b, 'xy_to_a12(*a12_to_xy(a1, a2, **kw), **kw) = (a1, a2)', f'altvect:roundtrip:a12-xy-a12:{xm}', given=kx, form=form)
                q1, q2 = gs.xy_to_a12(x_in, y_in, **kx)
                xx, yy = gs.a12_to_xy(q1, q2, **kx)
                rec.close(1e-9 * kap_a * L * amax, np.reshape(xx, -1), x_exp, 'a12_to_xy(*xy_to_a12(x, y, **kw), **kw) = (x, y)', f'altvect:roundtrip:xy-a12-xy:{xm}', given=kx, form=form)
                rec.close(1e-9 * kap_a * L * amax, np.reshape(yy, -1), y_exp, 'a12_to_xy(*xy_to_a12(x, y, **kw), **kw) = (x, y)', f'altvect:roundtrip:xy-a12-xy:{xm}', given=kx, form=form)
                rec.count('altvect:inverse-pairs', 2)
            # pos <-> xy with the x axis the derived mode uses, given explicitly
            kxx = {'xvect': conv(xv_eff)}
            with ctx.guard('pos_to_xy / xy_to_pos accept an explicit x vector', f'altvect:pos_xy:exception:{xm}'):
                px, py = gs.pos_to_xy(pos_in, **kxx)
                rec.close(tol_x, np.reshape(px, -1), x_exp, 'pos_to_xy(pos, xvect=): x along xvect, y along n x xvect', f'altvect:pos_to_xy:{xm}')
                rec.close(tol_x, np.reshape(py, -1), y_exp, 'pos_to_xy(pos, xvect=): x along xvect, y along n x xvect', f'altvect:pos_to_xy:{xm}')
                pb = gs.xy_to_pos(x_in, y_in, **kxx)
                rec.close(tol_x, pb, pos_exp, 'xy_to_pos(x, y, xvect=) inverts pos_to_xy with the same xvect', f'altvect:xy_to_pos:{xm}')
                rec.count('altvect:inverse-pairs')
            # -- the query forms: every form names the same positions -----------------------
            for name, f, vals, table, rng_ in funcs:
                tol_e = 1e-10 * rng_ * max(kap_n, kap_a) * smax
                if name not in base:
                    continue
                e0 = base[name][0]
                with ctx.guard(f'{name} accepts x/y with alternative shift vectors', f'altvect:{name}:xy-form:exception:{xm}'):
                    e_x = f(x=x_in, y=y_in, **kx)
                    rec.close(tol_e, np.reshape(e_x, -1), e0, f'{name}(x=, y=, a1vect=, a2vect=[, xvect=]) is the value at the position those plotting coordinates name', f'altvect:{name}:xy-form', given=kx, form=form, xmode=xm)
                    # whatever the two forms return, they name the same position: they must agree
                    e_p = f(pos=gs.xy_to_pos(x_in, y_in, **kxx), **kv)
                    rec.close(tol_e, np.reshape(e_x, -1), np.reshape(e_p, -1), f'{name}(x=, y=, **kw) = {name}(pos=xy_to_pos(x, y), **kw): plotting and Cartesian forms are interchangeable', f'altvect:{name}:xy-vs-pos:{xm}', given=kx, form=form)
                    rec.count('altvect:queries', 2 * N)
        for name, f, vals, table, rng_ in funcs:
            tol_e = 1e-10 * rng_ * max(kap_n, kap_a) * smax
            if name not in base:
                continue
            e0, e0n = base[name]
            with ctx.guard(f'{name} accepts a1/a2 with alternative shift vectors', f'altvect:{name}:a12-form:exception'):
                e_a = f(a1=a_in, a2=b_in, **kv)
                rec.close(tol_e, np.reshape(e_a, -1), e0, f'{name}(a1=, a2=, a1vect=, a2vect=) is the value at the same Cartesian position', f'altvect:{name}:a12-form', given=kv, form=form)
                if form == 'scalar':
                    rec.check(np.ndim(e_a) == 0, f'{name} of scalar coordinates with alternative vectors is a scalar', f'altvect:{name}:a12-form:scalar-shape', shape=np.shape(e_a))
                # nearest-node lookup: exempt points within 1e-7 of a tie between two nodes
                n1, n2 = S['n1'], S['n2']
                tie = np.minimum(np.abs((s1 * n1 - 0.5) - np.rint(s1 * n1 - 0.5)), np.abs((s2 * n2 - 0.5) - np.rint(s2 * n2 - 0.5))) < 1e-7 * smax
                e_n = np.reshape(f(a1=a_in, a2=b_in, smooth=False, **kv), -1)
                rec.count('altvect:nearest:exempt-tie', int(tie.sum()))
                rec.close(1e-12 * rng_, e_n[~tie], e0n[~tie], f'{name}(a1=, a2=, a1vect=, a2vect=, smooth=False) is the nearest sampled value at the same Cartesian position', f'altvect:{name}:a12-form:nearest', given=kv, form=form)
                rec.count('altvect:queries', 2 * N)
            with ctx.guard(f'{name} accepts pos with alternative shift vectors', f'altvect:{name}:pos-form:exception'):
                e_p = f(pos=pos_in, **kv)
                rec.close(tol_e, np.reshape(e_p, -1), e0, f'{name}(pos=, a1vect=, a2vect=) is the value at that Cartesian position whatever vectors are named', f'altvect:{name}:pos-form', given=kv, form=form)
                rec.count('altvect:queries', N)
    rec.count('altvect')


# ----------------------------------------------------------------------------
# Peierls-Nabarro terms
# ----------------------------------------------------------------------------
def build_gamma_for(am, P, n1, n2, table):
    k, l = np.meshgrid(np.arange(n1), np.arange(n2), indexing='ij')
    box = am.Box(vects=P['boxvects']) if P['boxvects'] is not None else None
    return am.defect.GammaSurface(a1vect=P['a1vect'], a2vect=P['a2vect'], a1=(k / n1).ravel(), a2=(l / n2).ravel(), E_gsf=table.ravel(), box=box)


def solve_volterra(ctx, am, P, Cij=None):
    """Volterra solution for set-up P (None when the solver refuses the set-up: that belongs to C12)."""
    box = am.Box(vects=P['boxvects']) if P['boxvects'] is not None else None
    C = am.ElasticConstants(Cij=P['C'] if Cij is None else Cij)
    m, n = P['mn']
    try:
        if P['transform'] is None:
            return am.defect.solve_volterra_dislocation(C, P['burgers'], ξ_uvw=P['xi_uvw'], slip_hkl=P['slip_hkl'], box=box, m=m, n=n)
        # rows of `transform` are the directions put on the Cartesian x, y, z axes of the solution
        return am.defect.solve_volterra_dislocation(C, P['burgers'], transform=O.relabel(m, n).T @ P['transform'], m=m, n=n)
    except Exception as e:      # the Volterra solution belongs to C12
        ctx.rec.refusal(f'volterra:{type(e).__name__}')
        return None


def settings_kwargs(P):
    kw = dict(tau=P['tau_value'], alpha=P['alpha_value'], beta=P['beta_value'], **P['flags'])
    if P['cutoff_value'] is not None:
        kw['cutofflongrange'] = P['cutoff_value']
    return kw


def build_parts(ctx, am, P, grid_index, table=None, grid=None):
    """(GammaSurface, Volterra solution, info) for set-up P, or (None, None, None)."""
    rng = ctx.rng
    n1, n2 = grid or gen.GRIDS[grid_index % len(gen.GRIDS)]
    if table is None:
        table = gen.energy_table(rng, n1, n2, 'smooth', 10 ** rng.uniform(-2.5, -1))
    gs = build_gamma_for(am, P, n1, n2, table)
    vol = solve_volterra(ctx, am, P)
    if vol is None:
        return None, None, None
    m, n = P['mn']
    bv = P['boxvects'] if P['boxvects'] is not None else np.eye(3)
    T = O.dislocation_frame(bv, P['xi_uvw'], P['slip_hkl']) if P['transform'] is None else np.array([O.unit(r) for r in P['transform']])
    Rl = O.relabel(m, n)
    info = dict(T=T, K=Rl @ np.asarray(vol.K_tensor) @ Rl.T, b=T @ O.crystal_to_cart(P['burgers'], bv), n1=n1, n2=n2, table=table,
                plane=O.Plane(P['a1vect'], P['a2vect'], bv), Kname=type(vol).__name__)
    return gs, vol, info


def build_pn(ctx, am, P, grid_index, with_settings=True, table=None, grid=None):
    """GammaSurface + Volterra solution + SDVPN object for set-up P.  Returns
    (pn, info) or (None, None) when the Volterra solver refuses the set-up."""
    gs, vol, info = build_parts(ctx, am, P, grid_index, table=table, grid=grid)
    if vol is None:
        return None, None
    pn = am.defect.SDVPN(volterra=vol, gamma=gs, **(settings_kwargs(P) if with_settings else {}))
    pn._vf_T = info['T']
    return pn, info


def check_frame(rec, pn, info, P):
    """The model's frame, Burgers vector and K tensor are the inputs in [m, n, xi] order."""
    rec.close(1e-9, pn.transform, info['T'], 'PN frame has rows m, n, xi whatever axes the Volterra solution uses', f'frame:transform:{P["cell"]}', mn=P['mn'])
    rec.close(1e-9 * np.abs(info['b']).max(), pn.burgers, info['b'], 'PN Burgers vector is expressed in the [m, n, xi] frame', f'frame:burgers:{P["cell"]}', mn=P['mn'])
    rec.close(1e-9 * np.abs(info['K']).max(), pn.K_tensor, info['K'], 'PN K tensor is the Volterra tensor re-labelled to [m, n, xi]', 'frame:K', mn=P['mn'])
    rec.close(1e-9 * np.abs(info['K']).max(), pn.K_tensor, np.asarray(pn.K_tensor).T, 'K tensor is symmetric', 'frame:K-symmetric')


def make_profile(rng, P, pn, info, x):
    """(disregistry (N,3) in the [m,n,xi] frame, gamma values or None)."""
    b = np.asarray(info['b'], float)
    bn = np.linalg.norm(b)
    perp = np.array([-b[2], 0.0, b[0]])
    if P['profile'] == 'nodes':
        n1, n2 = info['n1'], info['n2']
        k, l = gen.gen_profile(rng, 'nodes', x, n1, n2)
        pos = info['plane'].a12_to_pos(k / n1, l / n2)
        d = pos @ info['T'].T
        d[:, 1] = 0.0
        gam = [O.node_energy(k[j] / n1, l[j] / n2, n1, n2, info['table']) for j in range(len(x))]
        return d, gam
    along, across = gen.gen_profile(rng, P['profile'], x, info['n1'], info['n2'])
    d = np.outer(along, b) + np.outer(across, perp)
    d[:, 1] = 0.0
    return d, None


TERMS = ['misfit', 'elastic', 'longrange', 'stress', 'surface', 'nonlocal']


def pn_case(ctx, am, i):
    rec, rng = ctx.rec, ctx.rng
    P = gen.gen_pn(rng, i)
    cls = gen.pn_classes(i)
    flags = P['flags']
    fkey = ''.join(str(int(flags[k])) for k in ('fullstress', 'cdiffstress', 'cdiffelastic', 'cdiffsurface'))
    sig = (P['cell'], P['K'], P['profile'], P['tau'], P['alpha'], P['beta'], P['N'], P['mn'], fkey)
    pn = info = None
    with ctx.guard('an SDVPN object can be built for a slip system lying in the gamma-surface plane', f'pn:build:{P["cell"]}'):
        pn, info = build_pn(ctx, am, P, i)
    if pn is None:
        rec.case(sig, nontrivial=False)
        return
    for k_, v_ in (('cell', P['cell']), ('K', info['Kname']), ('profile', P['profile']), ('tau', P['tau']), ('alpha', P['alpha']),
                   ('beta', P['beta']), ('flags', fkey), ('mn', ''.join(P['mn']))):
        rec.count(f'class:pn:{k_}:{v_}')
    check_frame(rec, pn, info, P)
    bn = float(np.linalg.norm(info['b']))
    x = gen.gen_grid(rng, P['N'], bn, P['x0'])
    d, gam = make_profile(rng, P, pn, info, x)
    rec.case(sig, nontrivial=True, fp=fingerprint(x, d, P['C'], P['tau_value'], P['beta_value']))
    if i < 16:
        rec.sample(dict(sig=sig, x=x, disregistry=d, burgers=info['b'], K=info['K']))
    K = info['K']
    Rg = float(info['table'].max() - info['table'].min())
    exp = oracle_terms(pn, x, d, gammas=gam)
    got = {}
    methods = {'misfit': pn.misfit_energy, 'elastic': pn.elastic_energy, 'stress': pn.stress_energy, 'surface': pn.surface_energy, 'nonlocal': pn.nonlocal_energy}
    asym_beta = P['beta'] == 'asym'
    broken_stress = flags['fullstress'] and flags['cdiffstress']
    for name in TERMS:
        e, mag = exp[name]
        key = f'term:{name}'
        if name == 'misfit':
            key += ':nodes' if gam is not None else ':generic'
        try:
            v = pn.longrange_energy() if name == 'longrange' else methods[name](x, d)
        except Exception as ex:
            k2 = 'term:stress:fullstress+cdiffstress:raises' if (name == 'stress' and broken_stress) else key + ':exception'
            rec.fail(f'{name}_energy evaluates for every finite-difference setting', k2, exception=ex, flags=flags)
            continue
        got[name] = float(v)
        tol = 1e-9 * mag + 1e-300
        if name == 'misfit':
            tol = (1e-8 if gam is not None else 1e-9) * Rg * len(x) * abs(x[1] - x[0])
        if name == 'stress' and broken_stress:
            ok1 = abs(v - e) <= tol
            e2, mag2 = O.stress_full(x, d, pn.tau, True, centred_weight=True)
            ok2 = abs(v - e2) <= 1e-9 * mag2 + 1e-300
            rec.count('term:stress:cdiff:' + ('literal' if ok1 else 'centred' if ok2 else 'neither'))
            rec.check(ok1 or ok2, 'stress_energy with the central-difference density is -1/2 sum w_i rho_i.tau_2 with w_i = x[i]^2-x[i-1]^2 or its centred form',
                      'term:stress:fullstress+cdiffstress', got=v, literal=e, centred=e2)
            continue
        if name == 'surface' and asym_beta:
            e_t, _ = O.surface(x, d, pn.beta, pn.cdiffsurface, transposed=True)
            rec.count('term:surface:asym:' + ('as-documented' if abs(v - e) <= tol else 'transposed' if abs(v - e_t) <= tol else 'neither'))
            rec.close(tol, v, e, 'surface_energy = sum_j beta_lj/4 sum_i rho_l[i]^2 dx (first index of beta pairs with the density component)',
                      'term:surface:beta-asymmetric', beta=pn.beta, transposed_value=e_t)
            continue
        rec.close(tol, v, e, f'{name}_energy equals the direct evaluation of its documented formula', key, flags=flags, N=len(x))
        rec.count('term:' + name)
    # total = sum of the six term methods
    tot = None
    try:
        tot = float(pn.total_energy(x, d))
    except Exception as ex:
        k2 = 'term:stress:fullstress+cdiffstress:raises' if broken_stress else 'total:exception'
        rec.fail('total_energy evaluates for every finite-difference setting', k2, exception=ex, flags=flags)
    if tot is not None and len(got) == 6:
        rec.close(1e-12 * sum(abs(v) for v in got.values()), tot, sum(got.values()), 'total_energy is the sum of the six term methods', 'total:sum')
        rec.count('total:sum')
    # stored x / disregistry are used when none are passed
    if i % 4 == 0 and tot is not None:
        pn.x = x
        pn.disregistry = d
        rec.close(1e-13 * abs(tot), pn.total_energy(), tot, 'total_energy() uses the stored x and disregistry', 'total:stored')
    # density method
    for cd in (False, True):
        xs, rho = pn.disldensity(x, d, cdiff=cd)
        xe, re_ = O.density(x, d, cd)
        rec.close(1e-10 * np.abs(re_).max(initial=1e-300), rho, re_, 'disldensity is the documented difference quotient', f'density:cdiff={cd}')
        rec.close(1e-12 * np.abs(x).max(), xs, xe, 'disldensity returns the matching x values', f'density:x:cdiff={cd}')
    # -- elastic term: quadratic form, symmetric, shift invariant ---------------
    dx = x[1] - x[0]
    e0, mag0 = exp['elastic']
    shiftv = np.array([rng.uniform(-3, 3), 0.0, rng.uniform(-3, 3)]) * bn
    v0 = float(pn.elastic_energy(x, d))
    rec.close(1e-9 * mag0 * (1 + np.abs(shiftv).max() / bn), float(pn.elastic_energy(x, d + shiftv)), v0,
              'elastic energy is unchanged by disregistry -> disregistry + const', 'elastic:shift-invariance')
    s = rng.uniform(-2, 2)
    rec.close(1e-9 * mag0 * max(1, s * s), float(pn.elastic_energy(x, s * d)), s * s * v0, 'elastic energy is quadratic in the disregistry', 'elastic:quadratic')
    d2 = np.zeros_like(d)
    a2_, c2_ = gen.gen_profile(rng, 'rough', x, 4, 4)
    bvec = np.asarray(info['b'])
    d2 = np.outer(c2_, bvec) + np.outer(a2_ - a2_[0], np.array([-bvec[2], 0, bvec[0]]))
    d2[:, 1] = 0.0
    ra = O.density(x, d, pn.cdiffelastic)[1]
    rb = O.density(x, d2, pn.cdiffelastic)[1]
    Bab, m1 = O.elastic_bilinear(ra, rb, dx, K)
    Bba, m2 = O.elastic_bilinear(rb, ra, dx, K)
    Ebb, m3 = O.elastic_bilinear(rb, rb, dx, K)
    rec.close(1e-10 * (m1 + m2), Bab, Bba, 'oracle: the documented double sum is symmetric in its two density factors', 'elastic:oracle-symmetric')
    cross = float(pn.elastic_energy(x, d + d2)) - v0 - float(pn.elastic_energy(x, d2))
    rec.close(1e-9 * (mag0 + m1 + m2 + m3), cross, Bab + Bba, 'elastic energy polarises into the symmetric bilinear form B(a,b)+B(b,a)', 'elastic:polarisation')
    # reversed and negated profile has the density in reverse order: same energy (chi(i,j) = chi(j,i))
    rec.close(1e-9 * mag0, float(pn.elastic_energy(x, -d[::-1])), v0, 'elastic energy is unchanged when the density sequence is reversed', 'elastic:reversal')
    rec.count('elastic:invariances')
    # -- stress term: the two algorithms differ by the end-point term only ----------
    if P['tau'] != 'zero' and not flags['cdiffstress']:
        old = pn.fullstress
        try:
            pn.fullstress = True
            ef = float(pn.stress_energy(x, d))
            pn.fullstress = False
            ea = float(pn.stress_energy(x, d))
        finally:
            pn.fullstress = old
        mg = O.stress_full(x, d, pn.tau)[1] + O.stress_trapezoid(x, d, pn.tau)[1]
        rec.close(1e-9 * mg, ef - ea, O.stress_boundary_term(x, d, pn.tau),
                  'full and alternate stress energies differ only by the end-point term -tau_2l (x_N d_N - x_1 d_1)', 'stress:algorithms-consistent')
        rec.count('stress:consistency')


# ----------------------------------------------------------------------------
# call histories on ONE object: every evaluation is judged against the oracle's direct
# evaluation for the settings requested so far AND against a freshly constructed object
# ----------------------------------------------------------------------------
def set_surface(am, g, S):
    box = am.Box(vects=S['boxvects']) if S['boxvects'] is not None else None
    g.set(S['a1vect'], S['a2vect'], S['a1'], S['a2'], S['E'], box=box, delta=S['delta'])


def warm_surface(g, S):
    """A few queries of every kind, so that anything the object memoises has been filled in."""
    a = np.array([0.13, 0.61, -0.4, 1.0]), np.array([0.27, 0.02, 0.77, 0.5])
    out = [g.E_gsf(a1=a[0].copy(), a2=a[1].copy()), g.E_gsf(a1=a[0].copy(), a2=a[1].copy(), smooth=False)]
    if S['with_delta']:
        out += [g.delta(a1=a[0].copy(), a2=a[1].copy()), g.delta(a1=a[0].copy(), a2=a[1].copy(), smooth=False)]
    pos = g.a12_to_pos(a[0], a[1])
    out += [g.E_gsf(pos=pos), np.array(g.pos_to_xy(pos)), np.array(g.xy_to_a12(*g.a12_to_xy(a[0], a[1]))), np.array(g.pos_to_a12(pos))]
    g.model()
    return out


def judge_surface(ctx, am, g, S, fresh, mode, exact=True):
    """Object g, which held other data before, must behave as a surface freshly built from S."""
    rec, rng = ctx.rec, ctx.rng
    pl = plane_of(S)
    n1, n2 = S['n1'], S['n2']
    R = float(S['table'].max() - S['table'].min())
    Rd = float(S['dtable'].max() - S['dtable'].min()) if S['with_delta'] else None
    L = max(np.linalg.norm(pl.A1), np.linalg.norm(pl.A2))
    kappa = np.linalg.cond(np.array([pl.A1, pl.A2]).T)
    ftol = 1e-11 if exact else 1e-8
    k_ = lambda what: f'hist:gs:{what}:{mode}'
    c_ = 'after set()/model(model=) is called again the object is the surface of the new data: '
    with ctx.guard(c_ + 'geometry', k_('geometry:exception')):
        rec.close(1e-12, g.planenormal, pl.n, c_ + 'plane normal', k_('planenormal'))
        bv = S['boxvects'] if S['boxvects'] is not None else np.eye(3)
        rec.close(1e-12 * L, O.crystal_to_cart(g.a1vect, g.box.vects), pl.A1, c_ + 'shift vectors', k_('vectors'))
        rec.close(1e-12 * L, O.crystal_to_cart(g.a2vect, g.box.vects), pl.A2, c_ + 'shift vectors', k_('vectors'))
        rec.close(1e-12 * np.abs(bv).max(), g.box.vects, bv, c_ + 'box', k_('box'))
        rec.close(1e-13, g.data.a1.values, S['a1'], c_ + 'fractional coordinates', k_('data'))
        rec.close(1e-13, g.data.a2.values, S['a2'], c_ + 'fractional coordinates', k_('data'))
        rec.close(1e-12 * S['scale'], g.data.E_gsf.values, S['E'], c_ + 'energies', k_('data'), rtol=1e-12)
        rec.check(('delta' in g.data) == S['with_delta'], c_ + 'presence of plane-separation data', k_('delta-presence'))
    funcs = [('E_gsf', g.E_gsf, fresh.E_gsf, S['E'], R)]
    if S['with_delta']:
        funcs.append(('delta', g.delta, fresh.delta, S['delta'], Rd))
    else:
        try:
            v = g.delta(a1=np.array([0.13, 0.61]), a2=np.array([0.27, 0.02]))
            rec.fail(c_ + 'delta() refuses when the new data have no plane separations', k_('delta-stale'), returned=v)
        except AttributeError:
            rec.refusal('delta without plane-separation data: AttributeError')
            rec.count('hist:gs:delta-refused')
        except Exception as e:
            rec.fail(c_ + 'delta() refuses with AttributeError when the new data have no plane separations', k_('delta-stale:exception'), exception=e)
    cushion = 0.0 if S['layout'] == 'dup' else 0.5 / n1
    generic, hard, edge = gen.query_points(rng, 12, n1, n2, cushion)
    pts = np.vstack([generic, hard])
    pq = gen.periods(rng, 3)
    for name, f, ff, vals, rng_ in funcs:
        for smooth in (True, False):
            sm = 'smooth' if smooth else 'nearest'
            with ctx.guard(c_ + f'{name} evaluates', k_(f'{name}:{sm}:exception')):
                got = f(a1=np.array(S['a1']), a2=np.array(S['a2']), smooth=smooth)
                rec.close(1e-8 * rng_, got, vals, c_ + f'{name} reproduces the new data at the new sampled shifts', k_(f'nodes:{name}:{sm}'))
                q = pts if smooth else generic
                got = f(a1=q[:, 0].copy(), a2=q[:, 1].copy(), smooth=smooth)
                exp = ff(a1=q[:, 0].copy(), a2=q[:, 1].copy(), smooth=smooth)
                rec.close(ftol * rng_, got, exp, c_ + f'{name} equals that of a freshly constructed surface', k_(f'fresh:{name}:{sm}'))
                for p_, q_ in pq:
                    got2 = f(a1=q[:, 0] + p_, a2=q[:, 1] + q_, smooth=smooth)
                    rec.close(1e-10 * rng_, got2, got, c_ + f'{name} is periodic', k_(f'periodic:{name}:{sm}'))
                rec.count('hist:gs:fresh-compared', len(q))
    ab = rng.uniform(-1.5, 2.5, (4, 2))
    amax = 1 + np.abs(ab).max()
    pos_exp = pl.a12_to_pos(ab[:, 0], ab[:, 1])
    x_exp, y_exp = pl.pos_to_xy(pos_exp)
    with ctx.guard(c_ + 'conversions', k_('conv:exception')):
        rec.close(1e-12 * L * amax, g.a12_to_pos(ab[:, 0], ab[:, 1]), pos_exp, c_ + 'a12_to_pos', k_('a12_to_pos'))
        b1, b2 = g.pos_to_a12(pos_exp)
        rec.close(1e-9 * kappa * amax, np.array([b1, b2]), ab.T, c_ + 'pos_to_a12', k_('pos_to_a12'))
        xx, yy = g.a12_to_xy(ab[:, 0], ab[:, 1])
        rec.close(1e-11 * L * amax, np.array([xx, yy]), np.array([x_exp, y_exp]), c_ + 'a12_to_xy', k_('a12_to_xy'))
        c1, c2 = g.xy_to_a12(x_exp, y_exp)
        rec.close(1e-9 * kappa * amax, np.array([c1, c2]), ab.T, c_ + 'xy_to_a12', k_('xy_to_a12'))
        e_a = g.E_gsf(a1=ab[:, 0].copy(), a2=ab[:, 1].copy())
        rec.close(1e-10 * R * kappa, g.E_gsf(pos=pos_exp), e_a, c_ + 'E_gsf(pos=) = E_gsf(a1=, a2=)', k_('interchange:pos'))
        rec.close(1e-10 * R * kappa, np.reshape(g.E_gsf(x=x_exp, y=y_exp), -1), e_a, c_ + 'E_gsf(x=, y=) = E_gsf(a1=, a2=)', k_('interchange:xy'))
    with ctx.guard(c_ + 'model()', k_('model:exception')):
        g3 = am.defect.GammaSurface(model=g.model())
        rec.close(1e-12 * S['scale'], g3.data.E_gsf.values, S['E'], c_ + 'model() writes the new data', k_('model'), rtol=1e-12)
        rec.close(1e-12 * L, O.crystal_to_cart(g3.a1vect, g3.box.vects), pl.A1, c_ + 'model() writes the new vectors', k_('model'))
        rec.check(('delta' in g3.data) == S['with_delta'], c_ + 'model() writes plane separations only when the new data have them', k_('model:delta-presence'))


def gs_history_case(ctx, am, i):
    rec, rng = ctx.rec, ctx.rng
    mode, ia, ib = gen.gs_history_plan(i)
    A = gen.gen_surface(rng, ia)
    if mode == 'same-shape':
        # same number of rows, same grid, same layout; plane separations kept (F>F, T>T), added (F>T), dropped (T>F) in turn
        wd = A['with_delta'] if (i // 7) % 4 < 2 else not A['with_delta']
        B = gen.gen_surface(rng, ib, override=dict(grid=(A['n1'], A['n2']), layout=A['layout'], order=A['order'], with_delta=wd))
        rec.count(f"hist:gs:same-shape:{A['with_delta']}>{wd}")
    elif mode == 'same-vectors':
        B = gen.gen_surface(rng, ib, vectors=(A['shift'], A['cellkind'], A['boxvects'], A['a1vect'], A['a2vect']))
    else:
        B = gen.gen_surface(rng, ib)
    sig = ('gs-history', mode, A['shift'], B['shift'], A['layout'] + '>' + B['layout'], f"{A['n1']}x{A['n2']}>{B['n1']}x{B['n2']}", f"delta:{A['with_delta']}>{B['with_delta']}")
    rec.case(sig, nontrivial=True, fp=fingerprint(A['E'], B['E'], A['a1vect'], B['a1vect']))
    rec.count('hist:gs:mode:' + mode)
    rec.count(f"hist:gs:delta:{A['with_delta']}>{B['with_delta']}")
    rec.count('hist:gs:same-length-other-data', int(len(A['E']) == len(B['E'])))
    g = freshA = freshB = None
    with ctx.guard('gamma surfaces can be built', f'hist:gs:build:{mode}'):
        freshA = build_gamma(am, A)
        freshB = build_gamma(am, B)
        if mode == 'model-set':
            g = am.defect.GammaSurface(model=freshA.model())
        elif mode == 'empty-set':
            g = am.defect.GammaSurface()
            try:
                g.data
                rec.fail('an empty gamma surface has no data', 'hist:gs:empty-has-data')
            except AttributeError:
                pass
        else:
            g = build_gamma(am, A)
    if g is None or freshB is None:
        return
    exact = True
    with ctx.guard('set() / model(model=) can be called again on an object that holds data', f'hist:gs:reset:exception:{mode}'):
        first = warm_surface(g, A) if mode != 'empty-set' else None
        if mode == 'set-model':
            mdl = freshB.model()
            g.model(model=mdl)
            freshB = am.defect.GammaSurface(model=mdl)      # same numbers after the unit round trip
        else:
            set_surface(am, g, B)
        judge_surface(ctx, am, g, B, freshB, mode)
        if mode == 'ABA':
            set_surface(am, g, A)
            judge_surface(ctx, am, g, A, freshA, 'ABA-back')
            again = warm_surface(g, A)
            RA = float(A['table'].max() - A['table'].min()) + 1.0
            for u, v in zip(first, again):
                rec.close(1e-11 * RA * 10, np.asarray(v, float), np.asarray(u, float), 'setting the first data again gives the first answers again', 'hist:gs:ABA:same-answers')
        rec.count('hist:gs:judged')


def oracle_terms_state(st, gammas):
    """The six documented terms for the settings REQUESTED so far (never read back from the object)."""
    x, d, fl = st['x'], st['d'], st['flags']
    out = {'misfit': O.misfit_from_values(x, gammas), 'elastic': O.elastic(x, d, st['K'], fl['cdiffelastic'])}
    lr = O.longrange(st['K'], st['b'], st['cutoff'])
    out['longrange'] = (lr, abs(lr))
    if fl['fullstress']:
        out['stress'] = O.stress_full(x, d, st['tau'], fl['cdiffstress'], centred_weight=fl['cdiffstress'])
        if fl['cdiffstress']:
            out['stress-literal'] = O.stress_full(x, d, st['tau'], True)
    else:
        out['stress'] = O.stress_trapezoid(x, d, st['tau'])
    out['surface'] = O.surface(x, d, st['beta'], fl['cdiffsurface'])
    out['nonlocal'] = O.nonlocal_(x, d, st['alpha'])
    return out


def state_gammas(st, d=None):
    """gamma at each disregistry vector: node values of the current table when the profile sits on
    nodes, else scalar queries of a FRESH surface built from the current table (oracle frame / plane)."""
    if d is None and st['gam'] is not None:
        return st['gam']
    d = st['d'] if d is None else d
    vals = []
    for di in d:
        pos = st['T'].T @ np.array([di[0], 0.0, di[2]])
        a1, a2 = st['plane'].pos_to_a12(pos)
        vals.append(float(st['gs_fresh'].E_gsf(a1=float(a1[0]), a2=float(a2[0]))))
    return vals


def state_kwargs(st):
    return dict(tau=st['tau'], alpha=st['alpha_in'], beta=st['beta'], cutofflongrange=st['cutoff'], **st['flags'])


def judge_pn(ctx, am, pn, st, step, how):
    rec = ctx.rec
    x, d = st['x'], st['d']
    N, dx = len(x), abs(x[1] - x[0])
    exp = oracle_terms_state(st, state_gammas(st))
    fresh = am.defect.SDVPN(volterra=st['vol'], gamma=st['gs_fresh'], **state_kwargs(st))
    if how == 'stored':
        pn.x = x
        pn.disregistry = d
        call = lambda m: m()
    else:
        call = lambda m: m(x, d)
    names = {'misfit': 'misfit_energy', 'elastic': 'elastic_energy', 'stress': 'stress_energy', 'surface': 'surface_energy', 'nonlocal': 'nonlocal_energy'}
    c_ = 'on an object that has evaluated other grids / profiles / settings before, '
    got, tot_exp, tot_mag = {}, 0.0, 0.0
    for name in TERMS:
        e, mag = exp[name]
        tol = 1e-9 * mag + 1e-300
        ftol = 1e-11 * mag + 1e-300
        if name == 'misfit':
            tol = (1e-8 if st['gam'] is not None else 1e-9) * st['Rg'] * N * dx
            ftol = 1e-11 * st['Rg'] * N * dx
        try:
            v = float(pn.longrange_energy()) if name == 'longrange' else float(call(getattr(pn, names[name])))
            vf = float(fresh.longrange_energy()) if name == 'longrange' else float(getattr(fresh, names[name])(x, d))
        except Exception as ex:
            rec.fail(c_ + f'{name}_energy evaluates', f'hist:pn:{name}:exception', exception=ex, step=step, how=how)
            continue
        got[name] = v
        if name == 'stress' and 'stress-literal' in exp and abs(v - exp['stress-literal'][0]) <= 1e-9 * exp['stress-literal'][1] + 1e-300:
            e, mag = exp['stress-literal']         # the documented formula leaves the weights of the central-difference density open
        tot_exp += e
        tot_mag += mag
        rec.close(tol, v, e, c_ + f'{name}_energy equals the direct evaluation of its documented formula', f'hist:pn:{name}:after:{step}', how=how, N=N, dx=dx)
        rec.close(ftol, v, vf, c_ + f'{name}_energy equals that of a freshly constructed object with the same settings', f'hist:pn:fresh:{name}:after:{step}', how=how, N=N, dx=dx)
    try:
        t = float(call(pn.total_energy))
        tf = float(fresh.total_energy(x, d))
    except Exception as ex:
        rec.fail(c_ + 'total_energy evaluates', 'hist:pn:total:exception', exception=ex, step=step, how=how)
        return
    if len(got) == 6:
        rec.close(1e-8 * tot_mag, t, tot_exp, c_ + 'total_energy equals the sum of the documented term formulas', f'hist:pn:total:after:{step}', how=how, N=N, dx=dx)
        rec.close(1e-11 * tot_mag, t, tf, c_ + 'total_energy equals that of a freshly constructed object with the same settings', f'hist:pn:fresh:total:after:{step}', how=how, N=N, dx=dx)
        rec.close(1e-12 * sum(abs(v) for v in got.values()), t, sum(got.values()), c_ + 'total_energy is the sum of the six term methods', 'hist:pn:total:sum')
        rec.count('hist:pn:judged')
        rec.count('hist:pn:fresh-compared')
    rec.count('hist:pn:how:' + how)


def new_settings(rng, which, nonneg=False, k=None):
    s = rng.uniform(0.002, 0.02)
    if which == 'tau':
        tau = rng.normal(size=(3, 3)) * s
        return (tau + tau.T) / 2 if rng.random() < 0.4 else tau
    if which == 'alpha':
        al = rng.uniform(0.0 if nonneg else -0.02, 0.05, 3)
        k = int(rng.integers(0, 4)) if k is None else k
        return [float(al[0]), [float(al[0])], [float(al[0]), float(al[1])], [float(t) for t in al]][k]
    if which == 'beta':
        beta = rng.uniform(0.0 if nonneg else -0.1, 0.3, (3, 3))
        return (beta + beta.T) / 2 if rng.random() < 0.4 else beta
    if which == 'cutoff':
        return float(10 ** rng.uniform(1.5, 4))
    raise ValueError(which)


def alpha_tuple(a):
    try:
        return tuple(float(t) for t in a)
    except TypeError:
        return (float(a),)


def pn_history_case(ctx, am, i):
    rec, rng = ctx.rec, ctx.rng
    plan = gen.history_plan(i)
    cls = gen.pn_classes(7 * i + 3)
    cls['N'] = gen.HIST_N[i % len(gen.HIST_N)]
    P = gen.gen_pn(rng, i, cls)
    fkey = ''.join(str(int(P['flags'][k])) for k in ('fullstress', 'cdiffstress', 'cdiffelastic', 'cdiffsurface'))
    sig = ('pn-history', P['cell'], P['K'], P['profile'], P['N'], fkey, tuple(s for s, h in plan), tuple(h for s, h in plan))
    gs = vol = info = None
    with ctx.guard('an SDVPN object can be built for a slip system lying in the gamma-surface plane', f'hist:pn:build:{P["cell"]}'):
        gs, vol, info = build_parts(ctx, am, P, i)
    if vol is None:
        rec.case(sig, nontrivial=False)
        return
    pn = am.defect.SDVPN(volterra=vol, gamma=gs, **settings_kwargs(P))
    pn._vf_T = info['T']
    bn = float(np.linalg.norm(info['b']))
    x = gen.gen_grid(rng, P['N'], bn, P['x0'])
    d, gam = make_profile(rng, P, pn, info, x)
    rec.case(sig, nontrivial=True, fp=fingerprint(x, d, P['C'], P['tau_value'], P['beta_value']))
    st = dict(x=x, d=d, gam=gam, tau=np.asarray(P['tau_value'], float), alpha=alpha_tuple(P['alpha_value']), alpha_in=P['alpha_value'],
              beta=np.asarray(P['beta_value'], float), cutoff=1000.0 if P['cutoff_value'] is None else P['cutoff_value'], flags=dict(P['flags']),
              K=info['K'], b=info['b'], T=info['T'], plane=info['plane'], vol=vol, Rg=float(info['table'].max() - info['table'].min()),
              gs_fresh=build_gamma_for(am, P, info['n1'], info['n2'], info['table']))
    judge_pn(ctx, am, pn, st, 'construction', 'args')
    profiles = [p for p in gen.PN_PROFILES]

    def new_profile(xg, kind=None):
        kind = kind or profiles[int(rng.integers(0, len(profiles)))]
        dd, gg = make_profile(rng, dict(P, profile=kind), pn, info, xg)
        st.update(x=xg, d=dd, gam=gg)

    for j, (step, how) in enumerate(plan):
        rec.count('hist:pn:step:' + step)
        if j == 0:
            rec.count('hist:pn:first-step:' + step)
        x, d = st['x'], st['d']
        N, dx = len(x), x[1] - x[0]
        ok = False
        with ctx.guard(f'the settings of an SDVPN object can be changed between evaluations ({step})', f'hist:pn:apply:{step}:exception'):
            if step == 'x-respaced':
                f = rng.uniform(0.35, 0.75) if rng.random() < 0.5 else rng.uniform(1.4, 2.8)
                xn = x.mean() + (np.arange(N) - (N - 1) / 2) * dx * f
                if (i // 12 + j) % 2:
                    st.update(x=xn)               # same disregistry array, same number of points, other spacing
                    rec.count('hist:pn:respaced:same-disregistry')
                else:
                    new_profile(xn)
                rec.count('hist:pn:respaced:same-length', int(len(st['x']) == N and abs((st['x'][1] - st['x'][0]) / dx - 1) > 0.2))
            elif step == 'x-relength':
                Nn = gen.HIST_N[(gen.HIST_N.index(N) + 1 + int(rng.integers(0, len(gen.HIST_N) - 1))) % len(gen.HIST_N)] if N in gen.HIST_N else gen.HIST_N[j % len(gen.HIST_N)]
                new_profile(x[0] + np.arange(Nn) * dx)
            elif step == 'x-shifted':
                st.update(x=x + rng.uniform(-20, 20) * dx)
            elif step == 'disregistry':
                new_profile(x, kind=profiles[(profiles.index(P['profile']) + 1 + j) % len(profiles)])
            elif step == 'tau':
                st['tau'] = new_settings(rng, 'tau')
                pn.tau = st['tau']
            elif step == 'alpha':
                st['alpha_in'] = new_settings(rng, 'alpha', k=(i // 12 + i // 3 + j) % 4)      # scalar, 1, 2, 3 coefficients
                st['alpha'] = alpha_tuple(st['alpha_in'])
                pn.alpha = st['alpha_in']
                rec.count(f'hist:pn:alpha-terms:{len(st["alpha"])}')
            elif step == 'beta':
                st['beta'] = new_settings(rng, 'beta')
                pn.beta = st['beta']
            elif step == 'cutoff':
                st['cutoff'] = new_settings(rng, 'cutoff')
                pn.cutofflongrange = st['cutoff']
            elif step == 'flags':
                mask = 1 + (i // 12 + i // 3 + 4 * j) % 15          # which of the four flags flip (never none)
                for b_, name in enumerate(('fullstress', 'cdiffstress', 'cdiffelastic', 'cdiffsurface')):
                    if mask >> b_ & 1:
                        st['flags'][name] = not st['flags'][name]
                        setattr(pn, name, st['flags'][name])
                        rec.count('hist:pn:flag-flipped:' + name)
            elif step == 'K-load':
                other = 'stroh' if P['K'] == 'iso' else 'iso'
                vol2 = solve_volterra(ctx, am, P, Cij=gen.stiffness(rng, other, P['cell']))
                if vol2 is None:
                    vol2 = solve_volterra(ctx, am, P, Cij=gen.stiffness(rng, P['K'], P['cell']))
                if vol2 is not None:
                    Rl = O.relabel(*P['mn'])
                    donor = am.defect.SDVPN(volterra=vol2, gamma=pn.gamma, **state_kwargs(st))
                    donor.x, donor.disregistry = st['x'], st['d']
                    pn.load(donor.model(), gamma=pn.gamma)
                    st.update(vol=vol2, K=Rl @ np.asarray(vol2.K_tensor) @ Rl.T)
                    rec.close(1e-9 * np.abs(st['K']).max(), pn.K_tensor, st['K'], 'load() replaces the K tensor of an existing object', 'hist:pn:K-load:K')
                    rec.count('hist:pn:K-changed', int(np.abs(st['K'] - info['K']).max() > 1e-3 * np.abs(info['K']).max()))
            elif step == 'gamma-set':
                grids = [g_ for g_ in gen.GRIDS if g_ != (info['n1'], info['n2'])]
                n1, n2 = grids[int(rng.integers(0, len(grids)))] if j % 2 else (info['n1'], info['n2'])
                table = gen.energy_table(rng, n1, n2, 'smooth', 10 ** rng.uniform(-2.5, -1))
                k_, l_ = np.meshgrid(np.arange(n1), np.arange(n2), indexing='ij')
                box = am.Box(vects=P['boxvects']) if P['boxvects'] is not None else None
                pn.gamma.set(P['a1vect'], P['a2vect'], (k_ / n1).ravel(), (l_ / n2).ravel(), table.ravel(), box=box)
                info.update(n1=n1, n2=n2, table=table)
                st.update(Rg=float(table.max() - table.min()), gs_fresh=build_gamma_for(am, P, n1, n2, table))
                new_profile(x)
                rec.count('hist:pn:gamma-set:' + ('other-grid' if j % 2 else 'same-grid'))
            elif step == 'solve-kwargs':
                Nn = 7
                xn = (np.arange(Nn) - (Nn - 1) / 2) * bn / rng.uniform(2.0, 6.0)
                new_profile(xn, kind=['arctan', 'rough', 'smooth'][(i + j) % 3])
                fl = {name: bool(rng.integers(0, 2)) for name in ('fullstress', 'cdiffstress', 'cdiffelastic', 'cdiffsurface')}
                st.update(tau=new_settings(rng, 'tau'), alpha_in=new_settings(rng, 'alpha', True), beta=new_settings(rng, 'beta', True),
                          cutoff=new_settings(rng, 'cutoff'), flags=fl)
                st['alpha'] = alpha_tuple(st['alpha_in'])
                d0 = st['d'].copy()
                e0 = sum(v[0] for k2, v in oracle_terms_state(st, state_gammas(st)).items() if k2 != 'stress-literal')
                try:
                    with cpu_limit(SOLVE_STEP_CPU):
                        pn.solve(x=xn, disregistry=d0.copy(), tau=st['tau'], alpha=st['alpha_in'], beta=st['beta'], cutofflongrange=st['cutoff'],
                                 min_method='Powell', min_options=dict(maxiter=1), **fl)
                except CpuLimit:
                    # a watchdog, not a clause of the property: nothing is concluded from a solve that was cut short
                    # (the floors on completed solves turn too many of these into INCONCLUSIVE)
                    rec.count('watchdog:hist:pn:solve-kwargs:cpu-limit')
                    return
                c2 = 'solve(x=, disregistry=, tau=, ...) on a used object stores the settings it was given: '
                rec.close(0, pn.tau, st['tau'], c2 + 'tau', 'hist:pn:solve-kwargs:setting:tau')
                rec.check(tuple(float(t) for t in pn.alpha) == st['alpha'], c2 + 'alpha', 'hist:pn:solve-kwargs:setting:alpha', got=pn.alpha, exp=st['alpha'])
                rec.close(0, pn.beta, st['beta'], c2 + 'beta', 'hist:pn:solve-kwargs:setting:beta')
                rec.check(pn.cutofflongrange == st['cutoff'], c2 + 'cutofflongrange', 'hist:pn:solve-kwargs:setting:cutoff')
                for name in fl:
                    rec.check(getattr(pn, name) is fl[name], c2 + name, 'hist:pn:solve-kwargs:setting:' + name, got=getattr(pn, name), exp=fl[name])
                rec.check(np.array_equal(pn.x, xn), c2 + 'x', 'hist:pn:solve-kwargs:setting:x')
                d1 = np.array(pn.disregistry, float)
                st.update(d=d1, gam=None)
                terms1 = oracle_terms_state(st, state_gammas(st))
                e1 = sum(v[0] for k2, v in terms1.items() if k2 != 'stress-literal')
                scale = sum(v[1] for k2, v in terms1.items() if k2 != 'stress-literal')
                rec.check(e1 <= e0 + 1e-9 * scale, 'solve() on a used object does not raise the total energy (both energies evaluated by the oracle)', 'hist:pn:solve-kwargs:energy', before=e0, after=e1)
                rec.check(np.array_equal(d1[0], d0[0]) and np.array_equal(d1[-1], d0[-1]), 'solve() on a used object leaves the two end disregistries fixed', 'hist:pn:solve-kwargs:ends')
                rec.check(d1.shape == d0.shape and np.all(d1[:, 1] == 0.0), 'solve() keeps the out-of-plane disregistry zero', 'hist:pn:solve-kwargs:y')
                rec.count('hist:pn:solve-lowered', int(e1 < e0 - 1e-9 * scale))
            ok = True
        if not ok:
            return
        judge_pn(ctx, am, pn, st, step, how)


def solve_case(ctx, am, i):
    rec, rng = ctx.rec, ctx.rng
    cls = gen.pn_classes(3 * i + 1)
    cls['flags'] = dict(fullstress=bool(i % 2), cdiffstress=False, cdiffelastic=bool(i & 2), cdiffsurface=bool(i & 4))
    cls['profile'] = ['arctan', 'rough', 'smooth'][i % 3]
    P = gen.gen_pn(rng, i, cls)
    # keep the minimisation well posed (energy bounded below): non-negative alpha and beta
    P['alpha_value'] = [abs(t) for t in P['alpha_value']] if isinstance(P['alpha_value'], list) else abs(P['alpha_value'])
    P['beta_value'] = np.abs(P['beta_value'])
    method = 'Powell' if i % 4 != 3 else 'Nelder-Mead'
    N = [9, 13, 17, 25][i % 4] if not ctx.quick else [7, 11, 9, 13][i % 4]
    maxiter = 1 if N > 9 else 2
    sig = ('solve', P['cell'], P['K'], cls['profile'], N, method, maxiter)
    pn = info = None
    with ctx.guard('an SDVPN object can be built', f'solve:build:{P["cell"]}'):
        pn, info = build_pn(ctx, am, P, i)
    if pn is None:
        rec.case(sig, nontrivial=False)
        return
    bn = float(np.linalg.norm(info['b']))
    x = gen.gen_grid(rng, N, bn * rng.uniform(1, 3), 'centred')
    d, _ = make_profile(rng, dict(P, profile=cls['profile']), pn, info, x)
    rec.case(sig, nontrivial=True, fp=fingerprint(x, d, P['C']))
    e0 = float(pn.total_energy(x, d))
    first, last = d[0].copy(), d[-1].copy()
    opts = dict(maxiter=maxiter) if method == 'Powell' else dict(maxiter=20 * N)
    ok = False
    with ctx.guard('solve() runs', f'solve:exception:{method}'):
        try:
            with cpu_limit(SOLVE_CASE_CPU):
                pn.solve(x=x, disregistry=d.copy(), min_method=method, min_options=opts)
            ok = True
        except CpuLimit:
            rec.count(f'watchdog:solve:cpu-limit:{method}')      # watchdog, not a verdict (see above)
    if not ok:
        return
    e1 = float(pn.total_energy())
    scale = sum(v[1] for v in oracle_terms(pn, x, d).values())
    rec.check(e1 <= e0 + 1e-10 * scale, 'solve() does not raise the total energy', f'solve:energy:{method}', before=e0, after=e1)
    rec.check(np.array_equal(pn.disregistry[0], first) and np.array_equal(pn.disregistry[-1], last),
              'solve() leaves the two end disregistries fixed', f'solve:ends:{method}', first=(first, pn.disregistry[0]), last=(last, pn.disregistry[-1]))
    rec.check(np.array_equal(pn.x, x), 'solve() leaves the x grid unchanged', 'solve:x')
    rec.check(pn.disregistry.shape == d.shape and np.all(pn.disregistry[:, 1] == 0.0), 'solve() keeps the out-of-plane disregistry zero', 'solve:y')
    rec.check(pn.res is not None and abs(float(pn.res.fun) - e1) <= 1e-9 * scale, 'the stored optimiser result belongs to the stored disregistry', 'solve:res')
    rec.count('solve:' + method)
    if e1 < e0 - 1e-9 * scale:
        rec.count('solve:lowered')
    if i < 8:
        rec.sample(dict(sig=sig, before=e0, after=e1, nfev=int(pn.res.nfev)))


def halfwidth_case(ctx, am, i):
    """gamma = gamma0 sin^2(pi d/b) sampled on a gamma-surface grid; scan 41 arctangent
    half-widths on a grid finer than b/10."""
    rec, rng = ctx.rec, ctx.rng
    cls = gen.pn_classes(i)
    cls.update(cell=gen.PN_CELLS[i % 4], K=gen.PN_KS[(i // 2) % 2], tau='zero', alpha='zero', beta='zero', mn=gen.PN_MN[i % 4],
               flags=dict(fullstress=True, cdiffstress=False, cdiffelastic=False, cdiffsurface=True), cutoff='default')
    P = gen.gen_pn(rng, i, cls)
    n1, n2 = [(12, 10), (10, 6), (12, 4), (10, 8)][i % 4]
    k, l = np.meshgrid(np.arange(n1), np.arange(n2), indexing='ij')
    sig = ('halfwidth', P['cell'], P['K'], f'{n1}x{n2}')
    unit_table = np.sin(np.pi * k / n1) ** 2
    pn = info = None
    with ctx.guard('an SDVPN object can be built', f'halfwidth:build:{P["cell"]}'):
        pn, info = build_pn(ctx, am, P, i, with_settings=False, table=unit_table, grid=(n1, n2))
    if pn is None:
        rec.case(sig, nontrivial=False)
        return
    b = np.asarray(info['b'], float)
    bn = float(np.linalg.norm(b))
    Kb2 = float(b @ info['K'] @ b)
    zs_b = rng.uniform(1.0, 1.5) if ctx.quick else rng.uniform(1.0, 2.0)
    zs = zs_b * bn
    gamma0 = Kb2 / (4 * np.pi ** 2 * zs)
    # same object, energies rescaled to gamma0
    P2 = P
    pn, info = build_pn(ctx, am, P2, i, with_settings=False, table=gamma0 * unit_table, grid=(n1, n2))
    div = rng.uniform(10.5, 14.0)
    dx = bn / div
    Xf = ([8, 12, 16] if ctx.quick else [12, 20, 32])[i % 3]      # half window / zeta*
    N = int(2 * Xf * zs / dx) | 1
    X = dx * (N - 1) / 2
    zw = O.window_halfwidth(X, Kb2, gamma0)
    zetas = np.linspace(0.6, 1.4, 41) * zw
    E = []
    ok = False
    with ctx.guard('total_energy evaluates on arctangent profiles', 'halfwidth:exception'):
        for z in zetas:
            xg, dg = am.defect.pn_arctan_disregistry(xnum=N, xstep=dx, burgers=pn.burgers, halfwidth=z)
            E.append(float(pn.total_energy(xg, dg)))
        ok = True
    if not ok:
        return
    E = np.array(E)
    zmin = O.parabola_minimum(zetas, E)
    rec.case(sig, nontrivial=True, fp=fingerprint(P['C'], zs, dx, N))
    tol = dx / zs + 0.02
    rec.count('halfwidth:scans')
    rec.count('halfwidth:grid-finer-than-b/10', int(dx < bn / 10))
    if zmin is None:
        rec.fail('the energy over arctangent profiles has an interior minimum in [0.6, 1.4] x the predicted half width', 'halfwidth:no-interior-minimum',
                 argmin=int(np.argmin(E)), zeta_star=zs, window=zw)
        return
    rec.check(abs(zmin / zw - 1) <= tol, 'the energy over arctangent profiles is lowest at the half width of the continuum model on the same window '
              '(within grid step/zeta* + 2 %)', 'halfwidth:window', found=zmin, window=zw, classical=zs, tol=tol, N=N, dx=dx)
    rec.check(abs(zmin / zs - 1) <= tol + abs(zw / zs - 1), 'the energy over arctangent profiles is lowest at the classical half width K b^2/(4 pi^2 gamma0) '
              '(within grid step/zeta* + 2 % + finite-window shift)', 'halfwidth:classical', found=zmin, window=zw, classical=zs, tol=tol)
    rec.sample(dict(sig=sig, classical=zs, window_prediction=zw, found=zmin, ratio_to_window=zmin / zw, ratio_to_classical=zmin / zs, tol=tol, N=N,
                    b_over_dx=div, window_over_zeta=Xf))


def arctan_case(ctx, am, i):
    rec, rng = ctx.rec, ctx.rng
    normalize, shift = bool(i & 1), bool(i & 2)
    how = ['x', 'xmax+xnum', 'xstep+xnum', 'xmax+xstep'][(i // 4) % 4]
    bkind = ['vector', 'scalar', 'default'][(i // 16) % 3] if how == 'x' else ['vector', 'default'][(i // 16) % 2]
    sig = ('arctan', normalize, shift, how, bkind)
    N = int(rng.integers(5, 60)) | 1
    dx = rng.uniform(0.1, 1.0)
    xmax = dx * (N - 1) / 2
    c = rng.uniform(-0.3, 0.3) * xmax
    w = rng.uniform(0.3, 4.0)
    bvec = {'vector': np.array([rng.uniform(-3, 3), 0.0, rng.uniform(-3, 3)]), 'scalar': np.array([rng.uniform(1, 3)]), 'default': None}[bkind]
    kw = dict(center=c, halfwidth=w, normalize=normalize)
    if bvec is not None:
        kw['burgers'] = bvec if bkind == 'vector' else float(bvec[0])
    if how == 'x':
        xs = np.linspace(-xmax, xmax, N) + rng.uniform(-2, 2)
        kw['x'] = xs
    elif how == 'xmax+xnum':
        kw.update(xmax=xmax, xnum=N)
        xs = np.linspace(-xmax, xmax, N)
    elif how == 'xstep+xnum':
        kw.update(xstep=dx, xnum=N)
        xs = np.linspace(-xmax, xmax, N)
    else:
        kw.update(xmax=xmax, xstep=dx)
        xs = np.linspace(-xmax, xmax, N)
    bo = np.array([1.0, 0, 0]) if bvec is None else bvec
    rec.case(sig, nontrivial=True, fp=fingerprint(xs, bo, c, w))
    with ctx.guard('pn_arctan_disregistry evaluates', 'arctan:disregistry:exception'):
        xg, dg = am.defect.pn_arctan_disregistry(shift=shift, **kw)
        de = O.arctan_disregistry(xs, bo, c, w, normalize, shift)
        rec.close(1e-12 * xmax, xg, xs, 'pn_arctan_disregistry returns the requested grid', 'arctan:x')
        rec.close(1e-12 * np.abs(bo).max(), dg, de.reshape(np.shape(dg)), 'pn_arctan_disregistry is b/pi arctan((x-c)/w) + b/2 (normalised / shifted as documented)', f'arctan:disregistry:{how}')
        if normalize:
            rec.close(1e-12 * np.abs(bo).max(), np.linalg.norm(np.atleast_1d(dg[-1] - dg[0])), np.linalg.norm(bo), 'normalised end points differ by exactly one Burgers vector', 'arctan:normalised')
    with ctx.guard('pn_arctan_disldensity evaluates', 'arctan:density:exception'):
        xg, rg = am.defect.pn_arctan_disldensity(**kw)
        re_ = O.arctan_density(xs, bo, c, w, normalize)
        rec.close(1e-12 * np.abs(re_).max(), rg, re_.reshape(np.shape(rg)), 'pn_arctan_disldensity is b/pi w/((x-c)^2+w^2) (normalised as documented)', f'arctan:density:{how}')
    rec.count('arctan')


# ----------------------------------------------------------------------------
# who owns the numbers (gamma surfaces): the caller overwrites every array it handed over and every
# array a read-only attribute handed out, builds further surfaces (from fresh objects and from the
# SAME buffers), and the first surface is re-judged for ITS data each time
# ----------------------------------------------------------------------------
def three(v):
    return np.array(O.three_index(v), float)


def gs_queries(rng, S0, pl):
    n1, n2 = S0['n1'], S0['n2']
    cushion = 0.0 if S0['layout'] == 'dup' else 0.5 / n1
    generic, hard, edge = gen.query_points(rng, 8, n1, n2, cushion)
    ab = np.vstack([generic, hard[:6], rng.uniform(-1.5, 2.5, (3, 2))])
    pos = pl.a12_to_pos(ab[:, 0], ab[:, 1])
    x, y = pl.pos_to_xy(pos)
    return dict(ab=ab, gen=generic, pos=pos, x=np.array(x), y=np.array(y))


def gs_answers(g, Q, with_delta, raw=False):
    """Everything a caller can ask of a surface at the fixed query set Q (fresh argument arrays per call)."""
    a, b = Q['ab'][:, 0], Q['ab'][:, 1]
    ga, gb = Q['gen'][:, 0], Q['gen'][:, 1]
    out = {'E_gsf:smooth': g.E_gsf(a1=a.copy(), a2=b.copy()), 'E_gsf:nearest': g.E_gsf(a1=ga.copy(), a2=gb.copy(), smooth=False)}
    if with_delta:
        out['delta:smooth'] = g.delta(a1=a.copy(), a2=b.copy())
        out['delta:nearest'] = g.delta(a1=ga.copy(), a2=gb.copy(), smooth=False)
    out['a12_to_pos'] = g.a12_to_pos(a.copy(), b.copy())
    out['pos_to_a12'] = g.pos_to_a12(Q['pos'].copy())
    out['pos_to_xy'] = g.pos_to_xy(Q['pos'].copy())
    out['xy_to_pos'] = g.xy_to_pos(Q['x'].copy(), Q['y'].copy())
    out['a12_to_xy'] = g.a12_to_xy(a.copy(), b.copy())
    out['xy_to_a12'] = g.xy_to_a12(Q['x'].copy(), Q['y'].copy())
    out['E_gsf:pos'] = g.E_gsf(pos=Q['pos'].copy())
    out['E_gsf:xy'] = g.E_gsf(x=Q['x'].copy(), y=Q['y'].copy())
    if raw:
        return out
    return {k: np.array(v, float) for k, v in out.items()}


def answer_scale(k, R, Rd, L, amax):
    if k.startswith('E_gsf'):
        return R
    if k.startswith('delta'):
        return Rd
    return L * amax if k in ('a12_to_pos', 'pos_to_xy', 'xy_to_pos', 'a12_to_xy') else amax


def judge_kept_surface(ctx, am, g, S0, pl, Q, ref, key, why, reftol=1e-11, f32=False):
    """g was built from the numbers S0 (pristine copies the code under test never saw) and answered
    ``ref`` at the fixed queries Q.  Whatever the caller did since to ITS arrays or to other objects,
    g must still hold S0, reproduce its energies at the sampled shifts, give the same answers,
    convert coordinates with S0's vectors and write S0 into its data model."""
    rec = ctx.rec
    c_ = why + ', the surface '
    # data handed over in single precision carry their own rounding (tiling a1 +- 1 and unit conversion are then done in
    # single precision by numpy's rules): the comparison with a double-precision twin and the round trip are bounded by it
    ertol = 4 * float(np.finfo(np.float32).eps) if f32 else 1e-12
    R = float(S0['table'].max() - S0['table'].min())
    Rd = float(S0['dtable'].max() - S0['dtable'].min()) if S0['with_delta'] else 1.0
    L = max(np.linalg.norm(pl.A1), np.linalg.norm(pl.A2))
    kappa = np.linalg.cond(np.array([pl.A1, pl.A2]).T)
    amax = 1 + np.abs(Q['ab']).max()
    bv = S0['boxvects'] if S0['boxvects'] is not None else np.eye(3)
    with monitors_off(), np.errstate(all='ignore'):
        with ctx.guard(c_ + 'still holds the vectors and data it was given', key):
            u1, u2 = three(S0['a1vect']), three(S0['a2vect'])
            rec.close(1e-12 * (1 + np.abs(u1).max()), g.a1vect, u1, c_ + 'still holds the shift vectors it was given', key, which='a1vect')
            rec.close(1e-12 * (1 + np.abs(u2).max()), g.a2vect, u2, c_ + 'still holds the shift vectors it was given', key, which='a2vect')
            rec.close(1e-12, g.planenormal, pl.n, c_ + 'still has the plane normal of its shift vectors', key)
            rec.close(1e-12 * np.abs(bv).max(), g.box.vects, bv, c_ + 'still holds the box it was given', key)
            rec.close(1e-13, g.data.a1.values, S0['a1'], c_ + 'still holds the fractional coordinates it was given', key, which='a1')
            rec.close(1e-13, g.data.a2.values, S0['a2'], c_ + 'still holds the fractional coordinates it was given', key, which='a2')
            rec.close(1e-12 * S0['scale'], g.data.E_gsf.values, S0['E'], c_ + 'still holds the energies it was given', key, rtol=1e-12)
            rec.check(('delta' in g.data) == S0['with_delta'], c_ + 'still has / has no plane-separation data', key)
            if S0['with_delta'] and 'delta' in g.data:
                rec.close(1e-12, g.data.delta.values, S0['delta'], c_ + 'still holds the plane separations it was given', key)
        with ctx.guard(c_ + 'still reproduces its input at the sampled shifts', key):
            for smooth in (True, False):
                got = g.E_gsf(a1=np.array(S0['a1']), a2=np.array(S0['a2']), smooth=smooth)
                rec.close(1e-8 * R, got, S0['E'], c_ + 'still reproduces its input energies at the sampled shifts', key, smooth=smooth)
                if S0['with_delta']:
                    got = g.delta(a1=np.array(S0['a1']), a2=np.array(S0['a2']), smooth=smooth)
                    rec.close(1e-8 * Rd, got, S0['delta'], c_ + 'still reproduces its input plane separations at the sampled shifts', key, smooth=smooth)
        now = None
        with ctx.guard(c_ + 'still answers every query', key):
            now = gs_answers(g, Q, S0['with_delta'])
        if now is not None:
            for k, v in ref.items():
                sc = answer_scale(k, R, Rd, L, amax)
                rec.close(reftol * sc * (kappa if 'a12' in k or k.endswith((':pos', ':xy')) else 1.0), now[k], v,
                          c_ + 'gives the same answers at fixed query points as before / as an untouched twin', key, query=k)
            a, b = Q['ab'][:, 0], Q['ab'][:, 1]
            rec.close(1e-12 * L * amax, now['a12_to_pos'], Q['pos'], c_ + 'still converts with the shift vectors it was given (a12_to_pos)', key)
            rec.close(1e-9 * kappa * amax, now['pos_to_a12'], np.array([a, b]), c_ + 'still converts with the shift vectors it was given (pos_to_a12)', key)
            rec.close(1e-11 * L * amax, now['pos_to_xy'], np.array([Q['x'], Q['y']]), c_ + 'still converts with the shift vectors it was given (pos_to_xy)', key)
            rec.close(1e-10 * R * kappa, now['E_gsf:pos'], now['E_gsf:smooth'], c_ + 'still takes the three coordinate forms interchangeably', key)
            rec.close(1e-10 * R * kappa, now['E_gsf:xy'].reshape(-1), now['E_gsf:smooth'], c_ + 'still takes the three coordinate forms interchangeably', key)
            with ctx.guard(c_ + 'is still periodic', key):
                got = g.E_gsf(a1=a + 2, a2=b - 3)
                rec.close(1e-10 * R, got, now['E_gsf:smooth'], c_ + 'is still periodic', key)
        with ctx.guard(c_ + 'still writes its own data into the data model', key):
            g2 = am.defect.GammaSurface(model=g.model())
            rec.close(1e-12 * S0['scale'], g2.data.E_gsf.values, S0['E'], c_ + 'still survives the data-model round trip with the energies it was given', key, rtol=ertol)
            rec.close(1e-13, g2.data.a1.values, S0['a1'], c_ + 'still survives the data-model round trip with the coordinates it was given', key)
            rec.close(1e-12 * L, O.crystal_to_cart(g2.a1vect, g2.box.vects), pl.A1, c_ + 'still survives the data-model round trip with the vectors it was given', key)
            rec.close(1e-12 * L, O.crystal_to_cart(g2.a2vect, g2.box.vects), pl.A2, c_ + 'still survives the data-model round trip with the vectors it was given', key)
            if S0['with_delta']:
                rec.close(1e-12, g2.data.delta.values, S0['delta'], c_ + 'still survives the data-model round trip with the plane separations it was given', key, rtol=ertol)
    rec.count('own:gs:judged')


def number_lists(node, out=None):
    """Every innermost list of numbers inside a data model (DataModelDict / dict / list nest)."""
    out = [] if out is None else out
    if isinstance(node, dict):
        for v in node.values():
            number_lists(v, out)
    elif isinstance(node, list):
        if node and all(isinstance(t, (int, float)) and not isinstance(t, bool) for t in node):
            out.append(node)
        else:
            for v in node:
                number_lists(v, out)
    return out


def plain_surface(am, S0):
    """A surface built from private copies of S0 that nobody touches afterwards (the untouched twin)."""
    box = am.Box(vects=np.array(S0['boxvects'])) if S0['boxvects'] is not None else None
    cp = lambda v: None if v is None else np.array(v, float)
    return am.defect.GammaSurface(a1vect=cp(S0['a1vect']), a2vect=cp(S0['a2vect']), a1=cp(S0['a1']), a2=cp(S0['a2']), E_gsf=cp(S0['E']), box=box, delta=cp(S0['delta']))


def promoted_surface(S, form):
    S0 = dict(S)
    for k in ('a1', 'a2', 'E', 'delta', 'a1vect', 'a2vect'):
        S0[k] = None if S[k] is None else gen.promote(S[k], form)
    return S0


def gs_hand_over(rng, S0, form, index=None):
    """(args, writers): the objects handed to the code under test and, per argument, the function that
    overwrites in place what the caller keeps of it (None: immutable)."""
    import pandas as pd
    args, writers = {}, {}
    for slot, k in enumerate(('a1', 'a2', 'E', 'delta')):
        if S0[k] is None:
            args[k] = None
            continue
        if form == 'series':
            buf, w = gen.hand_over(S0[k], 'array')
            args[k] = pd.Series(buf, index=index, copy=False)
        else:
            args[k], w = gen.hand_over(S0[k], form, slot, 4)
        writers[k] = w
    for slot, k in enumerate(('a1vect', 'a2vect')):
        args[k], writers[k] = gen.hand_over(S0[k], 'array' if form == 'series' else form, slot, 2)
    return args, writers


def gs_construct(am, path, args, box, old=None):
    GS = am.defect.GammaSurface
    if path == 'init':
        return GS(a1vect=args['a1vect'], a2vect=args['a2vect'], a1=args['a1'], a2=args['a2'], E_gsf=args['E'], box=box, delta=args['delta'])
    if path == 'empty-set':
        g = GS()
    else:                       # an object that held (and answered queries on) other data
        g = build_gamma(am, old)
        warm_surface(g, old)
    g.set(args['a1vect'], args['a2vect'], args['a1'], args['a2'], args['E'], box=box, delta=args['delta'])
    return g


def gs_alias_case(ctx, am, i):
    rec, rng = ctx.rec, ctx.rng
    form, path, kind, isurf, first = gen.gs_alias_plan(i)
    S = gen.gen_surface(rng, isurf)
    if path == 'model':
        form = 'model-lists'
    S0 = promoted_surface(S, form)
    n1, n2 = S0['n1'], S0['n2']
    sig = ('gs-ownership', form, path, kind, S['shift'], f'{n1}x{n2}', S['layout'], 'delta' if S['with_delta'] else 'nodelta')
    rec.case(sig, nontrivial=True, fp=fingerprint(S0['E'], S0['a1vect'], S0['a2vect'], form, path))
    rec.count('own:gs:form:' + form)
    rec.count('own:gs:path:' + path)
    rec.count('own:gs:scramble:' + kind)
    g = twin = None
    args, writers = {}, {}
    with ctx.guard('a gamma surface can be built from every array-like form of its data', f'own:gs:build:{form}:{path}'):
        if path == 'model':
            mdl = plain_surface(am, S0).model()
            text = mdl.json()
            g = am.defect.GammaSurface(model=mdl)
            twin = am.defect.GammaSurface(model=text)
            S0 = dict(S0, E=twin.data.E_gsf.values.copy(), delta=twin.data.delta.values.copy() if S0['with_delta'] else None)
            sfm = mdl['stacking-fault-map']
            sfr = sfm['stacking-fault-relation']
            lists = {'a1vect': sfm['shift-vector-1'], 'a2vect': sfm['shift-vector-2'], 'a1': sfr['shift-vector-1-fraction'],
                     'a2': sfr['shift-vector-2-fraction'], 'E': sfr['energy']['value']}
            if S0['with_delta']:
                lists['delta'] = sfr['plane-separation']['value']
            for k, lst in lists.items():
                rec.check(isinstance(lst, list), 'harness: the data model holds its numbers in lists', 'harness:gs:model-lists')
                writers[k] = (lambda new, lst=lst: lst.__setitem__(slice(None), [float(t) for t in np.ravel(new)]))
            current = {k: np.array(lst, float) for k, lst in lists.items()}
        else:
            index = rng.permutation(len(S0['E'])) if (form == 'series' and i % 2) else None
            args, writers = gs_hand_over(rng, S0, form, index)
            box = am.Box(vects=np.array(S0['boxvects'])) if S0['boxvects'] is not None else None
            old = gen.gen_surface(rng, isurf + 3) if path == 'set-again' else None
            g = gs_construct(am, path, args, box, old)
            twin = plain_surface(am, S0)
            current = {k: (None if S0[k] is None else np.array(S0[k], float)) for k in gen.GS_ALIAS_ARGS}
    if g is None or twin is None:
        return
    pl = plane_of(S0)
    Q = gs_queries(rng, S0, pl)
    ref = None
    with ctx.guard('the untouched twin answers every query', 'own:gs:twin:exception'):
        ref = gs_answers(twin, Q, S0['with_delta'])
    if ref is None:
        return
    # whatever form the numbers arrived in, the surface is the one an untouched twin built from plain arrays is
    f32 = form == 'float32'
    twintol = 2e-5 if f32 else 1e-10         # float32 coordinates: 2 pi n x single-precision rounding of the tiled node positions
    judge_kept_surface(ctx, am, g, S0, pl, Q, ref, f'own:gs:form-equivalence:{form}', f'built from {form} input through {path}', reftol=twintol, f32=f32)
    with ctx.guard('the surface answers every query', 'own:gs:reference:exception'):
        with monitors_off():
            ref = gs_answers(g, Q, S0['with_delta'])       # from here on: the surface's own first answers

    # -- the caller overwrites, one at a time, every array it handed over ---------------------------
    names = [k for k in gen.GS_ALIAS_ARGS if writers.get(k) is not None]
    if names:
        names = names[first % len(names):] + names[:first % len(names)]
    else:
        rec.count('own:gs:immutable-form')
    for k in names:
        writers[k](gen.scrambled(rng, kind, current[k]))
        judge_kept_surface(ctx, am, g, S0, pl, Q, ref, f'alias:gs:arg:{k}', f'after the caller overwrites in place the {k} array it handed over', f32=f32)
        writers[k](current[k])
        rec.count('own:gs:arg:' + k)
        rec.count('own:gs:arg-overwritten')

    # -- the caller overwrites the arrays the read-only attributes handed out ------------------------
    for name in gen.GS_RESULT_ATTRS:
        r = getattr(g, name)
        keep = np.array(r, float)
        try:
            r[...] = gen.scrambled(rng, kind, keep)
        except (ValueError, TypeError):
            rec.count('own:gs:result-protected:' + name)
            rec.count('own:gs:result-overwritten')
            continue
        judge_kept_surface(ctx, am, g, S0, pl, Q, ref, f'alias:gs:result:{name}', f'after the caller overwrites the array that .{name} handed out', f32=f32)
        r[...] = keep
        rec.count('own:gs:result-overwritten')

    # -- returned arrays: not overwritten by later calls, not internal buffers; argument arrays untouched ---
    with ctx.guard('queries and conversions return arrays of their own', 'alias:gs:result:methods'):
        with monitors_off():
            raw = gs_answers(g, Q, S0['with_delta'], raw=True)
            flat = {}
            for k, v in raw.items():
                for j, part in enumerate(v if isinstance(v, tuple) else (v,)):
                    flat[f'{k}[{j}]'] = part
            copies = {k: np.array(v, float) for k, v in flat.items()}
            Q2 = gs_queries(rng, S0, pl)
            gs_answers(g, Q2, S0['with_delta'])
            for k, v in flat.items():
                rec.close(0, v, copies[k], 'the result of an earlier query / conversion is not overwritten by later calls', f'alias:gs:result:{k.split(":")[0].split("[")[0]}', query=k)
            for k, v in flat.items():
                if isinstance(v, np.ndarray) and v.flags.writeable and v.ndim:
                    v[...] = 1e3
            again = gs_answers(g, Q, S0['with_delta'])
            R = float(S0['table'].max() - S0['table'].min())
            for k, v in again.items():
                rec.close(1e-10 * (1 + np.abs(ref[k]).max()), v, ref[k], 'overwriting a returned array does not change later answers', f'alias:gs:result:{k.split(":")[0]}', query=k)
            rec.count('own:gs:returned-arrays')
    with ctx.guard('queries and conversions leave their argument arrays untouched', 'args:gs:query-arrays-modified'):
        with monitors_off():
            a, b = Q['ab'][:, 0].copy(), Q['ab'][:, 1].copy()
            pos, x, y = Q['pos'].copy(), Q['x'].copy(), Q['y'].copy()
            calls = [('E_gsf', lambda: g.E_gsf(a1=a, a2=b)), ('E_gsf', lambda: g.E_gsf(a1=a, a2=b, smooth=False)), ('E_gsf', lambda: g.E_gsf(pos=pos)),
                     ('E_gsf', lambda: g.E_gsf(pos=pos, smooth=False)), ('E_gsf', lambda: g.E_gsf(x=x, y=y)), ('conv', lambda: g.a12_to_pos(a, b)), ('conv', lambda: g.pos_to_a12(pos)),
                     ('conv', lambda: g.pos_to_xy(pos)), ('conv', lambda: g.xy_to_pos(x, y)), ('conv', lambda: g.a12_to_xy(a, b)), ('conv', lambda: g.xy_to_a12(x, y))]
            if S0['with_delta']:
                calls += [('delta', lambda: g.delta(a1=a, a2=b)), ('delta', lambda: g.delta(a1=a, a2=b, smooth=False)), ('delta', lambda: g.delta(pos=pos)), ('delta', lambda: g.delta(x=x, y=y))]
            for what, f in calls:
                f()
                same = (np.array_equal(a, Q['ab'][:, 0]) and np.array_equal(b, Q['ab'][:, 1]) and np.array_equal(pos, Q['pos'])
                        and np.array_equal(x, Q['x']) and np.array_equal(y, Q['y']))
                rec.check(same, f'{what} leaves the coordinate arrays it is given untouched', f'args:gs:query-arrays-modified:{what}')
                if not same:
                    a, b, pos, x, y = Q['ab'][:, 0].copy(), Q['ab'][:, 1].copy(), Q['pos'].copy(), Q['x'].copy(), Q['y'].copy()
            rec.count('own:gs:query-arrays', len(calls))

    # -- a second surface from fresh objects, then a third from the SAME buffers ----------------------
    Sb = gen.gen_surface(rng, isurf + 11, override=dict(grid=(n1, n2), layout=S['layout'], order=S['order'], with_delta=S['with_delta']))
    bform = 'array' if form == 'model-lists' else form
    S0b = promoted_surface(Sb, bform)
    plb = plane_of(S0b)
    Qb = gs_queries(rng, S0b, plb)
    gB = refB = None
    with ctx.guard('a second gamma surface can be built next to the first', 'own:gs:second:build'):
        argsB, _w = gs_hand_over(rng, S0b, 'array' if bform == 'series' else bform)
        boxB = am.Box(vects=np.array(S0b['boxvects'])) if S0b['boxvects'] is not None else None
        gB = gs_construct(am, path if path in ('init', 'empty-set') else 'init', argsB, boxB)
        refB = gs_answers(plain_surface(am, S0b), Qb, S0b['with_delta'])
    if gB is not None and refB is not None:
        with ctx.guard('the second surface answers queries', 'own:gs:second:warm'):
            with monitors_off():
                gs_answers(gB, Qb, S0b['with_delta'])
        judge_kept_surface(ctx, am, g, S0, pl, Q, ref, 'leak:gs:second-instance', 'after a second surface was built and queried in the same process (first surface re-judged)', f32=f32)
        judge_kept_surface(ctx, am, gB, S0b, plb, Qb, refB, 'leak:gs:second-instance', 'built after another surface was built and queried (second surface judged)', reftol=twintol, f32=f32)
        rec.count('own:gs:second-instance')
    data_keys = [k for k in ('a1', 'a2', 'E', 'delta') if S0[k] is not None]
    if path != 'model' and all(writers.get(k) is not None for k in data_keys):
        gC = None
        with ctx.guard('the buffers of the first surface can be reused for another one', 'own:gs:reuse:build'):
            for k in data_keys:
                writers[k](S0b[k])
            argsC = dict(args)
            va, _ = gen.hand_over(S0b['a1vect'], 'array')
            vb, _ = gen.hand_over(S0b['a2vect'], 'array')
            argsC.update(a1vect=va, a2vect=vb)
            gC = gs_construct(am, path if path in ('init', 'empty-set') else 'init', argsC, am.Box(vects=np.array(S0b['boxvects'])) if S0b['boxvects'] is not None else None)
        if gC is not None:
            why = 'after the caller reused its data buffers to build another surface'
            judge_kept_surface(ctx, am, g, S0, pl, Q, ref, 'alias:gs:reuse-data-buffers', why + ' (first surface re-judged)', f32=f32)
            judge_kept_surface(ctx, am, gC, S0b, plb, Qb, refB, 'alias:gs:reuse-data-buffers', why + ' (the new surface judged)', reftol=twintol, f32=f32)
            for k in data_keys:
                writers[k](np.zeros_like(np.array(S0[k], float)))
            judge_kept_surface(ctx, am, g, S0, pl, Q, ref, 'alias:gs:reuse-data-buffers', why + ' and then cleared them (first surface re-judged)', f32=f32)
            judge_kept_surface(ctx, am, gC, S0b, plb, Qb, refB, 'alias:gs:reuse-data-buffers', why + ' and then cleared them (the new surface judged)', reftol=twintol, f32=f32)
            rec.count('own:gs:buffers-reused')

    # -- integer / float32 / tuple coordinates -------------------------------------------------------
    query_forms(ctx, g, twin, S0, Q, i)


def query_forms(ctx, g, twin, S0, Q, i):
    """Fractional coordinates given as Python ints, int lists / arrays (lattice points: the sampled
    (0,0) energy displaced by whole periods), float32 arrays and tuples."""
    rec, rng = ctx.rec, ctx.rng
    R = float(S0['table'].max() - S0['table'].min())
    funcs = [('E_gsf', g.E_gsf, g.E_gsf, R, S0['E'])]
    if S0['with_delta']:
        funcs.append(('delta', g.delta, g.delta, float(S0['dtable'].max() - S0['dtable'].min()), S0['delta']))
    at0 = int(np.flatnonzero((S0['a1'] == 0.0) & (S0['a2'] == 0.0))[0])
    P = rng.integers(-3, 4, (5, 2))
    P[0] = (1, 0)
    P[1] = (0, -1)
    P[2] = (2, 3)
    gpts = Q['gen']
    g32 = gpts.astype(np.float32)
    eps32 = float(np.finfo(np.float32).eps)
    with monitors_off():
        for name, f, ft, rng_, vals in funcs:
            e00 = vals[at0]
            c_ = f'{name} accepts fractional coordinates given as '
            for smooth in (True, False):
                kw = {} if smooth else {'smooth': False}
                rec.count('own:gs:queryform:int-attempted', 3)
                with ctx.guard(c_ + 'Python integers (lattice points)', 'forms:gs:query:int-coordinates'):
                    for p, q in P[:3]:
                        v = f(a1=int(p), a2=int(q), **kw)
                        rec.close(1e-8 * rng_, np.reshape(v, ()), e00, c_ + 'Python integers: the sampled (0,0) value at every lattice point', 'forms:gs:query:int-coordinates', p=int(p), q=int(q), smooth=smooth)
                    rec.count('own:gs:queryform:int-scalar')
                with ctx.guard(c_ + 'lists of integers (lattice points)', 'forms:gs:query:int-coordinates'):
                    v = f(a1=[int(t) for t in P[:, 0]], a2=[int(t) for t in P[:, 1]], **kw)
                    rec.close(1e-8 * rng_, v, np.full(len(P), e00), c_ + 'integer lists: the sampled (0,0) value at every lattice point', 'forms:gs:query:int-coordinates', smooth=smooth)
                    rec.count('own:gs:queryform:int-list')
                with ctx.guard(c_ + 'integer arrays (lattice points)', 'forms:gs:query:int-coordinates'):
                    pa, pb = P[:, 0].copy(), P[:, 1].copy()
                    v = f(a1=pa, a2=pb, **kw)
                    rec.close(1e-8 * rng_, v, np.full(len(P), e00), c_ + 'integer arrays: the sampled (0,0) value at every lattice point', 'forms:gs:query:int-coordinates', smooth=smooth)
                    rec.check(np.array_equal(pa, P[:, 0]) and np.array_equal(pb, P[:, 1]), c_ + 'integer arrays without modifying them', 'args:gs:query-arrays-modified:' + name)
                    rec.count('own:gs:queryform:int-array')
                with ctx.guard(c_ + 'the integer 0', 'forms:gs:query:int-in-cell'):
                    v = f(a1=0, a2=0, **kw)
                    rec.close(1e-8 * rng_, np.reshape(v, ()), e00, c_ + 'the integer 0: the sampled (0,0) value', 'forms:gs:query:int-in-cell', smooth=smooth)
                    rec.count('own:gs:queryform:int-in-cell')
                with ctx.guard(c_ + 'tuples', 'forms:gs:query:tuple'):
                    v = f(a1=tuple(float(t) for t in gpts[:, 0]), a2=tuple(float(t) for t in gpts[:, 1]), **kw)
                    rec.close(1e-10 * rng_, v, ft(a1=gpts[:, 0].copy(), a2=gpts[:, 1].copy(), **kw), c_ + 'tuples: the values of the same numbers given as arrays', 'forms:gs:query:tuple', smooth=smooth)
                    rec.count('own:gs:queryform:tuple')
            with ctx.guard(c_ + 'float32 arrays', 'forms:gs:query:float32'):
                v = f(a1=g32[:, 0].copy(), a2=g32[:, 1].copy())
                exp = ft(a1=g32[:, 0].astype(float), a2=g32[:, 1].astype(float))
                # the coordinates themselves carry float32 rounding: bound = slope bound of periodic data on the grid x that rounding
                tol = 4 * eps32 * (2 + np.abs(g32).max()) * rng_ * 2 * np.pi * max(S0['n1'], S0['n2'])
                rec.close(tol, v, exp, c_ + 'float32 arrays: the values of the same numbers in double precision, within float32 rounding of the coordinates', 'forms:gs:query:float32')
                rec.count('own:gs:queryform:float32')
        with ctx.guard('a12_to_pos / a12_to_xy accept integer coordinates', 'forms:gs:conv:int'):
            pl = plane_of(S0)
            L = max(np.linalg.norm(pl.A1), np.linalg.norm(pl.A2))
            exp = pl.a12_to_pos(P[:, 0].astype(float), P[:, 1].astype(float))
            rec.close(1e-12 * L * 5, g.a12_to_pos([int(t) for t in P[:, 0]], [int(t) for t in P[:, 1]]), exp, 'a12_to_pos of integer coordinates', 'forms:gs:conv:int')
            rec.close(1e-12 * L * 5, np.reshape(g.a12_to_pos(int(P[2, 0]), int(P[2, 1])), -1), exp[2], 'a12_to_pos of integer coordinates', 'forms:gs:conv:int')
            xe, ye = pl.pos_to_xy(exp)
            xx, yy = g.a12_to_xy(P[:, 0].copy(), P[:, 1].copy())
            rec.close(1e-11 * L * 5, np.array([xx, yy]), np.array([xe, ye]), 'a12_to_xy of integer coordinates', 'forms:gs:conv:int')
            rec.count('own:gs:queryform:int-conv')


# ----------------------------------------------------------------------------
# who owns the numbers (Peierls-Nabarro objects)
# ----------------------------------------------------------------------------
PN_NAMES = {'misfit': 'misfit_energy', 'elastic': 'elastic_energy', 'stress': 'stress_energy', 'surface': 'surface_energy', 'nonlocal': 'nonlocal_energy'}


def pn_answers(pn):
    """The six terms and the total from the stored x / disregistry (no arguments passed)."""
    out = {name: float(getattr(pn, meth)()) for name, meth in PN_NAMES.items()}
    out['longrange'] = float(pn.longrange_energy())
    out['total'] = float(pn.total_energy())
    return out


def judge_kept_pn(ctx, pn, st, exp, ref, key, why):
    """pn was given the settings / grid / profile in st (pristine copies).  Whatever the caller did since
    to ITS arrays or to other objects, pn must still hold them and its stored-state energies must still
    be the oracle's for those settings (and the numbers it gave before)."""
    rec = ctx.rec
    c_ = why + ', the SDVPN object '
    x, d = st['x'], st['d']
    N, dx = len(x), abs(x[1] - x[0])
    rel = lambda v: 1e-12 * (np.abs(np.asarray(v, float)).max() + 1e-300)
    with monitors_off(), np.errstate(all='ignore'), warnings.catch_warnings():
        warnings.simplefilter('ignore')
        with ctx.guard(c_ + 'still holds the settings, grid and profile it was given', key):
            rec.close(rel(st['tau']), pn.tau, st['tau'], c_ + 'still holds the stress it was given', key, which='tau')
            rec.close(rel(st['beta']), pn.beta, st['beta'], c_ + 'still holds the beta coefficients it was given', key, which='beta')
            rec.close(rel(st['alpha']), np.array(pn.alpha, float), np.array(st['alpha'], float), c_ + 'still holds the alpha coefficients it was given', key, which='alpha')
            rec.close(rel(x), pn.x, x, c_ + 'still holds the x grid it was given', key, which='x')
            rec.close(rel(d), pn.disregistry, d, c_ + 'still holds the disregistry it was given / solved', key, which='disregistry')
            rec.close(1e-9 * np.abs(st['K']).max(), pn.K_tensor, st['K'], c_ + 'still holds the K tensor of its Volterra solution', key, which='K_tensor')
            rec.close(1e-9 * np.abs(st['b']).max(), pn.burgers, st['b'], c_ + 'still holds the Burgers vector of its Volterra solution', key, which='burgers')
            rec.close(1e-9, pn.transform, st['T'], c_ + 'still holds the frame of its Volterra solution', key, which='transform')
        with ctx.guard(c_ + 'still evaluates its energies', key):
            now = pn_answers(pn)
            tot, mag_t = 0.0, 0.0
            for name in TERMS:
                e, mag = exp[name]
                tol = 1e-9 * mag + 1e-300
                if name == 'misfit':
                    tol = 1e-9 * st['Rg'] * N * dx
                    mag = st['Rg'] * N * dx
                tot += e
                mag_t += mag
                rec.close(tol, now[name], e, c_ + f'still gives the {name} energy of the documented formula for the settings it was given', key, term=name)
                if ref is not None:
                    rec.close(1e-11 * mag + 1e-300, now[name], ref[name], c_ + f'still gives the {name} energy it gave before', key, term=name)
            rec.close(1e-8 * mag_t, now['total'], tot, c_ + 'still gives the total energy of the documented terms for the settings it was given', key)
            if ref is not None:
                rec.close(1e-11 * mag_t, now['total'], ref['total'], c_ + 'still gives the total energy it gave before', key)
    rec.count('own:pn:judged')
    return None


def pn_alias_case(ctx, am, i):
    rec, rng = ctx.rec, ctx.rng
    form, path, kind, first = gen.pn_alias_plan(i)
    cls = gen.pn_classes(5 * i + 2)
    cls.update(N=7 if path == 'solve-kw' else [9, 12, 16, 21][(i // 4) % 4], tau=['sym', 'asym'][i % 2], beta=['diag', 'sym', 'asym'][i % 3],
               alpha=['two', 'three', 'one'][(i // 2) % 3], profile=['arctan', 'smooth', 'rough', 'offset'][(i // 3) % 4], cutoff='custom' if i % 2 else 'default',
               flags=dict(fullstress=bool(i & 1), cdiffstress=False, cdiffelastic=bool(i & 2), cdiffsurface=bool(i & 4)))
    P = gen.gen_pn(rng, i, cls)
    if path == 'solve-kw':      # keep the minimisation bounded below
        P['alpha_value'] = [abs(t) for t in P['alpha_value']]
        P['beta_value'] = np.abs(P['beta_value'])
    fkey = ''.join(str(int(P['flags'][k])) for k in ('fullstress', 'cdiffstress', 'cdiffelastic', 'cdiffsurface'))
    sig = ('pn-ownership', form, path, kind, P['cell'], P['K'], P['profile'], P['N'], fkey)
    SD = am.defect.SDVPN
    n1, n2 = gen.GRIDS[i % len(gen.GRIDS)]
    table = gen.energy_table(rng, n1, n2, 'smooth', 10 ** rng.uniform(-2.5, -1))
    vol = info = None
    with ctx.guard('an SDVPN object can be built for a slip system lying in the gamma-surface plane', f'own:pn:build:{P["cell"]}'):
        _g, vol, info = build_parts(ctx, am, P, i, table=table, grid=(n1, n2))
    if vol is None:
        rec.case(sig, nontrivial=False)
        return
    # the gamma surface is built from arrays the caller keeps
    kk, ll = np.meshgrid(np.arange(n1), np.arange(n2), indexing='ij')
    gbuf = dict(a1=(kk / n1).ravel().copy(), a2=(ll / n2).ravel().copy(), E=table.ravel().copy())
    gkeep = {k: v.copy() for k, v in gbuf.items()}
    box = am.Box(vects=P['boxvects']) if P['boxvects'] is not None else None
    gs = am.defect.GammaSurface(a1vect=P['a1vect'], a2vect=P['a2vect'], a1=gbuf['a1'], a2=gbuf['a2'], E_gsf=gbuf['E'], box=box)
    bn = float(np.linalg.norm(info['b']))
    x0 = gen.gen_grid(rng, P['N'], bn, P['x0'])
    d0, _gam = make_profile(rng, P, None, info, x0)
    sform = 'float32' if form == 'float32' else 'array'
    tau0, beta0 = gen.promote(P['tau_value'], sform), gen.promote(P['beta_value'], sform)
    alpha0 = [float(t) for t in P['alpha_value']]
    cut = 1000.0 if P['cutoff_value'] is None else P['cutoff_value']
    rec.case(sig, nontrivial=True, fp=fingerprint(x0, d0, P['C'], tau0, beta0, form, path))
    rec.count('own:pn:form:' + form)
    rec.count('own:pn:path:' + path)
    rec.count('own:pn:scramble:' + kind)
    xform = 'array' if form == 'float32' else form            # a float32 grid / profile carries its own rounding: not judged
    bufs, writers = {}, {}
    bufs['tau'], writers['tau'] = gen.hand_over(tau0, form, 0, 2)
    bufs['beta'], writers['beta'] = gen.hand_over(beta0, form, 1, 2)
    bufs['x'], writers['x'] = gen.hand_over(x0, xform, 0, 2)
    bufs['disregistry'], writers['disregistry'] = gen.hand_over(d0, xform, 1, 2)
    if form == 'float32':
        bufs['alpha'], writers['alpha'] = tuple(alpha0), None
    else:
        bufs['alpha'] = list(alpha0)
        writers['alpha'] = lambda new: bufs['alpha'].__setitem__(slice(None), [float(t) for t in new])
    current = dict(tau=tau0, beta=beta0, alpha=np.array(alpha0), x=x0, disregistry=d0)
    flags = dict(P['flags'])
    settings = dict(tau=bufs['tau'], alpha=bufs['alpha'], beta=bufs['beta'], cutofflongrange=cut, **flags)
    pn = None
    with ctx.guard(f'an SDVPN object takes its settings through {path}', f'own:pn:hand-over:{path}:{form}'):
        if path == 'init':
            pn = SD(volterra=vol, gamma=gs, **settings)
            pn.x = bufs['x']
            pn.disregistry = bufs['disregistry']
        elif path == 'setter':
            pn = SD(volterra=vol, gamma=gs)
            for k_, v_ in settings.items():
                setattr(pn, k_, v_)
            pn.x = bufs['x']
            pn.disregistry = bufs['disregistry']
        elif path == 'solve-kw':
            pn = SD(volterra=vol, gamma=gs)
            try:
                with cpu_limit(SOLVE_STEP_CPU):
                    pn.solve(x=bufs['x'], disregistry=bufs['disregistry'], min_method='Powell', min_options=dict(maxiter=1), **settings)
            except CpuLimit:
                rec.count('watchdog:own:pn:solve-kw:cpu-limit')
                return
            rec.close(0, np.array(bufs['x'], float), x0, 'solve(x=, disregistry=) leaves the arrays it is given untouched', 'args:pn:solve-modifies-callers-arrays', which='x')
            rec.close(0, np.array(bufs['disregistry'], float), d0, 'solve(x=, disregistry=) leaves the arrays it is given untouched', 'args:pn:solve-modifies-callers-arrays', which='disregistry')
            rec.close(0, np.array(bufs['tau'], float), tau0, 'solve(tau=, beta=) leaves the arrays it is given untouched', 'args:pn:solve-modifies-callers-arrays', which='tau')
            rec.count('own:pn:solved')
        else:                   # through a data model written by a donor object
            donor = SD(volterra=vol, gamma=gs, **settings)
            donor.x = bufs['x']
            donor.disregistry = bufs['disregistry']
            mdl = donor.model()
            pn = SD(model=mdl, gamma=gs)
            lists = number_lists(mdl)
            rec.check(len(lists) >= 5, 'harness: the data model holds its numbers in lists', 'harness:pn:model-lists', n=len(lists))
            keep = [list(l) for l in lists]

            def write_model(new):
                for l, k0 in zip(lists, keep):
                    l[:] = k0 if new is None else [t * 3.0 + 1.0 for t in k0]
            writers = {'model-lists': write_model}
            current = {'model-lists': None}
    if pn is None:
        return
    pn._vf_T = info['T']
    d_now = np.array(pn.disregistry, float) if path == 'solve-kw' else d0
    st = dict(x=x0, d=d_now, gam=None, tau=tau0, alpha=alpha_tuple(alpha0), alpha_in=alpha0, beta=beta0, cutoff=cut, flags=flags, K=info['K'], b=info['b'],
              T=info['T'], plane=info['plane'], vol=vol, Rg=float(table.max() - table.min()), gs_fresh=build_gamma_for(am, P, n1, n2, table))
    exp = oracle_terms_state(st, state_gammas(st))
    judge_kept_pn(ctx, pn, st, exp, None, f'own:pn:built:{path}', f'given its settings, grid and profile as {form} through {path}')
    ref = None
    with ctx.guard('the stored-state energies evaluate', 'own:pn:reference:exception'):
        with monitors_off():
            ref = pn_answers(pn)
    if ref is None:
        return

    # -- the caller overwrites, one at a time, every array it handed over -------------------------------
    names = [k for k in (gen.PN_ALIAS_ARGS if path != 'model' else ['model-lists']) if writers.get(k) is not None]
    names = names[first % len(names):] + names[:first % len(names)] if names else []
    for k in names:
        if k == 'model-lists':
            writers[k](True)
        else:
            writers[k](gen.scrambled(rng, kind, current[k]))
        judge_kept_pn(ctx, pn, st, exp, ref, f'alias:pn:arg:{k}', f'after the caller overwrites in place the {k} it handed over')
        writers[k](current[k])
        rec.count('own:pn:arg:' + k)
        rec.count('own:pn:arg-overwritten')
    # the arrays the gamma surface was built from
    for k, v in gbuf.items():
        v[...] = gen.scrambled(rng, kind, gkeep[k])
    judge_kept_pn(ctx, pn, st, exp, ref, 'alias:pn:arg:gamma-data', 'after the caller overwrites in place the arrays its gamma surface was built from')
    for k, v in gbuf.items():
        v[...] = gkeep[k]
    rec.count('own:pn:arg:gamma-data')

    # -- the caller overwrites the arrays the read-only attributes handed out -----------------------------
    for name in gen.PN_RESULT_ATTRS:
        r = getattr(pn, name)
        keep = np.array(r, float)
        try:
            r[...] = gen.scrambled(rng, kind, keep)
        except (ValueError, TypeError):
            rec.count('own:pn:result-protected:' + name)
            rec.count('own:pn:result-overwritten')
            continue
        judge_kept_pn(ctx, pn, st, exp, ref, f'alias:pn:result:{name}', f'after the caller overwrites the array that .{name} handed out')
        r[...] = keep
        rec.count('own:pn:result-overwritten')
    with ctx.guard('disldensity returns arrays of its own', 'alias:pn:result:disldensity'):
        for cd in (False, True):
            xs, rho = pn.disldensity(x0.copy(), d_now.copy(), cdiff=cd)
            keep = np.array(rho)
            pn.disldensity(x0 * 2.0, d_now * 3.0 + 1.0, cdiff=cd)
            rec.close(0, rho, keep, 'the density returned by an earlier call is not overwritten by later calls', 'alias:pn:result:disldensity')
            rho[...] = 0.0
            xs2, rho2 = pn.disldensity(x0.copy(), d_now.copy(), cdiff=cd)
            rec.close(0, rho2, keep, 'overwriting a returned density does not change later answers', 'alias:pn:result:disldensity')
        xs, rho = pn.disldensity()
        rec.count('observed:pn:disldensity()-hands-out-stored-x', int(np.shares_memory(xs, pn.x)))
        rec.count('own:pn:returned-arrays')

    # -- a second object with other settings on the same Volterra solution and gamma surface; then a default one ---
    N2 = [8, 11, 14][i % 3]
    xB = gen.gen_grid(rng, N2, bn, 'centred')
    dB, _ = make_profile(rng, dict(P, profile=['rough', 'arctan', 'smooth'][i % 3]), None, info, xB)
    flB = {k_: not v_ for k_, v_ in flags.items()}
    flB['cdiffstress'] = False
    alB = new_settings(rng, 'alpha', k=1 + (i % 3))
    stB = dict(st, x=xB, d=dB, gam=None, tau=new_settings(rng, 'tau'), alpha_in=alB, alpha=alpha_tuple(alB), beta=new_settings(rng, 'beta'),
               cutoff=new_settings(rng, 'cutoff'), flags=flB)
    with ctx.guard('a second SDVPN object can be built next to the first', 'own:pn:second:build'):
        B = SD(volterra=vol, gamma=gs, **state_kwargs(stB))
        B._vf_T = info['T']
        judge_pn(ctx, am, B, stB, 'second-instance', ['args', 'stored'][i % 2])
        judge_kept_pn(ctx, pn, st, exp, ref, 'leak:pn:second-instance', 'after a second object with other settings was built and evaluated in the same process (first object re-judged)')
        stC = dict(st, x=xB, d=dB, gam=None, tau=np.zeros((3, 3)), alpha_in=0.0, alpha=(0.0,), beta=np.zeros((3, 3)), cutoff=1000.0,
                   flags=dict(fullstress=True, cdiffelastic=False, cdiffsurface=True, cdiffstress=False))
        Cn = SD(volterra=vol, gamma=gs)
        Cn._vf_T = info['T']
        judge_pn(ctx, am, Cn, stC, 'default-after-custom', 'args')
        rec.close(0, Cn.tau, np.zeros((3, 3)), 'a default-constructed SDVPN object has the documented all-zero stress', 'leak:pn:default-after-custom')
        rec.close(0, Cn.beta, np.zeros((3, 3)), 'a default-constructed SDVPN object has the documented all-zero beta', 'leak:pn:default-after-custom')
        rec.count('own:pn:second-instance')

    # -- editing one default-constructed object's stress / beta in place must not reach the others ---------
    Pd = SD(volterra=vol, gamma=gs)
    t_, b_ = Pd.tau, Pd.beta
    try:
        try:
            t_[...] = new_settings(rng, 'tau')
            b_[...] = new_settings(rng, 'beta')
        except (ValueError, TypeError):
            rec.count('own:pn:result-protected:tau')
        Qd = SD(volterra=vol, gamma=gs)
        rec.close(0, Qd.tau, np.zeros((3, 3)), 'a default-constructed SDVPN object has the documented all-zero stress whatever was done to the stress array of another object',
                  'leak:pn:default-tau')
        rec.close(0, Qd.beta, np.zeros((3, 3)), 'a default-constructed SDVPN object has the documented all-zero beta whatever was done to the beta array of another object',
                  'leak:pn:default-beta')
        rec.close(0, Cn.tau, np.zeros((3, 3)), 'an earlier default-constructed SDVPN object keeps its all-zero stress whatever is done to the stress array of another object',
                  'leak:pn:default-tau')
        rec.count('own:pn:default-edited')
    finally:
        with contextlib.suppress(Exception):
            t_[...] = 0.0
            b_[...] = 0.0


def run(ctx):
    import atomman as am
    rec = ctx.rec
    cover.start([GS_FILE, PN_FILE])
    install_monitors(rec, am)
    bad = O.selfcheck()
    rec.check(not bad, 'oracle reproduces its closed-form hand checks', 'oracle:selfcheck', failed=bad)

    import time
    groups = [('surfaces', ctx.pick(176, 1386), surface_case), ('gshist', ctx.pick(28, 224), gs_history_case), ('pn', ctx.pick(48, 640), pn_case),
              ('pnhist', ctx.pick(48, 384), pn_history_case), ('solve', ctx.pick(8, 32), solve_case),
              ('halfwidth', ctx.pick(8, 16), halfwidth_case), ('arctan', ctx.pick(48, 480), arctan_case),
              ('gsown', ctx.pick(56, 336), gs_alias_case), ('pnown', ctx.pick(40, 240), pn_alias_case)]
    for name, n, fn in groups:
        t0 = time.process_time()
        for i in ctx.cases(name, n):
            try:
                with cpu_limit(240):
                    fn(ctx, am, i)
            except CpuLimit:
                rec.count(f'watchdog:{name}:cpu-limit')          # watchdog, not a verdict: the case is abandoned and counted
        rec.count('cpu_ms:' + name, int(1000 * (time.process_time() - t0)))

    for k, v in monitor.calls.items():
        if isinstance(v, int):
            rec.count('monitor_calls:' + k, v)
    rec.count('reach:GammaSurface.fit', cover.hits(GS_FILE, 243, 270))
    rec.count('reach:GammaSurface.E_gsf', cover.hits(GS_FILE, 646, 725))
    rec.count('reach:GammaSurface.delta', cover.hits(GS_FILE, 764, 817))
    rec.count('reach:GammaSurface.conversions', cover.hits(GS_FILE, 367, 608))
    rec.count('reach:SDVPN.terms', cover.hits(PN_FILE, 500, 837))
    rec.count('reach:SDVPN.solve', cover.hits(PN_FILE, 403, 464))
    # reach counters are summed over the (>= 8) worker shards: the floors ask for ~85 % of the lines 8 shards execute
    declare_floors(rec, ctx)


def declare_floors(rec, ctx):
    f = rec.floor
    for s in gen.SHIFTS:
        f('class:shift:' + s, 8)
    f('class:layout:dup', 20)
    f('class:layout:open', 20)
    f('class:delta:True', 20)
    f('class:kind:rough', 20)
    f('nodes:E_gsf', 2000)
    f('nodes:delta', 500)
    f('nodes:on-duplicated-edge', 200)
    f('periodic:evaluations', 5000)
    f('periodic:boundary', 100)
    f('periodic:integer-edge', 100)
    for N in gen.NPOS:
        f(f'conv:sets:N={N}', 100)
    f('conv:input:list', 100)
    f('conv:input:array', 100)
    f('conv:single', 100)
    f('interchange:evaluations', 2000)
    f('altvect', 150)
    for k in gen.ALT_KINDS:
        f('altvect:kind:' + k, 16)
    f('altvect:box:cubic', 20)
    f('altvect:box:noncubic', 80)
    f('altvect:box:nobox', 20)
    f('altvect:given:a1vect', 16)
    f('altvect:given:a2vect', 16)
    f('altvect:given:a1vect+a2vect', 80)
    for xm in gen.XMODES:
        f('altvect:xmode:' + xm, 400)
    f('altvect:a1vect-raw-direction-differs', 30)
    f('altvect:inverse-pairs', 4000)
    f('altvect:queries', 15000)
    for m in gen.GS_HIST_MODES:
        f('hist:gs:mode:' + m, 3)
    f('hist:gs:delta:True>False', 3)
    f('hist:gs:delta:True>True', 3)
    f('hist:gs:delta-refused', 8)
    f('hist:gs:same-length-other-data', 4)
    f('hist:gs:same-shape:True>False', 1)
    f('hist:gs:same-shape:True>True', 1)
    f('hist:gs:judged', 24)
    f('hist:gs:fresh-compared', 1000)
    for st_ in gen.HIST_STEPS:
        f('hist:pn:step:' + st_, 14)
        f('hist:pn:first-step:' + st_, 2)
    f('hist:pn:how:args', 100)
    f('hist:pn:how:stored', 80)
    f('hist:pn:judged', 220)
    f('hist:pn:fresh-compared', 220)
    f('hist:pn:respaced:same-length', 14)
    f('hist:pn:respaced:same-disregistry', 5)
    f('hist:pn:K-changed', 12)
    f('hist:pn:gamma-set:other-grid', 5)
    f('hist:pn:gamma-set:same-grid', 5)
    for name in ('fullstress', 'cdiffstress', 'cdiffelastic', 'cdiffsurface'):
        f('hist:pn:flag-flipped:' + name, 5)
    for n_ in (1, 2, 3):
        f(f'hist:pn:alpha-terms:{n_}', 3)
    f('hist:pn:solve-lowered', 10)
    f('monitor:pos_to_a12:N=3', 100)
    f('monitor:pos_to_a12:N!=3', 100)
    f('monitor:pos_to_a12:single', 100)
    for enc in ('DM', 'JSON'):
        f('model:' + enc, 100)
    f('model:attempt:XML', 100)
    for c in gen.PN_CELLS:
        f('class:pn:cell:' + c, 4)
    f('class:pn:K:Stroh', 8)
    f('class:pn:K:IsotropicVolterraDislocation', 8)
    for p in gen.PN_PROFILES:
        f('class:pn:profile:' + p, 4)
    for b in gen.PN_BETA:
        f('class:pn:beta:' + b, 4)
    for a in gen.PN_ALPHA:
        f('class:pn:alpha:' + a, 4)
    for k in range(16):
        f('class:pn:flags:' + format(k, '04b'), 2)
    for t in ('misfit', 'elastic', 'longrange', 'surface', 'nonlocal', 'stress'):
        f('term:' + t, 10)
    f('total:sum', 20)
    f('monitor:total_energy', 30)
    f('elastic:invariances', 30)
    f('stress:consistency', 8)
    f('solve:Powell', 4)
    f('solve:lowered', 4)
    f('halfwidth:scans', 6)
    f('halfwidth:grid-finer-than-b/10', 6)
    f('arctan', 40)
    # -- who owns the numbers ---------------------------------------------------------------------------
    for fm in gen.GS_ALIAS_FORMS:
        f('own:gs:form:' + fm, 4)
    f('own:gs:form:model-lists', 10)
    for pt in gen.GS_ALIAS_PATHS:
        f('own:gs:path:' + pt, 10)
    for sc in gen.SCRAMBLES:
        f('own:gs:scramble:' + sc, 12)
        f('own:pn:scramble:' + sc, 8)
    for k in gen.GS_ALIAS_ARGS:
        f('own:gs:arg:' + k, 12 if k == 'delta' else 36)
    f('own:gs:immutable-form', 4)
    f('own:gs:result-overwritten', 150)
    f('own:gs:returned-arrays', 50)
    f('own:gs:query-arrays', 550)
    f('own:gs:second-instance', 50)
    f('own:gs:buffers-reused', 30)
    f('own:gs:judged', 600)
    f('own:gs:queryform:int-attempted', 300)          # int scalars / lists / arrays are counted when attempted: the calls may raise
    for q in ('int-in-cell', 'tuple'):
        f('own:gs:queryform:' + q, 120)
    f('own:gs:queryform:float32', 60)
    f('own:gs:queryform:int-conv', 50)
    for fm in gen.PN_ALIAS_FORMS:
        f('own:pn:form:' + fm, 6)
    for pt in gen.PN_ALIAS_PATHS:
        f('own:pn:path:' + pt, 8)
    for k in ('tau', 'beta', 'x', 'disregistry'):
        f('own:pn:arg:' + k, 22)
    f('own:pn:arg:alpha', 16)
    f('own:pn:arg:model-lists', 7)
    f('own:pn:arg:gamma-data', 28)
    f('own:pn:result-overwritten', 84)
    f('own:pn:returned-arrays', 28)
    f('own:pn:second-instance', 28)
    f('own:pn:default-edited', 28)
    f('own:pn:solved', 6)
    f('own:pn:judged', 280)
    f('reach:GammaSurface.fit', 130)
    f('reach:GammaSurface.E_gsf', 380)
    f('reach:GammaSurface.delta', 230)
    f('reach:GammaSurface.conversions', 320)
    f('reach:SDVPN.terms', 580)
    f('reach:SDVPN.solve', 260)
