"""C19 - A LAMMPS log is read back run by run, column by column, value by value.

Synthesised logs (vf/gen/c19_logs.py: text + the list-of-tables model it was printed from) are given to
the real ``atomman.lammps.Log`` as text, path or binary stream, alone or as histories of 1-4 ``read``
calls; what the reader reports is compared with the model (vf/oracle/c19_logmodel.py).  The same synthesised
output is also printed by a stand-in LAMMPS executable (vf/gen/c19_runs.py) so that ``atomman.lammps.run`` - which
assembles its Log from the rotated logs of all earlier invocations and the current output - is judged the same way.
"""
from __future__ import annotations

import datetime
import io
import os
import pathlib
import tempfile

import numpy as np

from ..core import fingerprint
from ..gen import c19_logs as GEN
from ..gen import c19_runs as RG
from ..oracle import c19_logmodel as M
from .. import monitor, cover

RULE = ('logs are printed by a synthesiser from a list-of-tables model, round-robin over: memory banner (2) x timing '
        'breakdown (new / old / new with %CPU / "run post no" / none) x thermo number format (classic %8d %12.8g / '
        'aligned 2022+ / custom up to 15 digits) x truncation (complete, cut after k rows, after one row, header only, '
        'after the loop line, inside the breakdown) x log file (echoed script, blank and whitespace-only lines) or screen '
        'output x step-range plan of the last run (junction, disjoint, overlap on a common grid, restart from 0, nested, '
        'out of order, starting before, other thermo interval) x that relation realised by the last run or by the last but one '
        '(the final run then carries on past everything printed) x banner kind (plain, "- Update n", "-ICMS", development, '
        'not on the first line, absent) x 1-6 run/minimize blocks x 2-9 keywords (Step first / in the middle / absent, '
        'integer keywords, bracketed names) x CRLF x keyword set changed between runs x whole-number last stage x nan/inf; '
        'input kind (str text, str path, pathlib.Path, bytes, BytesIO, open "rb" file) and constructor/read form cycle '
        'with the index. Histories: 1-4 logs cut from one global plan, append flags and versions by index; after every read '
        '(every fifth history: only after the last) one round of flatten requests judged against the model of what has been '
        'read so far: three styles with default indices + one (style, firstindex, lastindex) request per history out of 3 x 6, '
        'the same arguments after every read, spelled positionally / by keyword / with defaults left out; on every other '
        'round one request is repeated (equal table), its table modified in place by the caller (6 kinds) and requested '
        'again; each round ends with a comparison of all records, version and date with copies taken before it. A case is '
        'non-trivial when at least one thermo row is read; distinct = distinct fingerprint of the log text(s). '
        'Boundary forms by index: a log without run block, a single thermo keyword (Step alone / one float keyword), flatten '
        'indices given as numpy integers. Instances: after every other history a second Log is created (must be empty), reads '
        'one of the logs (judged on its own) and the first object is compared with a copy taken before. Growing file: one log '
        'printed up to 6 stages (header only, one row, k rows, loop line, inside the breakdown, complete) into the same path and '
        'read after every stage (read(append=False) on one object / a new object each time / streams / constructor first), every '
        'reading judged against the stage, earlier objects re-judged. Entry point run(): a stand-in executable (shell script '
        'understanding -in/-log/-screen/-suffix) prints staged synthesised output to the log file and to stdout; per case one of '
        '4 modes: 1-22 successive calls of one simulation with restart script (the k-th result must hold the k-1 rotated logs in '
        'order + the current output), a directory holding 0-100 rotated logs written in shuffled order + 1-2 calls, two '
        'simulations interleaved in one directory (or the same logfile name in two directories), calls without restart script '
        '(each result stands alone although rotated logs lie around; the same output staged twice gives equal records); x '
        'screen True/default/False x 9 logfile forms (left out, explicit default, other name, hyphen in the stem, two dots, '
        'pathlib.Path, no extension, subdirectory, absolute; None without restart) x script / script_name x restart_script / '
        'restart_script_name x mpi_command x suffix x look-alike files x one invocation crashed (LammpsError; its cut log is '
        'part of every later result) x same / different banners; every result judged block by block and by block identity '
        '(order of invocations), earlier results compared with copies after each later call, one flatten round on the last result.')
ASSUMPTIONS = [
    'thermo output is the one-line table style (thermo_style one/custom), keywords are distinct, no WARNING lines '
    'interleaved with the rows, a crashed log ends after a complete row (k >= 0 rows)',
    'float tokens with at most 15 printed mantissa characters must come back within 1e-15 relative; longer tokens '
    '(thermo_modify format float %20.15g) within 2e-12, the documented limit of the non-round-trip pandas converter',
    'a column is an integer column iff every printed token is an integer literal',
    'when logs with different banners are appended the reported version must be one of those read since the last '
    'reset (the property does not say which)',
    'flatten(first/last) completeness is not judged when overlapping runs printed on different step grids '
    '(which stale rows of the earlier run survive is not fixed by the property); uniqueness and row source are',
    'flatten is a function of what has been read so far: the table it hands out belongs to the caller (modifying it in '
    'place changes neither the records of the log nor a later flatten result), and flatten itself leaves the records alone',
    'the timing-breakdown table is an auxiliary clause (not part of the property statement): numbers per section only',
    'run(): the LAMMPS executable is a stand-in that prints a staged well-formed log; files whose names match '
    '<logname>-<anything><ext> but are not rotated logs of the simulation are outside the quantifier (never generated), as '
    'are deleted rotated logs; where a logfile in a subdirectory keeps its rotated logs is not judged (only the returned Log is)',
    'a Log without any record has no defined flatten result (not requested)',
]
CONFIG = {'quick': dict(shards=8, seeds=1, timeout=600), 'thorough': dict(shards=16, seeds=3, timeout=3000)}

KINDS = ['text', 'path', 'BytesIO', 'text', 'Path', 'file-rb', 'bytes']
LOGPY = 'atomman/lammps/Log.py'
RUNPY = 'atomman/lammps/run.py'
EXPECT = {'n': None}           # side channel for the Log.read postcondition monitor


class Feeder:
    """Presents a log text as the requested input kind."""

    def __init__(self):
        base = os.path.join(tempfile.gettempdir(), 'C19')
        os.makedirs(base, exist_ok=True)
        self.dir = tempfile.mkdtemp(prefix='feed-', dir=base)
        self.n = 0
        self.open = []

    def give(self, text, kind):
        if kind == 'text':
            return text
        data = text.encode('utf-8')
        if kind == 'bytes':
            return data
        if kind == 'BytesIO':
            return io.BytesIO(data)
        self.n += 1
        p = os.path.join(self.dir, f'log{self.n % 7}.lammps')
        os.makedirs(self.dir, exist_ok=True)          # the machine is shared: survive somebody's /tmp clean-up
        with open(p, 'wb') as f:
            f.write(data)
        if kind == 'path':
            return p
        if kind == 'Path':
            return pathlib.Path(p)
        if kind == 'file-rb':
            f = open(p, 'rb')
            self.open.append(f)
            return f
        raise ValueError(kind)

    def tidy(self):
        for f in self.open:
            try:
                f.close()
            except Exception:
                pass
        self.open = []

    def remove(self):
        import shutil
        self.tidy()
        shutil.rmtree(self.dir, ignore_errors=True)


# ---------------------------------------------------------------------------------------------
# clause monitors
def check_thermo(rec, sim, run, where, **detail):
    """One simulation record against the block it was printed from."""
    th = getattr(sim, 'thermo', None)
    if not rec.check(th is not None and hasattr(th, 'columns'), 'every run/minimize block yields a record with a thermo table',
                     f'{where}:thermo-missing', **detail):
        return False
    cols = [str(c) for c in th.columns]
    ok = rec.check(cols == run['columns'], 'thermo table has the printed column names', f'{where}:columns',
                   got=cols, expected=run['columns'], **detail)
    ok &= rec.check(len(th) == len(run['rows']), 'thermo table has one row per printed thermo line', f'{where}:nrows',
                    got=len(th), expected=len(run['rows']), columns=cols, **detail)
    if not ok:
        return False
    nrow = len(run['rows'])
    rec.count('rows-compared', nrow)
    for c, name in enumerate(run['columns']):
        toks = [run['tokens'][r][c] for r in range(nrow)]
        vals = [run['rows'][r][c] for r in range(nrow)]
        kind = M.column_kind(toks)
        try:
            arr = th.iloc[:, c].to_numpy()
        except Exception as e:
            rec.fail('thermo column is readable', f'{where}:column-access', exception=e, column=name, **detail)
            continue
        if kind == 'empty':
            continue
        if kind == 'int':
            rec.count('columns:int')
            rec.check(arr.dtype.kind in 'iu', 'a column printed with integer literals is an integer column',
                      f'{where}:dtype:int', column=name, dtype=str(arr.dtype), tokens=toks[:4], **detail)
            try:
                got = [int(x) for x in arr]
                same = got == vals and all(float(x) == int(x) for x in arr)
            except Exception:
                got, same = list(arr[:4]), False
            rec.check(same, 'integer values are the printed integers', f'{where}:values:int', column=name,
                      got=got[:6], expected=vals[:6], **detail)
        else:
            rec.count('columns:float')
            if not rec.check(arr.dtype.kind == 'f', 'a column with a non-integer token is a float column',
                             f'{where}:dtype:float', column=name, dtype=str(arr.dtype), tokens=toks[:4], **detail):
                continue
            exp = np.array([float(v) for v in vals])
            rt = np.array([M.value_rtol(t) for t in toks])
            got = arr.astype(float)
            with np.errstate(all='ignore'):
                good = (np.abs(got - exp) <= rt * np.abs(exp)) | (np.isnan(got) & np.isnan(exp)) | (got == exp)
            rec.count('values:float', nrow)
            rec.count('values:float:long-mantissa', int((rt > 1e-13).sum()))
            rec.count('values:nan-inf', int((~np.isfinite(exp)).sum()))
            bad = np.nonzero(~good)[0]
            rec.check(len(bad) == 0, 'float values are the printed numbers (to printed precision)', f'{where}:values:float',
                      column=name, got=got[bad][:4], expected=exp[bad][:4], tokens=[toks[j] for j in bad[:4]], **detail)
    return True


def check_perf(rec, sim, run, where, **detail):
    """Auxiliary: the timing breakdown printed after a block is attached to that block's record."""
    perf = getattr(sim, 'performance', None)
    pm = run['perf']
    if pm is None:
        rec.check(perf is None, 'a block without a printed timing breakdown has none attached', f'{where}:perf:absent', **detail)
        return
    if not rec.check(perf is not None, 'a printed timing breakdown is attached to its block', f'{where}:perf:missing', **detail):
        return
    rec.count('perf-tables:' + pm['style'])
    try:
        idx = [str(x).split()[0] for x in perf.index]
        ok = rec.check(idx == pm['sections'], 'timing breakdown has the printed sections', f'{where}:perf:sections',
                       got=idx, expected=pm['sections'], **detail)
        if pm['style'] == 'new':
            rec.check([str(c) for c in perf.columns] == pm['columns'], 'timing breakdown has the printed column names',
                      f'{where}:perf:columns', got=list(perf.columns), expected=pm['columns'], **detail)
        if not ok:
            return
        for j, sec in enumerate(pm['sections']):
            exp = [v for v in pm['values'][j] if v is not None]
            got = []
            blank = sum(v is None for v in pm['values'][j])
            for x in perf.iloc[j].tolist():
                try:
                    got.append(float(x))
                except (TypeError, ValueError):
                    pass
            if pm['style'] == 'new':
                # blank cells of the 'Other' row carry no number: compare the printed ones by position
                got = [g for g, v in zip(got, pm['values'][j]) if v is not None] if len(got) == len(pm['values'][j]) else got
            same = len(got) == len(exp) and all(M.same_value(g, e, 1e-12) for g, e in zip(got, exp))
            rec.check(same, 'timing breakdown has the printed numbers', f'{where}:perf:values', section=sec, got=got,
                      expected=exp, blank=blank, **detail)
    except Exception as e:
        rec.fail('timing breakdown table is readable', f'{where}:perf:access', exception=e, **detail)


def check_log(rec, log, state, where, **detail):
    """The whole Log object against the reference state."""
    sims = log.simulations
    runs = state.runs
    rec.check(len(sims) == len(runs), 'one simulation record per run/minimize block, in order of appearance',
              f'{where}:nsims', got=len(sims), expected=len(runs), **detail)
    for k, (sim, run) in enumerate(zip(sims, runs)):
        w = where + (':truncated' if not run['complete'] else '')
        check_thermo(rec, sim, run, w, block=k, kind=run['kind'], **detail)
        check_perf(rec, sim, run, where, block=k, **detail)
        rec.count('blocks:' + run['kind'])
        if not run['complete']:
            rec.count('blocks:truncated')
            rec.count('blocks:truncated-rows=%s' % ('0' if len(run['rows']) == 0 else '1' if len(run['rows']) == 1 else 'k'))
    adm = state.admissible_versions()
    v, d = log.lammps_version, log.lammps_date
    vs = [a[0] for a in adm]
    rec.check(v in vs, 'lammps_version is the text between the banner parentheses (of a log read since the last reset)',
              f'{where}:version:string', got=v, admissible=vs, **detail)
    if v in vs:
        ed = adm[vs.index(v)][1]
        rec.check(d == (datetime.date(*ed) if ed is not None else None), 'lammps_date is the date the banner starts with',
                  f'{where}:version:date', got=str(d), expected=ed, version=v, **detail)
    if vs[0] is not None and len(set(vs)) > 1:
        rec.count('version:several-banners')


def call_flatten(log, style, lo, hi, call='positional'):
    """The three ways a caller spells the same request."""
    if call == 'keyword':
        return log.flatten(style=style, firstindex=lo, lastindex=hi)
    if call == 'minimal':                              # defaults left out (style 'last', index None)
        kw = {}
        if lo is not None:
            kw['firstindex'] = lo
        if hi is not None:
            kw['lastindex'] = hi
        return log.flatten(**kw) if style == 'last' else log.flatten(style, **kw)
    return log.flatten(style, lo, hi)


def check_flatten(ctx, log, runs, style, lo=None, hi=None, where='flatten', call='positional', **detail):
    """flatten(style, lo, hi) of the real object against the model runs read so far; returns the table handed out
    (None when there was nothing to judge).  ``where`` names the situation of the call ('flatten' = first flatten calls
    on an object, 'flatten:interleaved' = earlier flatten calls and further reads lie in between); the input classes
    of the recorded D12 findings keep their plain key in every situation."""
    rec = ctx.rec
    sub = runs[lo:hi]
    if not sub:
        rec.count('flatten:empty-range-skipped')
        return None
    steps = M.step_lists(sub)
    if steps is None:
        # documented refusal: 'All simulation thermos must have Step key in order to flatten'
        with ctx.guard('flatten without a Step column', f'{where}:{style}:no-step', accept=(AssertionError, AttributeError, KeyError)):
            call_flatten(log, style, lo, hi, call)
        rec.count('flatten:no-step')
        return None
    if style == 'all':
        label, status = ('all', 'must-hold')
    else:
        label, status = M.flatten_class(steps, style)
    rec.count(f'flatten:{style}:class:{label}')
    if style != 'all' and M.backstep_then_overlap(steps):
        rec.count(f'flatten:{style}:backstep-then-overlap:{status}')
    if status == 'd12':
        where = 'flatten'
    if where != 'flatten':
        rec.count(where)
        rec.count(f'{where}:{style}')
    rec.count('flatten:call:' + call)
    res = None
    with ctx.guard(f'flatten({style}) returns the merged table', f'{where}:{style}:exception' + ('' if status == 'must-hold' else ':' + label)):
        res = call_flatten(log, style, lo, hi, call).thermo
    if res is None:
        return None
    rec.count(f'flatten:{style}')
    ucols = M.union_columns(sub)
    cols = [str(c) for c in res.columns]
    # columns of blocks that printed no row (log cut right after the header) carry no value: the statement does not say
    # whether the merged table keeps them (it did while such a block emptied the table; since /repo d962039 rowless
    # blocks do not take part in the merge) - required: the columns of every block with rows; allowed: all printed ones
    with_rows = [r for r in sub if len(r['rows']) > 0]
    need = M.union_columns(with_rows) if with_rows else ucols
    rec.check(set(need) <= set(cols) <= set(ucols), 'merged table has the union of the printed columns', f'{where}:{style}:columns',
              got=cols, expected=ucols, required=need, **detail)
    if 'Step' not in cols:
        return res
    try:
        got_steps = [int(x) for x in res['Step'].tolist()]
    except Exception as e:
        rec.fail('merged Step column holds the printed integers', f'{where}:{style}:steps' + ('' if status != 'empty' else ':' + label),
                 exception=e, **detail)
        return res
    exp_pairs = M.flatten_expected(sub, style)
    exp_steps = [sub[k]['rows'][r][sub[k]['columns'].index('Step')] for k, r in exp_pairs]
    values = {c: res[c].tolist() for c in cols}
    flip = M.int_printed_later(sub) if style == 'last' else set()
    if flip:
        rec.count('flatten:last:int-printed-later')
        rec.count('flatten:last:int-printed-later:columns', len(flip))

    def row_ok(i, k, r, only=None):
        ev, et = M.row_dict(sub, k, r)
        for c in ucols:
            if c not in values or (only is None and c in flip) or (only is not None and c not in only):
                continue
            g = values[c][i]
            if c in ev:
                if not M.same_value(g, float(ev[c]), max(M.value_rtol(et[c]), 1e-15) if not M.token_is_int(et[c]) else 0.0):
                    return c, g, ev[c]
            else:
                try:
                    if not np.isnan(float(g)):
                        return c, g, None
                except (TypeError, ValueError):
                    if g is not None:
                        return c, g, None
        return None

    if style == 'all':
        ok = rec.check(got_steps == exp_steps, "flatten('all') keeps every row of every run, in order", f'{where}:all:steps',
                       got=got_steps[:12], expected=exp_steps[:12], n_got=len(got_steps), n_exp=len(exp_steps), **detail)
        if ok:
            bad = [b for b in (row_ok(i, k, r) for i, (k, r) in enumerate(exp_pairs)) if b]
            rec.check(not bad, "flatten('all') rows carry the printed values", f'{where}:all:rows', first=bad[:2], **detail)
        return res
    rec.check(len(set(got_steps)) == len(got_steps), f"flatten('{style}') has every Step at most once", f'{where}:{style}:unique',
              got=got_steps[:20], **detail)
    owner = {s: kr for s, kr in zip(exp_steps, exp_pairs)}
    bad = []
    for i, s in enumerate(got_steps):
        if s not in owner:
            bad.append(('step never printed', s))
            continue
        b = row_ok(i, *owner[s])
        if b:
            bad.append((s,) + b + (owner[s][0],))
    clause = f"flatten('{style}') takes each Step from the {'earliest' if style == 'first' else 'latest'} run that printed it"
    rec.check(not bad, clause, f'{where}:{style}:source', first=bad[:3], steps=[s_[:6] for s_ in steps], **detail)
    if flip:
        # columns printed as whole numbers by a later run (input class of the known integer-cast finding) are
        # judged under their own key, all other columns of the same table under the ordinary one
        bad2 = [b for b in (row_ok(i, *owner[s], only=flip) for i, s in enumerate(got_steps) if s in owner) if b]
        rec.check(not bad2, clause, f'{where}:{style}:source:int-printed-later', first=bad2[:3], columns=sorted(flip), **detail)
    missing = sorted(set(exp_steps) - set(got_steps))
    if status == 'exempt':
        rec.count('flatten:exempt-off-grid')
        rec.count('flatten:exempt-off-grid:steps-dropped', len(missing))
    else:
        rec.check(not missing, f"flatten('{style}') contains every printed timestep", f'{where}:{style}:{label}',
                  missing=missing[:10], n_missing=len(missing), ranges=[(min(s_), max(s_), len(s_)) if s_ else None for s_ in steps],
                  got=got_steps[:12], **detail)
    if status == 'must-hold' and all(list(s_) == sorted(s_) for s_ in steps):
        rec.check(got_steps == sorted(got_steps), f"flatten('{style}') lists the steps in increasing order (monotone runs)",
                  f'{where}:{style}:order', got=got_steps[:20], **detail)
    return res


# ---------------------------------------------------------------------------------------------
# the object between its read() calls: flatten is a function of what has been read so far
STYLES = ('first', 'last', 'all')
CALLS = ('positional', 'keyword', 'minimal')
# index ranges repeated with the same arguments after every read of a history (they select other runs as the list grows)
SLICE_ARGS = [(1, None), (None, -1), (0, 2), (-2, None), (None, 1), (-3, -1)]
MUTATIONS = ['shift-steps', 'drop-row', 'set-cell', 'rename-column', 'drop-all-rows', 'insert-column']


def snapshot(log):
    """Private copies of everything the object reports (taken by the harness, compared later)."""
    sims = list(log.simulations)
    return dict(thermo=[None if s_.thermo is None else s_.thermo.copy(deep=True) for s_ in sims],
                perf=[None if s_.performance is None else s_.performance.copy(deep=True) for s_ in sims],
                version=log.lammps_version, date=log.lammps_date)


def same_table(a, b):
    if a is None or b is None:
        return a is None and b is None
    return [str(c) for c in a.columns] == [str(c) for c in b.columns] and bool(a.equals(b))


def records_changed(log, snap):
    """What differs between the object's records and a snapshot: list of (what, index)."""
    sims = list(log.simulations)
    out = []
    if len(sims) != len(snap['thermo']):
        out.append(('number of records', len(sims)))
    for k, s_ in enumerate(sims[:len(snap['thermo'])]):
        if not same_table(s_.thermo, snap['thermo'][k]):
            out.append(('thermo', k))
        if not same_table(s_.performance, snap['perf'][k]):
            out.append(('performance', k))
    if log.lammps_version != snap['version']:
        out.append(('lammps_version', log.lammps_version))
    if log.lammps_date != snap['date']:
        out.append(('lammps_date', str(log.lammps_date)))
    return out


def restore_records(log, snap, changed):
    """After a recorded violation: put the harness' copies back (public setter) so the rest of the history is judged on
    what was read, not on the damage."""
    sims = list(log.simulations)
    for what, k in changed:
        if what == 'thermo' and k < len(sims) and snap['thermo'][k] is not None:
            sims[k].thermo = snap['thermo'][k].copy(deep=True)


def mutate_table(rng, t, kind):
    """In-place modification of a table the caller was handed (pandas API only)."""
    r = int(rng.integers(0, len(t)))
    c = [str(x) for x in t.columns].index('Step')
    if kind == 'shift-steps':
        t['Step'] = t['Step'] + 7
    elif kind == 'drop-row':
        t.drop(index=t.index[r], inplace=True)
    elif kind == 'set-cell':
        t.iloc[r, c] = int(t.iloc[r, c]) + 12345
    elif kind == 'rename-column':
        t.rename(columns={'Step': 'step'}, inplace=True)
    elif kind == 'drop-all-rows':
        t.drop(index=t.index, inplace=True)
    elif kind == 'insert-column':
        t.insert(0, 'mine', 1.0)
    else:
        raise ValueError(kind)


def check_repeat_and_mutation(ctx, log, runs, style, lo, hi, res, call, mkind, before, **detail):
    """``res`` = table returned by flatten(style, lo, hi) and already judged against the model.
    (1) the identical call again gives an equal table; (2) the table is the caller's: after the caller modified it in
    place, the identical call still gives the judged table and the records of the log are what they were."""
    rec = ctx.rec
    sub = runs[lo:hi]
    if res is None or 'Step' not in [str(c) for c in res.columns]:
        return
    contributing = sum(1 for r_ in sub if len(r_['rows']) > 0)
    judged = res.copy(deep=True)
    again = None
    with ctx.guard(f'flatten({style}) returns the merged table', f'flatten:{style}:repeat:exception'):
        again = call_flatten(log, style, lo, hi, call).thermo
    if again is None:
        return
    rec.count('flatten:repeat')
    rec.check(same_table(again, judged), 'repeating a flatten call with the same arguments gives an equal table',
              f'flatten:{style}:repeat', style=style, range=(lo, hi), call=call, n_first=len(judged), n_again=len(again), **detail)
    if len(res) == 0:
        rec.count('flatten:caller-mutation:no-row-skipped')
        return
    cls = 'single-block' if contributing <= 1 else 'merged'
    earlier = records_changed(log, before)             # a side effect of flatten itself is judged by its own clause
    mutate_table(ctx.rng, res, mkind)
    if same_table(res, judged):                        # harness sanity: the modification must be one
        rec.count('flatten:caller-mutation:ineffective')
        return
    rec.count('flatten:caller-mutation:' + cls)
    rec.count('flatten:caller-mutation:kind:' + mkind)
    third, raised = None, None
    try:                                               # an exception here is a consequence of the modification
        third = call_flatten(log, style, lo, hi, call).thermo
    except Exception as e:
        raised = '%s: %s' % (type(e).__name__, e)
    changed = [c_ for c_ in records_changed(log, before) if c_ not in earlier]
    ok = third is not None and same_table(third, judged) and not changed
    rec.check(ok, 'a table returned by flatten is the caller\'s: modifying it changes neither the records of the log nor '
              'what a later flatten returns', f'flatten:caller-mutation:{cls}', style=style, range=(lo, hi), call=call,
              modification=mkind, later_flatten_changed=third is None or not same_table(third, judged),
              later_flatten_raised=raised, records_changed=changed[:4], blocks_in_range=len(sub), **detail)
    if changed:
        restore_records(log, before, changed)


def flatten_probes(ctx, log, state, idx, where, slice_args=None, repeat=None, **detail):
    """One round of flatten calls on the object as it is now, each judged against the model of what has been read so
    far: the three styles with default index arguments, optionally one (style, firstindex, lastindex) request, optionally
    the repeat / caller-modification clause on one of them; then: the round left the records alone."""
    rec = ctx.rec
    runs = state.runs
    before = snapshot(log)
    probes = [(style, None, None, CALLS[(idx + s_) % 3]) for s_, style in enumerate(STYLES)]
    if slice_args is not None:
        style, a, b = slice_args
        probes.append((style, a, b, CALLS[(idx // 3) % 3]))
        if runs[a:b]:
            rec.count('flatten:slices')
            rec.count(where + ':slices')
    for p_, (style, a, b, call) in enumerate(probes):
        extra = dict(sliced=(a, b)) if (a, b) != (None, None) else {}
        if extra and idx % 4 == 3:                     # index arguments taken from an integer array
            a, b = (None if a is None else np.int64(a)), (None if b is None else np.int64(b))
            extra['index_type'] = 'numpy.int64'
            rec.count('flatten:index:numpy-int')
        res = check_flatten(ctx, log, runs, style, a, b, where=where, call=call, **extra, **detail)
        if repeat is not None and repeat[0] == p_:
            check_repeat_and_mutation(ctx, log, runs, style, a, b, res, call, repeat[1], before, **detail)
    changed = records_changed(log, before)
    rec.count('flatten:side-effect-checks')
    rec.check(not changed, 'flatten leaves the records of the log (runs, tables, version, date) as they were read',
              'flatten:side-effect', changed=changed[:4], **detail)
    if changed:
        restore_records(log, before, changed)


# ---------------------------------------------------------------------------------------------
# entry point atomman.lammps.run(): the Log it returns = logs of all earlier invocations, in order, + the current one
def block_key(columns, first_row, nrows):
    """Identity of a printed block, coarse enough to survive the reader's rounding (6 digits of the first row)."""
    try:
        first = tuple('%.6g' % float(v) for v in first_row)
    except (TypeError, ValueError):
        first = ('?',)
    return (tuple(str(c) for c in columns), int(nrows), first)


def record_key(sim):
    th = getattr(sim, 'thermo', None)
    if th is None or not hasattr(th, 'columns'):
        return None
    try:
        return block_key(th.columns, th.iloc[0].tolist() if len(th) else (), len(th))
    except Exception:
        return None


class SimHistory:
    """One simulation (one logfile name in one directory) driven through run() again and again."""

    def __init__(self, label, cwd, logfile, is_path, restart):
        self.label, self.cwd, self.logfile, self.is_path, self.restart = label, cwd, logfile, is_path, restart
        self.state = M.LogState()
        self.expected = []          # (label, invocation, block) of every block the next result must hold, in order
        self.ninv = 0               # invocations so far (staged old logs included)
        self.kept = []              # earlier results: (Log, snapshot, invocation)

    @property
    def logname(self):
        return 'log.lammps' if self.logfile is None else self.logfile

    def took_place(self, model):
        """An invocation printed ``model`` (through run() or in an earlier session)."""
        self.ninv += 1
        if not self.restart:
            self.state = M.LogState()
            self.expected = []
        self.state.read(model, append=True)
        self.expected += [(self.label, self.ninv, b) for b in range(len(model['runs']))]


def _invocation_texts(rng, spec, steps, version, trunc='complete'):
    """Log-file text, screen text and model of one invocation (the same tables printed in both flavours)."""
    seed = int(rng.integers(0, 2 ** 31))
    sp = dict(spec, trunc=trunc)
    t_log, model = GEN.synth(np.random.default_rng(seed), dict(sp, flavour='logfile'), steps=steps, version=version)
    t_scr, model2 = GEN.synth(np.random.default_rng(seed), dict(sp, flavour='screen', eol='\n'), steps=steps, version=version)
    assert [r['tokens'] for r in model['runs']] == [r['tokens'] for r in model2['runs']] and model['version'] == model2['version']
    return t_log, t_scr, model


def _runs(ctx, lmp):
    """Sequences of run() calls with a stand-in executable: see vf/gen/c19_runs.py."""
    rec = ctx.rec
    n = ctx.pick(96, 480)
    home = os.getcwd()
    base = os.path.join(tempfile.gettempdir(), 'C19')
    for i in ctx.cases('runs', n):
        plan = RG.case_plan(i)
        sb = RG.Sandbox(base)
        try:
            _run_case(ctx, lmp, i, plan, sb)
        finally:
            os.chdir(home)
            sb.remove()


def _run_case(ctx, lmp, i, plan, sb):
    rec, rng = ctx.rec, ctx.rng
    mode, m = plan['mode'], plan['m']
    restart = mode != 'fresh'
    screen = plan['screen']
    lf_label, lf_value, lf_path = plan['logfile']
    # --- the simulations of this case and the order of their invocations
    if mode == 'two-sims':
        a, b = plan['pair']
        if plan['two_dirs']:
            sims = [SimHistory('A', sb.work, a, False, True), SimHistory('B', sb.work2, a, False, True)]
        else:
            sims = [SimHistory('A', sb.work, a, False, True), SimHistory('B', sb.work, b, False, True)]
        na, nb = plan['ncalls_a'], plan['ncalls_b']
        after = [1, max(2, na - 2), na // 2][:nb]
        order = []
        for k in range(1, na + 1):
            order.append(0)
            order += [1] * after.count(k)
        lf_label = 'pair'
    else:
        value = None if (mode == 'fresh' and plan.get('no_logfile')) else lf_value
        if value is not None:
            value = value.replace('<work>', sb.work)
        sims = [SimHistory('A', sb.work, value, lf_path and value is not None, restart)]
        order = [0] * plan['ncalls']
        if mode == 'fresh' and plan.get('no_logfile'):
            lf_label = 'none'
    nold = plan.get('nold', 0) + (1 if mode == 'staged' else 0)       # logs found in the directory before the first call
    ninv_total = len(order) + nold
    # --- what every invocation prints: blocks cut from one global step plan
    long = ninv_total > 7
    nblocks = [(1 + (k % 4 == 3)) if long else 1 + (m + k) % 3 for k in range(ninv_total)]
    if mode == 'fresh':
        nblocks[2] = nblocks[0]
    step_plan = GEN.PLANS[m % len(GEN.PLANS)]
    total = sum(nblocks)
    steps = GEN.plan_steps(rng, step_plan, total, middle=(m // 2) % 3 == 1 and total >= 3 and step_plan != 'junction')
    cuts = np.cumsum([0] + nblocks).tolist()
    base_spec = GEN.spec_for(7 * m + 3, rng)
    base_spec['trunc'] = 'complete'
    if long:
        base_spec['ncols'] = min(base_spec['ncols'], 5)
    banner = GEN.banner_text(rng, GEN.BANNERS[m % len(GEN.BANNERS)])
    crash_truncs = ['rows', 'one-row', 'after-loop', 'header-only', 'mid-breakdown']

    def texts_of(k, trunc='complete'):
        ver = banner if plan['versions'] == 'same' else GEN.banner_text(rng, GEN.BANNERS[(m + k) % len(GEN.BANNERS)])
        return _invocation_texts(rng, base_spec, steps[cuts[k]:cuts[k + 1]], ver, trunc)

    sig = ('run', mode, lf_label, 'screen' if screen else 'logfile', plan['restart_form'] if restart else 'no-restart',
           plan.get('ncalls', plan.get('ncalls_a')), plan.get('nold'), plan['crash_at'] is not None)
    registry = {}                                       # block identity -> [(label, invocation, block), ...]
    all_texts = []

    def register(sim, model):
        for b_, r_ in enumerate(model['runs']):
            key = block_key(r_['columns'], r_['rows'][0] if r_['rows'] else (), len(r_['rows']))
            registry.setdefault(key, []).append((sim.label, sim.ninv, b_))

    # --- the directory as earlier sessions left it
    for s_ in sims:
        os.makedirs(os.path.join(s_.cwd, os.path.dirname(str(s_.logname))), exist_ok=True)
    k_inv = 0
    sim = sims[0]
    if mode == 'staged':
        bad_old = (plan['nold'] + 1) // 2 if plan['crashed_old'] else None
        files = []
        for k in range(nold):
            trunc = crash_truncs[(m + k) % len(crash_truncs)] if k == bad_old else 'complete'
            t_log, _, model = texts_of(k_inv, trunc)
            k_inv += 1
            sim.took_place(model)
            register(sim, model)
            all_texts.append(t_log)
            if k < nold - 1:
                files.append((RG.rotated_name(sim.logname, k + 1), t_log))
                if os.path.dirname(str(sim.logname)) not in ('', sim.cwd):
                    # logfile in a subdirectory: whether old logs are kept beside it or in the working directory is
                    # not the property's business - earlier sessions left them in both places
                    files.append((os.path.join(os.path.dirname(str(sim.logname)), files[-1][0]), t_log))
            else:
                files.append((sim.logname, t_log))
            if trunc != 'complete':
                rec.count('run:staged:crashed-old-log')
        for j in rng.permutation(len(files)):           # directory order is not numeric order
            with open(os.path.join(sim.cwd, files[int(j)][0]), 'w', newline='') as f:
                f.write(files[int(j)][1])
    if plan['clutter'] or mode == 'fresh':
        for s_ in sims:
            names = RG.clutter_names(s_.logname)
            if mode == 'fresh':
                names = names + [RG.rotated_name(s_.logname, 1), RG.rotated_name(s_.logname, 2)]
            for name in names:
                t_log, _, _ = _invocation_texts(rng, base_spec, steps[:1], banner)
                with open(os.path.join(s_.cwd, name), 'w') as f:
                    f.write(t_log)
        rec.count('run:clutter')
    scripts = {}
    for name, text in (('in.first', 'units metal\nrun 100\n'), ('in.restart', 'read_restart x.restart\nrun 100\n')):
        scripts[name] = text
        for s_ in sims:
            with open(os.path.join(s_.cwd, name), 'w') as f:
                f.write(text)

    # --- the calls
    judged = 0
    last = None
    fresh_results = []
    for c, which in enumerate(order):
        sim = sims[which]
        own_call = sum(1 for w in order[:c + 1] if w == which)
        crash = mode == 'calls' and plan['crash_at'] == own_call
        trunc = crash_truncs[(m + c) % len(crash_truncs)] if crash else 'complete'
        if mode == 'fresh' and c == 2:                  # the third stand-alone call prints what the first printed
            t_log, t_scr, model = fresh_results[0][1]
        else:
            t_log, t_scr, model = texts_of(k_inv, trunc)
        k_inv += 1
        sb.stage(t_log, t_scr, fail=crash)
        kwargs = dict(screen=screen)
        if sim.logfile is not None or (mode == 'fresh' and plan.get('no_logfile')):
            kwargs['logfile'] = pathlib.Path(sim.logfile) if sim.is_path else sim.logfile
        if plan['script_form'] == 'script':
            kwargs['script'] = scripts['in.first']
        else:
            kwargs['script_name'] = 'in.first'
        if restart:
            if plan['restart_form'] == 'restart_script':
                kwargs['restart_script'] = scripts['in.restart']
            else:
                kwargs['restart_script_name'] = 'in.restart'
        if plan['mpi']:
            kwargs['mpi_command'] = sb.mpi + ' -n 4'
        if plan['suffix']:
            kwargs['suffix'] = 'omp'
        if screen is True and c % 2 == 0:
            del kwargs['screen']                        # the default
        os.chdir(sim.cwd)
        n_old_read = (sim.ninv if restart else 0)
        sim.took_place(model)
        register(sim, model)
        all_texts.append(t_log)
        detail = dict(mode=mode, call_no=own_call, old_logs=n_old_read, screen=screen, logfile=str(sim.logname), simulation=sim.label,
                      restart=plan['restart_form'] if restart else None, crashed_earlier=plan['crash_at'], step_plan=step_plan)
        log = None
        rec.count('run:calls')
        g = ctx.guard('run() returns the Log of the earlier invocations and the current one', 'run:exception',
                      accept=(lmp.LammpsError,) if crash else ())
        with g:
            log = lmp.run(sb.exe, **kwargs)
        argv, script = sb.received()
        if argv is None:
            rec.count('run:standin-not-invoked')
        if crash:
            rec.count('run:crashed-invocation')
            rec.check(g.exc is not None, 'a LAMMPS process that exits with an error raises LammpsError', 'run:crash-not-raised', **detail)
            continue
        if log is None:
            continue
        # ---- the result against everything this simulation has printed so far
        judged += 1
        rec.count('run:results-judged')
        rec.count('run:results-judged:' + ('screen' if screen else 'logfile'))
        for lim in (1, 10, 20, 100):
            if n_old_read >= lim:
                rec.count('run:old-logs>=%d' % lim)
                rec.count('run:old-logs>=%d:%s' % (lim, 'screen' if screen else 'logfile'))
        if n_old_read >= 10:
            rec.count('run:old-logs>=10:' + mode)
        if plan['crash_at'] is not None and own_call > plan['crash_at']:
            rec.count('run:after-crash-judged')
        check_log(rec, log, sim.state, 'run', **detail)
        cands = [registry.get(record_key(s_)) for s_ in log.simulations]
        if any(x is None for x in cands):
            rec.count('run:order:unidentified-block')
        else:
            # a block printed twice (same output staged again) is identified as the expected one where that is possible
            ids = [(sim.expected[j_] if j_ < len(sim.expected) and sim.expected[j_] in x else x[0]) for j_, x in enumerate(cands)]
            foreign = any(x[0] != sim.label for x in ids)
            rec.count('run:order-judged')
            rec.check(ids == sim.expected, 'run() lists the records invocation by invocation in the order they were produced, '
                      'the current output last', 'run:order' + (':other-simulation' if foreign else ''),
                      observed=[x[1] for x in ids][:30], expected=[x[1] for x in sim.expected][:30],
                      sims=sorted({x[0] for x in ids}), **detail)
        # ---- results handed out earlier are the caller's: later calls leave them alone
        for old_log, snap, inv in sim.kept[-3:] + [k_ for s_ in sims if s_ is not sim for k_ in s_.kept[-1:]]:
            rec.count('run:earlier-results-rejudged')
            changed = records_changed(old_log, snap)
            rec.check(not changed, 'a Log returned by an earlier run() call is not altered by later calls', 'run:earlier-result',
                      changed=changed[:4], result_of_invocation=inv, **detail)
        sim.kept.append((log, snapshot(log), sim.ninv))
        if mode == 'fresh':
            fresh_results.append((log, (t_log, t_scr, model)))
            if c == 2:
                first = fresh_results[0][0]
                rec.count('run:same-output-twice')
                same = len(first.simulations) == len(log.simulations) and all(
                    same_table(x.thermo, y.thermo) for x, y in zip(first.simulations, log.simulations))
                rec.check(same, 'the same LAMMPS output gives the same records whatever ran in between', 'run:repeat', **detail)
        last = (log, sim, detail)

    rec.case(sig, nontrivial=judged > 0, fp=fingerprint(all_texts))
    for name in ('mode:' + mode, 'logfile:' + lf_label, 'screen:%s' % screen, 'script:' + plan['script_form']):
        rec.count('run:' + name)
    if restart:
        rec.count('run:restart:' + plan['restart_form'])
    for flag in ('mpi', 'suffix'):
        if plan[flag]:
            rec.count('run:' + flag)
    if plan['versions'] == 'different':
        rec.count('run:different-versions')
    if mode == 'two-sims':
        rec.count('run:two-sims:' + ('two-directories' if plan['two_dirs'] else 'one-directory'))
    if i < 16:
        rec.sample(dict(entry='run', plan={k_: (str(v_) if not isinstance(v_, (int, bool, type(None), str)) else v_)
                                           for k_, v_ in plan.items()}, invocations=ninv_total, blocks=total))
    # ---- the merged table of what run() returned
    if last is not None:
        log, sim, detail = last
        rp = ((i // 2) % 3, MUTATIONS[i % len(MUTATIONS)]) if i % 2 == 0 else None
        rec.count('run:flatten-rounds')
        flatten_probes(ctx, log, sim.state, i, 'flatten', slice_args=(STYLES[i % 3],) + SLICE_ARGS[(i // 3) % len(SLICE_ARGS)],
                       repeat=rp, entry='run', **{k_: detail[k_] for k_ in ('mode', 'old_logs', 'screen')})


# ---------------------------------------------------------------------------------------------
def install_monitors(rec, lmp):
    """Postcondition on the real Log.read (fires for the constructor's internal call too):
    the number of records grows by the number of blocks of the log just read, or restarts from it."""
    def pre(args, kwargs):
        return len(args[0].simulations)

    def post(args, kwargs, result, exc, old):
        n = EXPECT['n']
        if n is None or not isinstance(old, int):
            return
        append = kwargs.get('append', args[2] if len(args) > 2 else True)
        if exc is not None:
            return
        now = len(args[0].simulations)
        rec.check(now == (old if append is not False else 0) + n,
                  'monitor: read(append=True) adds the new runs after the existing ones, append=False replaces them',
                  'monitor:read:' + ('append' if append is not False else 'replace'), before=old, after=now, new=n)

    monitor.observe(lmp.Log, 'read', post, pre)


def read_exception_key(specs):
    """Mechanism key of an exception escaping read(): by timing-breakdown class of the log."""
    bds = {s['breakdown'] for s in specs}
    if 'none' in bds:
        return 'read:exception:no-breakdown'
    if 'old' in bds:
        return 'read:exception:old-breakdown'
    return 'read:exception'


def run(ctx):
    import atomman.lammps as lmp
    rec = ctx.rec
    install_monitors(rec, lmp)
    cover.start([LOGPY, RUNPY])
    feeder = Feeder()
    try:
        _logs(ctx, lmp, feeder)
        _histories(ctx, lmp, feeder)
        _growing(ctx, lmp, feeder)
        _runs(ctx, lmp)
    finally:
        feeder.remove()
        EXPECT['n'] = None

    for k, v_ in monitor.calls.items():
        if isinstance(v_, int):
            rec.count('monitor_calls:' + k, v_)
    # reach of the anchored code (line numbers of atomman/lammps/Log.py in the tree under test are found by content)
    for name, n in _reach(lmp).items():
        rec.count('reach:' + name, n)
    rec.count('reach:run-old-logs', _reach_run(lmp))
    _floors(ctx)


def _reach(lmp):
    """Executed lines inside the anchored mechanisms, located by their text (robust against line shifts)."""
    import inspect
    src, first = inspect.getsourcelines(lmp.Log)
    marks = {}

    def find(txt, start=0):
        for j in range(start, len(src)):
            if txt in src[j]:
                return first + j
        return None
    spans = {
        'scan': ('for line in log_info:', 'log_info.seek(0)'),
        'thermo': ('def __read_thermo', 'def __read_performance'),
        'version': ('def __read_lammps_version', 'def __read_thermo'),
        'perf-new': ('if not is_old_version:', 'else:'),
        'perf-old': ('performance.columns = [', 'log_info.seek(0)'),
        'flatten': ('def flatten', None),
    }
    out = {}
    for name, (a, b) in spans.items():
        la = find(a)
        if la is None:
            out[name] = 0
            continue
        lb = find(b, la - first + 1) if b else first + len(src)
        out[name] = cover.hits(LOGPY, la, lb or first + len(src))
    # the three style branches of flatten
    for style in ('first', 'last', 'all'):
        ln = find(f"style == '{style}'")
        out['flatten-' + style] = int(ln is not None and cover.hit(LOGPY, ln + 1))
    return out


def _reach_run(lmp):
    """Executed lines of run() between the comments that frame the reading of the earlier logs."""
    import inspect
    try:
        src, first = inspect.getsourcelines(lmp.run)
    except (OSError, TypeError):
        return 0
    la = next((first + j for j, l_ in enumerate(src) if 'Read in all old runs' in l_), None)
    lb = next((first + j for j, l_ in enumerate(src) if 'Read in current run' in l_), None)
    if la is None or lb is None:
        return cover.hits(RUNPY, first, first + len(src))
    return cover.hits(RUNPY, la, lb)


def _logs(ctx, lmp, feeder):
    rec = ctx.rec
    n = ctx.pick(960, 6000)
    for i in ctx.cases('logs', n):
        rng = ctx.rng
        spec = GEN.spec_for(i, rng, big=True)
        if i % 41 == 40:
            spec['banner'] = 'none'                   # file opened by the 'log' command: no banner
        steps0 = None
        if i % 53 == 52:                               # a script without run/minimize command (or stopped before the first)
            steps0 = []
            rec.count('class:no-run-block')
        if i % 47 == 46:                               # thermo_style custom with a single keyword
            spec['ncols'] = 1
            spec['step_pos'] = ['first', 'absent'][(i // 47) % 2]
            spec['colchange'] = False
            rec.count('class:one-keyword')
            rec.count('class:one-keyword:' + ('step' if spec['step_pos'] == 'first' else 'float'))
        text, model = GEN.synth(rng, spec, steps=steps0)
        kind = KINDS[i % len(KINDS)]
        form = 'ctor' if (i // 2) % 2 == 0 and spec['breakdown'] != 'none' else 'read'
        nrows = sum(len(r['rows']) for r in model['runs'])
        sig = (spec['mem'], spec['breakdown'], spec['fmt'], spec['trunc'], spec['plan'], kind)
        rec.case(sig, nontrivial=nrows > 0, fp=fingerprint(text))
        for cname in ('mem', 'breakdown', 'fmt', 'trunc', 'flavour', 'plan', 'banner', 'step_pos'):
            rec.count(f'class:{cname}:{spec[cname]}')
        rec.count('class:nruns:%d' % len(model['runs']))
        rec.count('class:input:' + kind)
        rec.count('class:form:' + form)
        for flag in ('colchange', 'flip', 'blowup', 'big', 'middle'):
            if spec.get(flag):
                rec.count('class:' + flag)
        if spec['eol'] != '\n':
            rec.count('class:crlf')
        if i < 24:
            rec.sample(dict(spec=spec, input=kind, text_head=text[:600], n_blocks=len(model['runs']),
                            first_block=dict(columns=model['runs'][0]['columns'], rows=model['runs'][0]['rows'][:3])))
        if model['banner'][0] is not None:             # generator self-check against the independent banner parser
            assert M.parse_banner(model['banner'][0]) == (model['version'], model['date'])
        state = M.LogState()
        state.read(model, append=True)
        detail = dict(spec={k: spec[k] for k in ('mem', 'breakdown', 'fmt', 'trunc', 'plan', 'flavour', 'banner')}, input=kind)
        log = None
        EXPECT['n'] = len(model['runs'])
        arg = feeder.give(text, kind)
        g = ctx.guard('a well-formed log is read without error', read_exception_key([spec]))
        with g:
            if form == 'ctor':
                log = lmp.Log(arg)
            else:
                log = lmp.Log()
                log.read(arg)
        EXPECT['n'] = None
        feeder.tidy()
        if g.exc is not None:
            rec.count('read:raised')
            if form != 'read' or log is None:
                continue
            # the thermo tables are stored before the timing tables are parsed: still judge them
            state.runs = [dict(r_, perf=None) for r_ in model['runs']]
        rec.count('logs-read')
        check_log(rec, log, state, 'read', **detail)
        if g.exc is not None:
            continue
        sl = None
        if len(state.runs) >= 3 and i % 3 == 0:        # firstindex / lastindex restrict the merge
            a = int(rng.integers(0, len(state.runs) - 1))
            b = int(rng.integers(a + 1, len(state.runs) + 1))
            sl = (STYLES[(i // 3) % 3], a, b)
        # two logs in three: one of the requests is repeated, its table modified by the caller, and asked for again
        rp = None
        if i % 3 != 1:
            rp = ((i // 3) % (4 if sl is not None else 3), MUTATIONS[(i // 2) % len(MUTATIONS)])
            rec.count('class:repeat-and-modify')
        flatten_probes(ctx, log, state, i, 'flatten', slice_args=sl, repeat=rp, **detail)
        # the same text through another input kind gives the same tables
        if i % 4 == 1:
            kind2 = KINDS[(i + 3) % len(KINDS)]
            other = None
            EXPECT['n'] = len(model['runs'])
            with ctx.guard('a well-formed log is read without error', read_exception_key([spec])):
                other = lmp.Log(feeder.give(text, kind2))
            EXPECT['n'] = None
            feeder.tidy()
            if other is not None:
                rec.count('input-kind-pairs')
                same = len(other.simulations) == len(log.simulations) and all(
                    a_.thermo.equals(b_.thermo) for a_, b_ in zip(other.simulations, log.simulations)) \
                    and other.lammps_version == log.lammps_version and other.lammps_date == log.lammps_date
                rec.check(same, 'text, path and stream inputs of the same log give identical records', f'read:kinds:{kind}/{kind2}',
                          **detail)


def _histories(ctx, lmp, feeder):
    """Sequences of 1-4 read() calls on one Log object, runs cut from one global step plan."""
    rec = ctx.rec
    n = ctx.pick(400, 2400)
    for i in ctx.cases('histories', n):
        rng = ctx.rng
        nlogs = 1 + i % 4
        base = GEN.spec_for(3 * i + 1, rng)
        base['trunc'] = 'complete'
        total = max(nlogs, 2 + (i // 4) % 6)
        plan = GEN.PLANS[(i // 3) % len(GEN.PLANS)]
        middle = (i // 2) % 3 == 1 and total >= 3 and plan != 'junction'
        if middle:
            rec.count('history:relation-at-last-but-one')
        steps = GEN.plan_steps(rng, plan, total, middle=middle)
        cuts = sorted(rng.choice(np.arange(1, total), nlogs - 1, replace=False).tolist()) if nlogs > 1 else []
        bounds = [0] + cuts + [total]
        same_version = (i // 5) % 2 == 0
        banner = GEN.banner_text(rng, GEN.BANNERS[i % len(GEN.BANNERS)])
        ops = []
        texts = []
        for j in range(nlogs):
            spec = dict(base)
            if (i // 7) % 2:                           # the logs of one history may come from different LAMMPS builds
                other = GEN.spec_for(5 * i + j, rng)
                for k_ in ('mem', 'breakdown', 'fmt', 'flavour'):
                    spec[k_] = other[k_]
            # a crashed stage (cut log) followed by its restart log
            spec['trunc'] = ['complete', 'rows', 'complete', 'one-row', 'complete', 'after-loop', 'complete', 'header-only'][(i + j) % 8] \
                if j < nlogs - 1 or i % 2 else 'complete'
            if (i // 11) % 5 == 4 and j == 1:
                spec['banner'] = 'none'
                ver = GEN.banner_text(rng, 'none')
            elif same_version:
                ver = banner
            else:
                ver = GEN.banner_text(rng, GEN.BANNERS[(i + j) % len(GEN.BANNERS)])
            text, model = GEN.synth(rng, spec, steps=steps[bounds[j]:bounds[j + 1]], version=ver)
            # append flag by index: all True / False somewhere / explicit True vs default
            mode = (i // 2 + j) % 5
            append = {0: None, 1: True, 2: False, 3: True, 4: None}[mode] if j > 0 or (i % 3 == 0) or spec['breakdown'] == 'none' else 'ctor'
            kind = KINDS[(i + 2 * j) % len(KINDS)]
            ops.append(dict(spec=spec, model=model, append=append, kind=kind, text=text))
            texts.append(text)
        sig = ('history', nlogs, tuple('ctor' if o['append'] == 'ctor' else {None: 'default', True: 'T', False: 'F'}[o['append']] for o in ops), plan)
        rec.case(sig, nontrivial=sum(len(r['rows']) for o in ops for r in o['model']['runs']) > 0, fp=fingerprint(texts))
        rec.count('class:history-length:%d' % nlogs)
        if i < 12:
            rec.sample(dict(plan=plan, ops=[dict(append=o['append'], input=o['kind'], blocks=len(o['model']['runs']),
                                                  version=o['model']['version'], trunc=o['spec']['trunc']) for o in ops],
                            ranges=[(s[0], s[-1], len(s)) for s in steps]))
        state = M.LogState()
        log = None
        dead = False
        # every fifth history asks for the merged table only after its last read (first flatten after several reads)
        end_only = i % 5 == 4
        sl_args = (STYLES[i % 3], ) + SLICE_ARGS[(i // 3) % len(SLICE_ARGS)]
        rounds = 0
        for j, o in enumerate(ops):
            EXPECT['n'] = len(o['model']['runs'])
            arg = feeder.give(o['text'], o['kind'])
            ap = o['append']
            detail = dict(op=j, append=ap, input=o['kind'], nlogs=nlogs)
            g = ctx.guard('a well-formed log is read without error', read_exception_key([o['spec']]))
            with g:
                if ap == 'ctor':
                    log = lmp.Log(arg)
                else:
                    if log is None:
                        log = lmp.Log()
                    if ap is None:
                        log.read(arg)
                    else:
                        log.read(arg, append=ap)
            EXPECT['n'] = None
            feeder.tidy()
            if g.exc is not None:
                rec.count('read:raised')
                if not (ap != 'ctor' and o['spec']['breakdown'] == 'none' and isinstance(g.exc, IndexError)):
                    dead = True
                    break
                # known finding read:exception:no-breakdown: the thermo tables were stored before the timing
                # tables failed - the history goes on with this log's breakdown unattached
                o['model'] = dict(o['model'], runs=[dict(r_, perf=None) for r_ in o['model']['runs']])
            state.read(o['model'], append=(ap is not False))
            rec.count('history:read:' + {'ctor': 'ctor', None: 'default', True: 'append', False: 'replace'}[ap])
            if ap is False and j > 0:
                rec.count('history:replace-after-data')
            if ap is not False and j > 0:
                rec.count('history:append-after-data')
            check_log(rec, log, state, 'history', **detail)
            # between the reads: flatten requests (the same arguments after every read of this history) and, through
            # check_log above and the side-effect clause, every other thing the object reports
            if end_only and j < nlogs - 1:
                continue
            where = 'flatten' if rounds == 0 else 'flatten:interleaved'
            if rounds > 0:
                rec.count('flatten:after-' + ('replace' if ap is False else 'append'))
            rp = None
            if (i + j) % 2 == 0:
                rp = ((i // 2 + j) % 4, MUTATIONS[(i // 4 + j) % len(MUTATIONS)])
            flatten_probes(ctx, log, state, i, where, slice_args=sl_args, repeat=rp, history=True, plan=plan,
                           round=rounds, **detail)
            rounds += 1
        if dead or log is None:
            continue
        rec.count('histories-completed')
        rec.count('history:flatten-' + ('at-end-only' if end_only else 'after-every-read'))
        if i % 2 == 0:
            _second_instance(ctx, lmp, feeder, log, ops[(i // 2) % nlogs], i)


def _second_instance(ctx, lmp, feeder, first, o, i):
    """State must not leak between Log objects: a Log created after ``first`` was filled is empty, reads its own log,
    and ``first`` still reports what it reported."""
    rec = ctx.rec
    snap = snapshot(first)
    n_first = len(first.simulations)
    detail = dict(first_holds=n_first, input=o['kind'])
    second = None
    with ctx.guard('a Log can be created while another one exists', 'instances:exception'):
        second = lmp.Log()
    if second is None:
        return
    rec.count('instances:second-created')
    rec.check(len(second.simulations) == 0 and second.lammps_version is None and second.lammps_date is None,
              'a newly created Log is empty whatever other Log objects hold', 'instances:new-not-empty',
              got=len(second.simulations), version=second.lammps_version, **detail)
    form = i % 4 == 0
    EXPECT['n'] = None
    g = ctx.guard('a well-formed log is read without error', read_exception_key([o['spec']]))
    with g:
        if form:
            second = lmp.Log(feeder.give(o['text'], o['kind']))
        else:
            second.read(feeder.give(o['text'], o['kind']))
    feeder.tidy()
    if g.exc is None:
        st = M.LogState()
        st.read(o['model'], append=True)
        rec.count('instances:second-judged')
        check_log(rec, second, st, 'instances:second', **detail)
    changed = records_changed(first, snap)
    rec.count('instances:first-rejudged')
    rec.check(not changed, 'reading a log into one Log object leaves every other Log object as it was', 'instances:first-changed',
              changed=changed[:4], **detail)


GROW = ['header-only', 'one-row', 'rows', 'after-loop', 'mid-breakdown', 'complete']


def _growing(ctx, lmp, feeder):
    """The log of a running simulation read again and again while it grows (same path / a new stream each time):
    every reading is judged against what the file held at that moment, earlier objects keep what they read."""
    rec = ctx.rec
    n = ctx.pick(72, 360)
    os.makedirs(feeder.dir, exist_ok=True)
    for i in ctx.cases('growing', n):
        rng = ctx.rng
        spec = GEN.spec_for(11 * i + 5, rng)
        seed = int(rng.integers(0, 2 ** 31))
        stages = []
        for tr in GROW:
            t, mdl = GEN.synth(np.random.default_rng(seed), dict(spec, trunc=tr))
            if stages and t == stages[-1][1]:
                continue
            stages.append((tr, t, mdl))
        if all(b_[1].startswith(a_[1].rstrip('\r\n')) for a_, b_ in zip(stages[:-1], stages[1:])):
            rec.count('growing:every-stage-extends-the-previous')
        form = ['poll-replace', 'new-object', 'poll-replace-stream', 'ctor-then-replace'][i % 4]
        kind = ['path', 'Path', 'file-rb'][(i // 4) % 3] if form != 'poll-replace-stream' else ['BytesIO', 'bytes', 'text'][(i // 4) % 3]
        rec.case(('growing', form, kind, spec['breakdown'], spec['mem']), nontrivial=True, fp=fingerprint(stages[-1][1]))
        rec.count('growing:form:' + form)
        path = os.path.join(feeder.dir, 'running-%d.lammps' % (i % 3))
        log = None
        earlier = []
        for j, (tr, text, mdl) in enumerate(stages):
            os.makedirs(feeder.dir, exist_ok=True)
            with open(path, 'wb') as f:
                f.write(text.encode('utf-8'))
            if kind == 'path':
                arg = path
            elif kind == 'Path':
                arg = pathlib.Path(path)
            elif kind == 'file-rb':
                arg = open(path, 'rb')
                feeder.open.append(arg)
            else:
                arg = feeder.give(text, kind)
            st = M.LogState()
            st.read(mdl, append=True)
            detail = dict(form=form, input=kind, stage=tr, reading=j, spec={k: spec[k] for k in ('mem', 'breakdown', 'fmt', 'flavour', 'banner')})
            EXPECT['n'] = len(mdl['runs'])
            g = ctx.guard('a well-formed log is read without error', read_exception_key([spec]))
            with g:
                if form == 'new-object' or log is None:
                    if form == 'ctor-then-replace' or (form == 'new-object' and j % 2 == 0):
                        log = lmp.Log(arg)
                    else:
                        log = lmp.Log()
                        log.read(arg, append=False)
                else:
                    log.read(arg, append=False)
            EXPECT['n'] = None
            feeder.tidy()
            if g.exc is not None or log is None:
                break
            rec.count('growing:readings')
            rec.count('growing:stage:' + tr)
            check_log(rec, log, st, 'growing', **detail)
            for old_log, snap, k_ in earlier[-3:]:
                rec.count('growing:earlier-objects-rejudged')
                changed = records_changed(old_log, snap)
                rec.check(not changed, 'a Log that read the file earlier keeps what it read then', 'growing:earlier-object-changed',
                          changed=changed[:4], read_at=k_, **detail)
            if form == 'new-object':
                earlier.append((log, snapshot(log), j))
            if j == len(stages) - 1 or (i + j) % 3 == 0:
                flatten_probes(ctx, log, st, i + j, 'flatten' if form == 'new-object' or j == 0 else 'flatten:interleaved',
                               growing=True, **{k_: detail[k_] for k_ in ('form', 'stage', 'reading')})


def _floors(ctx):
    rec = ctx.rec
    q = ctx.quick
    f = rec.floor
    f('logs-read', 300)
    f('rows-compared', 3000)
    f('columns:int', 500)
    f('columns:float', 1000)
    f('values:float', 5000)
    f('values:float:long-mantissa', 20)
    f('values:nan-inf', 5)
    f('blocks:run', 300)
    f('blocks:minimize', 100)
    f('blocks:truncated', 60)
    f('blocks:truncated-rows=0', 5)
    f('blocks:truncated-rows=1', 10)
    f('blocks:truncated-rows=k', 20)
    f('perf-tables:new', 100)
    f('perf-tables:old', 40)
    for c in GEN.MEMS:
        f('class:mem:' + c, 100)
    for c in GEN.BREAKDOWNS:
        f('class:breakdown:' + c, 40)
    for c in GEN.FORMATS:
        f('class:fmt:' + c, 60)
    for c in set(GEN.TRUNCS):
        f('class:trunc:' + c, 20)
    for c in GEN.PLANS:
        f('class:plan:' + c, 20)
    for c in set(GEN.BANNERS) | {'none'}:
        f('class:banner:' + c, 5)
    for c in set(KINDS):
        f('class:input:' + c, 40)
    for c in ('first', 'middle', 'absent'):
        f('class:step_pos:' + c, 40)
    for c in ('colchange', 'flip', 'blowup', 'crlf'):
        f('class:' + c, 10)
    f('class:middle', 200)
    f('history:relation-at-last-but-one', 40)
    f('flatten:first:backstep-then-overlap:must-hold', 20)
    for k in range(1, 7):
        f('class:nruns:%d' % k, 10)
    f('class:form:ctor', 80)
    f('class:form:read', 80)
    f('input-kind-pairs', 60)
    for style in ('first', 'last', 'all'):
        f('flatten:' + style, 300)
    for lab in ('single', 'disjoint', 'junction', 'overlap', 'restart0'):
        f('flatten:last:class:' + lab, 10)
        f('flatten:first:class:' + lab, 10)
    f('flatten:last:class:nested-range', 10)
    f('flatten:last:class:out-of-order', 10)
    f('flatten:first:class:out-of-order', 10)
    f('flatten:first:class:starts-before', 10)
    f('flatten:exempt-off-grid', 5)
    f('flatten:last:int-printed-later', 10)
    f('flatten:no-step', 30)
    f('flatten:slices', 30)
    # the object between its reads: flatten requests after earlier flatten calls and further reads
    f('flatten:interleaved', 600)
    for style in STYLES:
        f('flatten:interleaved:' + style, 150)
    f('flatten:interleaved:slices', 80)
    f('flatten:after-append', 120)
    f('flatten:after-replace', 30)
    f('history:flatten-after-every-read', 100)
    f('history:flatten-at-end-only', 30)
    for c in CALLS:
        f('flatten:call:' + c, 300)
    f('flatten:repeat', 400)
    f('flatten:caller-mutation:merged', 200)
    f('flatten:caller-mutation:single-block', 60)
    for k_ in MUTATIONS:
        f('flatten:caller-mutation:kind:' + k_, 40)
    f('flatten:side-effect-checks', 800)
    f('histories-completed', 100)
    for k in range(1, 5):
        f('class:history-length:%d' % k, 30)
    f('history:replace-after-data', 20)
    f('history:append-after-data', 60)
    f('history:read:default', 30)
    f('history:read:ctor', 30)
    f('version:several-banners', 20)
    f('monitor_calls:Log.read', 500)
    f('clause:monitor: read(append=True) adds the new runs after the existing ones, append=False replaces them', 500)
    for name in ('scan', 'thermo', 'version', 'perf-new', 'perf-old', 'flatten'):
        f('reach:' + name, 3)
    # boundary forms, instances, the same file read again after it has grown
    f('class:no-run-block', 10)
    f('class:one-keyword:step', 4)
    f('class:one-keyword:float', 4)
    f('flatten:index:numpy-int', 60)
    f('instances:second-created', 100)
    f('instances:second-judged', 100)
    f('instances:first-rejudged', 100)
    f('growing:readings', 250)
    f('growing:every-stage-extends-the-previous', 40)
    for c in ('poll-replace', 'new-object', 'poll-replace-stream', 'ctor-then-replace'):
        f('growing:form:' + c, 12)
    for c in GROW:
        f('growing:stage:' + c, 30)
    f('growing:earlier-objects-rejudged', 100)
    # entry point run(): Log of all earlier invocations + the current one
    f('run:calls', 400)
    f('run:results-judged', 350)
    f('run:results-judged:screen', 120)
    f('run:results-judged:logfile', 120)
    f('run:order-judged', 300)
    f('run:old-logs>=1', 250)
    f('run:old-logs>=10', 60)
    f('run:old-logs>=10:screen', 20)
    f('run:old-logs>=10:logfile', 20)
    f('run:old-logs>=10:calls', 30)
    f('run:old-logs>=10:staged', 15)
    f('run:old-logs>=10:two-sims', 6)
    f('run:old-logs>=20', 12)
    f('run:old-logs>=100', 2)
    for c, k in (('calls', 40), ('staged', 20), ('two-sims', 10), ('fresh', 10)):
        f('run:mode:' + c, k)
    for lab, _, _ in RG.LOGFILES:
        f('run:logfile:' + lab, 5)
    f('run:logfile:pair', 10)
    f('run:logfile:none', 2)
    f('run:restart:restart_script', 30)
    f('run:restart:restart_script_name', 30)
    f('run:script:script', 30)
    f('run:script:script_name', 30)
    f('run:mpi', 12)
    f('run:suffix', 15)
    f('run:clutter', 30)
    f('run:different-versions', 15)
    f('run:crashed-invocation', 10)
    f('run:after-crash-judged', 30)
    f('run:staged:crashed-old-log', 4)
    f('run:two-sims:one-directory', 6)
    f('run:two-sims:two-directories', 3)
    f('run:earlier-results-rejudged', 600)
    f('run:same-output-twice', 10)
    f('run:flatten-rounds', 80)
    f('reach:run-old-logs', 1)
    for style in ('first', 'last', 'all'):
        f('reach:flatten-' + style, 1)
