"""C20 - Path integrators have their nominal order and string relaxation finds the saddle."""
from __future__ import annotations

import contextlib
import copy
import io
import math
import pickle
from collections import deque

import numpy as np

from ..core import fingerprint
from ..gen import c20_cases as G
from ..oracle import c20_mep as O
from .. import cover, monitor

RULE = ('integrator cases round-robin over 2 methods x 8 matrix classes (general, negative definite, skew, nilpotent, '
        'diagonal, stiff, non-normal, rank one) x d=1..6 x h in {1,.3,.1,.03} x norm scale {1,1e-3,10,1e3} x state shape '
        '(vector, batch, list, rate via **kwargs, python scalar); slope cases over the same methods/classes with four '
        'halvings of h; gradient cases over 5 function kinds x 6 point shapes (incl. lists and integer-valued points) x '
        'n in {1,2,3,5} x 5 shift classes; single string steps over 8 image counts x 4 initial shapes x 6 climbindex '
        'forms; relaxations over image count (9..31, odd and even) x initial string (straight, bent, S-bent, offset; '
        'never mirror symmetric) x 7 gradient options x 6 integrator options x 4 time-step classes x 3 tolerances x 4 '
        'entry points on E=(x^2-1)^2+k(y-c(x^2-1))^2 with k in [0.5,4], c in [-0.6,0.6].  A case is non-trivial when '
        'hAy != 0 (integrators), the function is not constant (gradients), the initial string has its ends >= 0.01 from '
        'the minima and its top image >= 0.03 from the saddle (relaxations); distinct = distinct fingerprint of the '
        'numerical inputs.  Round 4: integrator states also as integer arrays, float32 arrays, tuples and one-row batches; '
        'gradient points also float32 and nested tuples; single steps also on 5- and 7-image strings handed over as '
        'arrays, lists or tuples; every direct integrator / gradient case is followed by a call history (another call of '
        'the same sizes, the same call again, writes into the returned arrays); path histories over 6 entry points '
        '(ISMPath, create_path, BasePath, long style name, path from path, deepcopy/pickle) x 4 kinds (default path edited '
        'in place, gradientkwargs=None path edited, explicitly customised path, settings edited on a path returned by '
        'step) x 3 written shifts x 4 image counts: default path B0 (results kept) -> customised path A -> default path '
        'B1 -> B0 and B1 re-judged against the analytic surface with the default shift, B1 relaxed with climbing.')
ASSUMPTIONS = ['time steps satisfy h*Lambda <= 1 (Lambda = largest |Hessian eigenvalue| of the surface on [-1.3,1.3]x[-1,1]) '
               'or are the class default 0.05*min(0.2,1/N)',
               'relaxation outcome clauses are applied to runs that stopped by the displacement criterion; runs that '
               'exhaust the step budget (6 ln(2/tol)/(slowest curvature * h), ~3x what is needed) are counted as exempt and only required to end in the right basins',
               'slope clauses are applied only where every measured error exceeds 1e-11 of the step scale and the neglected '
               'higher-order terms are below 20% of the leading one at the largest step; other cases are counted as exempt',
               'oracle shares numpy/scipy (LAPACK, expm) with the code under test',
               'the gradient error allowed to a path is derived from the shift the harness asked for at construction (default '
               '1e-5), never from what the path reports as its settings',
               'not judged (not stated by the property): a path keeps the dict / coordinate array it was handed (no copy), and a path '
               'returned by step/relax shares the gradientkwargs dict of its parent']

CONFIG = {'quick': dict(shards=8, seeds=1, timeout=600), 'thorough': dict(shards=16, seeds=3, timeout=3600)}

EPS = np.finfo(float).eps
STEP_ULPS = 200.0        # one-step comparisons: 200 eps x (sum of the magnitudes of all Taylor terms), i.e. double-precision rounding of <= 4 stages in d <= 6
BOX = ((-1.3, 1.3), (-1.0, 1.0))


class State:
    """Per-worker monitor state."""
    def __init__(self):
        self.seq = 0
        self.capture = deque(maxlen=8)        # last integrator calls
        self.steplog = []                     # steps of the current case
        self.last_relax = None
        self.in_step = 0


ST = State()


def _bind(args, kwargs, names, defaults=()):
    """Positional/keyword arguments -> values in signature order, plus the remaining keywords."""
    vals = list(args[:len(names)])
    extra = dict(kwargs)
    nd = len(names) - len(defaults)
    for j in range(len(vals), len(names)):
        nm = names[j]
        if nm in extra:
            vals.append(extra.pop(nm))
        else:
            vals.append(defaults[j - nd] if j >= nd else None)
    return vals, extra


def default_timestep(n_img):
    return 0.05 * min(0.2, 1.0 / n_img)          # Delta t = 0.05 min(0.2, 1/N) (E, Ren, Vanden-Eijnden 2007)


def default_tolerance(n_img):
    return max(float(n_img) ** -4, 1e-10)


def cd_bound(F, p, shift):
    """|central difference - (grad + shift^2/6 d3)| bound: next Taylor term + rounding of the quotient."""
    p = np.asarray(p, float)
    trunc = shift ** 4 / 120.0 * np.asarray(F.d5_bound(p, shift))
    rounding = 40.0 * EPS * (F.magnitude(p) + 10.0 * (1.0 + np.abs(p).max(initial=0.0))) / shift
    return trunc + rounding


def grad_tolerance(path, S, coords):
    """How far the path's energy gradient may be from the analytic one."""
    gf = path.gradientfxn
    if getattr(gf, '_vf_exact', False):
        return 1e-12
    shift = getattr(S, '_vf_shift', None)       # what the harness asked for (never what the path says about itself)
    if shift is None:
        shift = path.gradientkwargs.get('shift', 1e-5)
    coords = np.asarray(coords, float)
    lead = shift ** 2 / 6.0 * np.abs(S.d3(coords)).max(initial=0.0)
    return float(lead + np.max(cd_bound(S, coords, shift)))


# ==========================================================================
# monitors
# ==========================================================================
def install_monitors(rec, mep):
    names3 = ('ratefxn', 'coord', 'timestep')

    # ---- integrators -----------------------------------------------------
    def make(method, degree):
        def pre(args, kwargs):
            (rate, coord, h), extra = _bind(args, kwargs, names3)
            return np.array(coord, dtype=float, copy=True)

        def post(args, kwargs, result, exc, old):
            (rate, coord, h), extra = _bind(args, kwargs, names3)
            ST.seq += 1
            ST.capture.append(dict(seq=ST.seq, method=method, rate=rate, coord=coord, h=h, extra=extra,
                                   result=result, exc=exc))
            A = getattr(rate, '_vf_A', None)
            if exc is not None or A is None or not isinstance(old, np.ndarray):
                return
            y0 = old
            scalar = y0.ndim == 0
            yy = y0.reshape(1) if scalar else y0
            exp = O.taylor_step(A, yy, h, degree)
            tol = STEP_ULPS * EPS * O.step_scale(A, yy, h, degree)
            if scalar:
                exp = exp[0]
            rec.close(tol, result, exp,
                      f'one {method} step on y\'=Ay equals the degree-{degree} Taylor polynomial of exp(hA) applied to y',
                      f'{method}:taylor', A=A, y=y0, h=h)
            rec.check(np.array_equal(np.asarray(coord, float), y0), 'an integrator step leaves its input coordinates unchanged',
                      f'{method}:input-mutated')
            rec.count(f'monitor:{method}:linear-steps')
        return pre, post

    for method, degree in (('euler', 1), ('rungekutta', 4)):
        pre, post = make(method, degree)
        real = getattr(mep.integrator, method)
        _, n = monitor.observe_function(real, post, pre, label='integrator.' + method)
        rec.count(f'aliases-patched:{method}', n)

    # ---- central difference ---------------------------------------------
    def post_cd(args, kwargs, result, exc, old):
        (fxn, coord, shift), extra = _bind(args, kwargs, ('fxn', 'coord', 'shift'), (1e-5,))
        if exc is not None or not hasattr(fxn, 'd3'):
            return
        if ST.in_step and (ST.seq % 7):
            return                     # inside relaxations the rate monitor already compares every step; sample here
        arr = np.asarray(coord)
        p = arr.astype(float)
        intclass = arr.dtype.kind in 'iub'
        suffix = ':int-coord' if intclass else ''
        res = np.asarray(result)
        if not rec.check(res.shape == arr.shape, 'the gradient has the shape of the coordinates', 'cdiff:shape' + suffix,
                         got=res.shape, expected=arr.shape):
            return
        exp = fxn.grad(p) + shift ** 2 / 6.0 * fxn.d3(p)
        bound = cd_bound(fxn, p, shift)
        err = np.abs(res.astype(float) - exp)
        ok = bool(np.all(err <= bound))
        rec.check(ok, 'central difference equals the analytic gradient up to the second-order term shift^2/6 f\'\'\' '
                      '(remaining error below the shift^4 term plus rounding)', 'cdiff:value' + suffix,
                  shift=shift, max_err=float(err.max(initial=0.0)), bound=float(np.max(bound)), coord=coord,
                  got=res, expected=exp)
        rec.count('monitor:cdiff:evaluated' + suffix)
    real_cd = mep.gradient.central_difference
    _, n = monitor.observe_function(real_cd, post_cd, label='gradient.central_difference')
    rec.count('aliases-patched:central_difference', n)

    # ---- ISMPath.step ------------------------------------------------------
    ISM = mep.ISMPath
    step_names = ('self', 'timestep', 'climbindex')

    def pre_step(args, kwargs):
        ST.in_step += 1
        return dict(seq0=ST.seq, coord=np.array(args[0].coord, copy=True))

    def post_step(args, kwargs, result, exc, old):
        ST.in_step -= 1
        if exc is not None or not isinstance(old, dict):
            return
        (self, timestep, climbindex), extra = _bind(args, kwargs, step_names, (None, None))
        coord0 = old['coord']
        N = len(coord0)
        S = self.energyfxn if hasattr(self.energyfxn, 'saddle') else None
        h_exp = default_timestep(N) if timestep is None else timestep
        if climbindex is None:
            climb = []
        else:
            climb = [int(c) for c in np.atleast_1d(np.asarray(climbindex)).tolist()]
        caps = [c for c in ST.capture if c['seq'] > old['seq0']]
        rec.count('monitor:step')
        L = float(np.abs(coord0).max())
        rec.check(np.array_equal(self.coord, coord0), 'a step does not modify the path it starts from', 'step:input-mutated')
        want = 1 + (climbindex is not None)
        if not rec.check(len(caps) == want, 'a step integrates the whole string once (and the climbing images once more)',
                         'step:integrator-calls', got=len(caps), expected=want):
            return
        full = caps[0]
        rec.close(1e-15 * max(1.0, abs(h_exp)), full['h'], h_exp,
                  'the step uses the requested time step (default 0.05*min(0.2,1/N))', 'step:timestep')
        rec.check(np.array_equal(np.asarray(full['coord']), coord0), 'the whole string is integrated from the current coordinates',
                  'step:integrated-from')
        # which integrator ran
        used = full['method']
        fn = self.integratorfxn
        wanted = getattr(fn, '_vf_method', None) or getattr(getattr(fn, '__vf_real__', fn), '__name__', '?')
        rec.check(used == wanted, 'the step integrates with the path\'s integratorfxn', 'step:integratorfxn-dropped',
                  used=used, wanted=wanted)
        if S is not None:
            gt = grad_tolerance(self, S, coord0)
            g = S.grad(coord0)
            with np.errstate(all='ignore'):
                r = full['rate'](coord0)
            rec.close(gt, r, -g, 'ordinary images move along -grad E', 'step:rate', N=N)
            if climb:
                cc = caps[1]
                tau = np.asarray(cc['extra'].get('τ'))
                rec.check(np.array_equal(np.asarray(cc['coord']), coord0[climb]) and cc['h'] == full['h'],
                          'climbing images are integrated from their current coordinates with the same time step',
                          'step:climb-integrated-from')
                if rec.check(tau.shape == (len(climb), coord0.shape[1]), 'one tangent per climbing image', 'step:climb-tangent-shape'):
                    T = np.zeros_like(coord0)
                    T[climb] = tau
                    u_ok, _, c_ok = O.tangent_in_cone(coord0, T, rows=climb)
                    rec.check(bool(u_ok[climb].all() and c_ok[climb].all()),
                              'the climbing tangent is a unit vector between the two adjacent chord directions',
                              'step:climb-tangent', tau=tau, climb=climb)
                    gc = g[climb]
                    exp = -gc + 2.0 * (gc * tau).sum(axis=1)[:, None] * tau
                    with np.errstate(all='ignore'):
                        rcl = cc['rate'](coord0[climb], **cc['extra'])
                    rec.close(3 * gt, rcl, exp, 'climbing images move along -grad E with the tangential component reversed',
                              'step:climb-rate', climb=climb)
                    rec.count('monitor:step:climbing')
        # re-spacing
        icoord = np.asarray(full['result'], float)
        if climb:
            rec.close(0.0, icoord[climb], np.asarray(caps[1]['result'], float),
                      'climbing images take the climbing integration result', 'step:climb-result')
        expn, al, newal = O.respaced(icoord, climb)
        new = np.asarray(result.coord)
        rec.close(1e-9 * max(1.0, L), new, expn,
                  'the new string is the cubic spline through the integrated images sampled at equal arc-parameter '
                  'spacing between end points / climbing images', 'step:respaced', N=N, climb=climb)
        knots = [0] + climb + [N - 1]
        rec.close(1e-12 * max(1.0, L), new[knots], icoord[knots], 'end points and climbing images are not moved by the re-spacing',
                  'step:knots-fixed')
        # options travel with the returned path
        rec.check(type(result) is type(self), 'step returns a path of the same class', 'step:type')
        rec.check(result.energyfxn is self.energyfxn and result.gradientfxn is self.gradientfxn
                  and result.gradientkwargs == self.gradientkwargs,
                  'the returned path keeps energyfxn, gradientfxn and gradientkwargs', 'step:options')
        rec.check(result.integratorfxn is self.integratorfxn, 'the returned path keeps the integratorfxn',
                  'step:integratorfxn-dropped', had=wanted,
                  got=getattr(getattr(result.integratorfxn, '__vf_real__', result.integratorfxn), '__name__', '?'))
        entry = dict(climb=climb, h=h_exp, d=float(np.sqrt(((new - coord0) ** 2).sum(axis=1)).max() / h_exp),
                     out=result, used=used, climbarg=climbindex)
        if climbindex is not None and S is not None:
            entry['maxima'] = O.interior_maxima(S(coord0))
        ST.steplog.append(entry)

    monitor.observe(ISM, 'step', post_step, pre_step)

    # ---- ISMPath.relax -----------------------------------------------------
    relax_names = ('self', 'relaxsteps', 'climbsteps', 'timestep', 'tolerance', 'climbpoints', 'verbose')

    def pre_relax(args, kwargs):
        return dict(n0=len(ST.steplog))

    def post_relax(args, kwargs, result, exc, old):
        ST.last_relax = None
        if exc is not None or not isinstance(old, dict):
            return
        (self, relaxsteps, climbsteps, timestep, tolerance, climbpoints, verbose), _ = _bind(
            args, kwargs, relax_names, (0, 0, None, None, 1, True))
        N = len(self.coord)
        h = default_timestep(N) if timestep is None else timestep
        tol = default_tolerance(N) if tolerance is None else tolerance
        log = ST.steplog[old['n0']:]
        rec.count('monitor:relax')
        p1 = [e for e in log if e['climbarg'] is None]
        p2 = [e for e in log if e['climbarg'] is not None]
        rec.check(log == p1 + p2, 'relaxation steps come first, climbing steps second', 'relax:phase-order')
        rec.check(all(abs(e['h'] - h) <= 1e-13 * abs(h) for e in log), 'every step of a relaxation uses the relaxation\'s time step', 'relax:timestep')
        out = dict(h=h, tol=tol, n1=len(p1), n2=len(p2), conv1=None, conv2=None, climb=None, relaxsteps=relaxsteps,
                   climbsteps=climbsteps)
        for name, ph, budget in (('relax', p1, relaxsteps), ('climb', p2, climbsteps)):
            ds = [e['d'] for e in ph]
            # the harness recomputes d from the same coordinates: allow one ulp-level disagreement at the threshold
            edge = [abs(d - tol) <= 1e-9 * tol for d in ds]
            ok = len(ph) <= budget
            early = [j for j, d in enumerate(ds[:-1]) if d < tol and not edge[j]]
            if early:
                ok = False
            conv = bool(ds) and ds[-1] < tol
            if ds and len(ph) < budget and not conv and not edge[-1]:
                ok = False
            if not ds and budget > 0:
                ok = False
            rec.check(ok, f'the {name} loop stops at the first step whose displacement per unit time is below the tolerance, '
                          'or at the step budget', f'relax:stop-rule:{name}', steps=len(ph), budget=budget, tol=tol,
                      tail=ds[-3:], early=early[:3])
            out['conv1' if name == 'relax' else 'conv2'] = conv
        if p2:
            first = p2[0]
            out['climb'] = first['climb']
            if 'maxima' in first:
                expc = first['maxima'][:climbpoints]
                rec.check(first['climb'] == expc, 'the climbing images are the first `climbpoints` interior maxima of the energy '
                                                  'along the relaxed string', 'relax:climb-choice', got=first['climb'], expected=expc,
                          climbpoints=climbpoints)
                rec.count('monitor:relax:climb-choice')
                if len(first['maxima']) > climbpoints:
                    rec.count('monitor:relax:more-maxima-than-climbpoints')
            rec.check(all(e['climb'] == first['climb'] for e in p2), 'the same images climb throughout', 'relax:climb-constant')
        if log:
            rec.check(result is log[-1]['out'], 'relax returns the path of its last step', 'relax:returns-last')
            fn = self.integratorfxn
            wanted = getattr(fn, '_vf_method', None) or getattr(getattr(fn, '__vf_real__', fn), '__name__', '?')
            nbad = sum(e['used'] != wanted for e in log)
            rec.check(nbad == 0, 'every step of a relaxation integrates with the path\'s integratorfxn',
                      'step:integratorfxn-dropped', wanted=wanted, steps=len(log), steps_with_other_integrator=nbad)
        out['log_d_last'] = log[-1]['d'] if log else None
        ST.last_relax = out

    monitor.observe(ISM, 'relax', post_relax, pre_relax)


# ==========================================================================
# workload pieces
# ==========================================================================
def exact_gradient(fxn, coord, **kwargs):
    """User-supplied gradientfxn: the analytic gradient of the surface."""
    return fxn.grad(coord)


exact_gradient._vf_exact = True


def make_integrator_callable(mep, which):
    def integ(ratefxn, coord, timestep, **kwargs):
        integ.ncalls += 1
        return getattr(mep.integrator, which)(ratefxn, coord, timestep, **kwargs)
    integ.ncalls = 0
    integ._vf_method = which
    return integ


def check_getters(rec, path, S, key):
    """energy / grad_energy / arccoord / unittangent / force of a path against the analytic surface."""
    coord = np.asarray(path.coord, float)
    L = max(1.0, float(np.abs(coord).max()))
    rec.close(1e-13 * (1 + S.magnitude(coord)), path.energy(), S(coord), 'energy() evaluates the energy function at the images', key + ':energy')
    mid = 0.5 * (coord[1:] + coord[:-1])
    rec.close(1e-13 * (1 + S.magnitude(mid)), path.energy(mid), S(mid), 'energy(coord) evaluates the energy function at the given points',
              key + ':energy-at')
    gt = grad_tolerance(path, S, coord)
    g = path.grad_energy()
    rec.close(gt, g, S.grad(coord), 'grad_energy() is the gradient of the energy at the images', key + ':grad')
    rec.close(1e-13 * L * len(coord), path.arccoord, O.arc_coordinates(coord), 'arccoord is the cumulative chord length', key + ':arccoord')
    tau = path.unittangent
    u_ok, e_ok, c_ok = O.tangent_in_cone(coord, tau)
    rec.check(bool(u_ok.all() and e_ok and c_ok.all()),
              'unittangent: unit vectors, end chords at the ends, between the adjacent chord directions inside', key + ':tangent')
    rec.close(2 * gt * 1.5 + 1e-13, path.force, (S.grad(coord) * tau).sum(axis=1), 'force is grad E . tangent', key + ':force')


def build_path(mep, S, coord, gopt, iopt, entry, as_list):
    kw = {}
    if gopt == 'none':
        kw['gradientkwargs'] = None
    elif gopt == 'empty':
        kw['gradientkwargs'] = {}
    elif gopt == 'shift1e-4':
        kw['gradientkwargs'] = {'shift': 1e-4}
    elif gopt == 'shift1e-6':
        kw['gradientkwargs'] = {'shift': 1e-6}
    elif gopt == 'cdiff-long-name':
        kw['gradientfxn'] = 'central_difference'
    elif gopt == 'analytic-callable':
        kw['gradientfxn'] = exact_gradient
    integ = None
    if iopt in ('rk', 'rungekutta', 'euler'):
        kw['integratorfxn'] = iopt
    elif iopt.startswith('callable'):
        integ = make_integrator_callable(mep, 'euler' if iopt.endswith('euler') else 'rungekutta')
        kw['integratorfxn'] = integ
    arg = coord.tolist() if as_list else coord.copy()
    if entry == 'create_path':
        p = mep.create_path(arg, S, **kw)
    elif entry == 'ISMPath':
        p = mep.ISMPath(arg, S, **kw)
    elif entry == 'create_path-from-path':
        p = mep.create_path(mep.ISMPath(arg, S), S, **kw)
    else:
        p = mep.create_path(arg, S, style='improved_string_method', **kw)
    return p, integ, kw


def run_integrators(ctx, mep, n):
    rec = ctx.rec
    for i in ctx.cases('integrators', n):
        rng = ctx.rng
        method, kind, d, h, norm, shape = G.integrator_class(i)
        if i % 7 == 6:
            h = -h                      # backward step: the Taylor identity does not depend on the sign of h
        elif i % 193 == 100:
            h = 0.0
        A = G.gen_matrix(rng, kind, d) * norm
        fn = getattr(mep.integrator, method)
        degree = 1 if method == 'euler' else 4
        if shape == 'batch':
            y = rng.normal(size=(int(rng.integers(2, 6)), d))
        elif shape == 'batch1':                 # a batch of exactly one state
            y = rng.normal(size=(1, d))
        elif shape == 'scalar':
            y = float(rng.normal())
        elif shape == 'int':                    # integer-typed state (occupation numbers, lattice sites)
            y = rng.integers(-4, 5, d)
            if not y.any():
                y[0] = 3
        elif shape == 'float32':                # single-precision storage; the values are exact float32 numbers
            y = rng.normal(size=d).astype(np.float32)
        else:
            y = rng.normal(size=d)
        rate = G.LinearRate(A, via_kwargs=(shape == 'kwargs'), scalar=(shape == 'scalar'))
        if shape == 'list':
            arg = y.tolist()
        elif shape == 'tuple':
            arg = tuple(y.tolist())
        else:
            arg = y if shape == 'scalar' else y.copy()
        ya = np.atleast_1d(np.asarray(y, float))
        nontrivial = bool(np.abs(h * (ya @ A.T)).max() > 0)
        rec.case(('integrator', method, kind, d, h, norm, shape), nontrivial=nontrivial, fp=fingerprint(A, ya, h))
        if i < 24:
            rec.sample(dict(method=method, kind=kind, d=d, h=h, norm=norm, shape=shape, A=A, y=y))
        res = None
        with ctx.guard(f'{method} accepts a {shape} state', f'{method}:exception:{shape}'):
            if shape == 'kwargs':
                gain = float(rng.uniform(0.5, 2.0))
                rate._vf_A = (A / gain) * gain
                res = fn(rate, arg, h, A=A / gain, gain=gain)
            elif i % 5 == 3:
                res = fn(ratefxn=rate, coord=arg, timestep=h)
            else:
                res = fn(rate, arg, h)
        if res is None:
            continue
        # direct (harness-side) comparison in addition to the call monitor
        exp = O.taylor_step(rate._vf_A, ya, h, degree)
        tol = STEP_ULPS * EPS * O.step_scale(rate._vf_A, ya, h, degree)
        got = np.atleast_1d(np.asarray(res, float)) if shape == 'scalar' else res
        rec.close(tol, got, exp, f'{method} step equals (sum_k<={degree} (hA)^k/k!) y', f'{method}:taylor:direct', kind=kind, d=d, h=h, norm=norm)
        rec.check(rate.ncalls == (1 if method == 'euler' else 4) and rate.bad_kwargs == 0,
                  'the rate function is evaluated once (Euler) / four times (Runge-Kutta) and receives exactly the extra keywords',
                  f'{method}:rate-calls', ncalls=rate.ncalls, bad_kwargs=rate.bad_kwargs)
        rec.count(f'integrator:{method}:{shape}')
        rec.count(f'integrator:{method}:kind:{kind}')
        if shape in ('int', 'float32'):
            rec.check(np.asarray(res).dtype == np.float64, 'a step from an integer / single-precision state is carried out in double '
                      'precision (the Taylor identity holds to double-precision rounding)', f'{method}:dtype:{shape}', got=str(np.asarray(res).dtype))
        # ---- call history: the result is the caller's; later calls and edits of it touch nothing else -------------
        if shape in ('kwargs', 'scalar') or not isinstance(res, np.ndarray):
            continue
        keep = res.copy()
        arg_before = np.array(arg, copy=True)
        if isinstance(arg, np.ndarray):
            rec.check(not np.shares_memory(res, arg), 'the new state is a new array, not a view of the old one',
                      f'{method}:result-aliases-input')
        # (a) another rate law / state of the same sizes in between
        A2 = G.gen_matrix(rng, G.MATRIX_KINDS[(i // 2 + 3) % 8], d) * norm
        y2 = rng.normal(size=np.shape(ya) if np.ndim(y) == 1 else np.shape(y))
        with ctx.guard(f'{method} second call', f'{method}:exception:{shape}'):
            res2 = fn(G.LinearRate(A2), y2, h)
            rec.check(np.array_equal(res, keep), 'the result of an earlier integrator call is not changed by a later call',
                      f'{method}:earlier-result-overwritten', shape=shape)
            # (b) the same call again, same argument objects: same value, whatever happened in between
            res3 = fn(rate, arg, h)
            rec.check(np.array_equal(np.asarray(res3), keep), 'the same step repeated with the same arguments gives the same state',
                      f'{method}:repeat-differs', shape=shape)
            # (c) writing into a returned state changes neither the old state nor the other returned states
            keep2 = np.array(res2, copy=True)
            res3[...] = -7.0
            res[...] = 11.0
            rec.check(np.array_equal(np.array(arg), arg_before), 'writing into the returned state leaves the input state unchanged',
                      f'{method}:result-aliases-input', shape=shape)
            rec.check(np.array_equal(res2, keep2), 'a returned state is not changed by writing into other returned states',
                      f'{method}:earlier-result-overwritten', shape=shape)
            rec.count(f'history:{method}:kept-results')


def run_slopes(ctx, mep, n):
    rec = ctx.rec
    for i in ctx.cases('slopes', n):
        rng = ctx.rng
        method, kind, d, h0 = G.slope_class(i)
        order = 1 if method == 'euler' else 4
        A = G.gen_matrix(rng, kind, d)
        y = rng.normal(size=d)
        fn = getattr(mep.integrator, method)
        hs = [h0 / 2 ** j for j in range(5)]
        errs, scales = [], []
        ok = True
        for h in hs:
            rate = G.LinearRate(A)
            with ctx.guard(f'{method} step for the slope fit', f'{method}:exception:slope') as gd:
                r = fn(rate, y.copy(), h)
            if gd.exc is not None:
                ok = False
                break
            errs.append(float(np.abs(np.asarray(r, float) - O.exact_step(A, y, h)).max()))
            scales.append(O.step_scale(A, y, h, order))
        lead, _ = O.remainder_terms(A, y, h0, order)
        terms = O.taylor_terms(A, y, h0, order + 7)
        tail = float(sum(np.abs(t).max() for t in terms[order + 2:]))
        guard_ok = ok and lead > 0 and tail <= 0.2 * lead and all(e > 1e-11 * s for e, s in zip(errs, scales))
        rec.case(('slope', method, kind, d, h0), nontrivial=guard_ok, fp=fingerprint(A, y, h0))
        if i < 16:
            rec.sample(dict(method=method, kind=kind, d=d, h0=h0, errors=errs, guard=guard_ok))
        if not ok:
            continue
        if not guard_ok:
            rec.count(f'slope:{method}:exempt')
            rec.count(f'slope:exempt:kind:{kind}')
            continue
        slope = O.fit_slope(hs, errs)
        rec.check(abs(slope - (order + 1)) <= 0.3,
                  f'halving h divides the one-step error of {method} against exp(hA)y by 2^{order + 1} (fitted slope {order + 1} +- 0.3)',
                  f'{method}:slope', slope=slope, errors=errs, hs=hs, kind=kind, d=d)
        ratios = [errs[j] / errs[j + 1] for j in range(4)]
        rec.check(all(2 ** (order + 1 - 0.6) <= q <= 2 ** (order + 1 + 0.6) for q in ratios),
                  f'each halving of h reduces the {method} error by ~{2 ** (order + 1)}x', f'{method}:ratio', ratios=ratios, kind=kind)
        rec.count(f'slope:{method}:evaluated')


def run_gradients(ctx, mep, n):
    rec = ctx.rec
    cd = mep.gradient.central_difference
    for i in ctx.cases('gradients', n):
        rng = ctx.rng
        kind, shape, ndim, shiftc = G.gradient_class(i)
        F = O.SmoothFunction(rng, ndim, kind)
        p = G.gen_points(rng, shape, ndim)
        if shape == 'tuple':
            arg = tuple(tuple(r) for r in p.tolist())
        else:
            arg = p.tolist() if shape in ('list',) or (shape == 'int' and i % 2) else p
        p_before = np.array(p, copy=True)
        rec.case(('gradient', kind, shape, ndim, shiftc), nontrivial=True, fp=fingerprint(p, F.a, F.Q, F.b))
        if i < 18:
            rec.sample(dict(kind=kind, shape=shape, n=ndim, shift=shiftc, points=p))
        pf = np.asarray(p, float)
        g = None
        suffix = ':int-coord' if shape == 'int' else ''
        if shiftc == 'halvings':
            shifts = [0.2 / 2 ** j for j in range(5)]
            errs = []
            for s in shifts:
                with ctx.guard('central_difference accepts coordinates of any leading shape', 'cdiff:exception:' + shape):
                    g = cd(F, arg, shift=s)
                if g is None:
                    break
                errs.append(float(np.abs(np.asarray(g, float) - F.grad(pf)).max()))
            if len(errs) < 5:
                continue
            lead = 0.2 ** 2 / 6 * float(np.abs(F.d3(pf)).max())
            tail = 0.2 ** 4 / 120 * float(np.max(F.d5_bound(pf, 0.2)))
            rnd = float(np.max(cd_bound(F, pf, shifts[-1]) - shifts[-1] ** 4 / 120 * F.d5_bound(pf, shifts[-1])))
            guard_ok = shape != 'int' and lead > 0 and tail <= 0.2 * lead and lead / 256 > 1e3 * rnd
            if not guard_ok:
                rec.count('cdiff:slope:exempt')
                continue
            slope = O.fit_slope(shifts, errs)
            rec.check(abs(slope - 2.0) <= 0.3, 'halving the shift divides the central-difference error by ~4 (fitted slope 2 +- 0.3)',
                      'cdiff:slope', slope=slope, errors=errs, kind=kind)
            rec.count('cdiff:slope:evaluated')
            continue
        with ctx.guard('central_difference accepts coordinates of any leading shape', 'cdiff:exception:' + shape):
            if shiftc == 'default':
                g, s = cd(F, arg), 1e-5
            elif shiftc == 'kw1e-3':
                g, s = cd(F, arg, shift=1e-3), 1e-3
            elif shiftc == 'pos1e-2':
                g, s = cd(F, arg, 1e-2), 1e-2
            else:
                g, s = cd(fxn=F, coord=arg, shift=1e-4), 1e-4
        if g is None:
            continue
        g = np.asarray(g)
        if rec.check(g.shape == pf.shape, 'gradient array has the same shape as coord', 'cdiff:shape:direct' + suffix):
            bound = s ** 2 / 6 * np.abs(F.d3(pf)) + cd_bound(F, pf, s)
            err = np.abs(g.astype(float) - F.grad(pf))
            rec.check(bool(np.all(err <= bound)), 'central difference agrees with the analytic gradient to second order in the shift '
                                                  '(|error| <= shift^2/6 |f\'\'\'| + shift^4/120 |f^(5)| + rounding)',
                      ('cdiff:value:int-coord' if suffix else 'cdiff:value:direct'), max_err=float(err.max()), bound=float(bound.max()), shift=s, kind=kind, shape=shape)
        rec.count('gradient:shape:' + shape)
        rec.count('gradient:kind:' + kind)
        if shape == 'float32':
            rec.check(g.dtype == np.float64, 'the gradient at single-precision points is computed and returned in double precision',
                      'cdiff:dtype:float32', got=str(g.dtype))
        # ---- call history ------------------------------------------------------------------------------------------
        rec.check(np.array_equal(np.asarray(arg), p_before) and np.asarray(arg).dtype == p_before.dtype,
                  'central_difference leaves the coordinates it was given unchanged', 'cdiff:input-mutated', shape=shape)
        if isinstance(arg, np.ndarray):
            rec.check(not np.shares_memory(g, arg), 'the gradient is a new array, not a view of the coordinates', 'cdiff:result-aliases-input')
        keep = g.copy()
        F2 = O.SmoothFunction(rng, ndim, G.FUNC_KINDS[(i + 2) % 5])
        p2 = rng.uniform(-1.5, 1.5, pf.shape)
        with ctx.guard('central_difference second call', 'cdiff:exception:' + shape):
            g2 = np.asarray(cd(F2, p2, s))                   # same sizes, other function, other points
            rec.check(np.array_equal(g, keep), 'the gradient returned by an earlier call is not changed by a later call',
                      'cdiff:earlier-result-overwritten', shape=shape)
            g3 = np.asarray(cd(F, arg, s))
            rec.check(np.array_equal(g3, keep), 'the same gradient call repeated with the same arguments gives the same values',
                      'cdiff:repeat-differs', shape=shape)
            keep2 = np.array(g2, copy=True)
            arg_now = np.array(arg, copy=True)
            if g3.flags.writeable:
                g3[...] = 5.0
            rec.check(np.array_equal(g2, keep2) and np.array_equal(np.asarray(arg), arg_now),
                      'writing into a returned gradient changes neither another returned gradient nor the coordinates',
                      'cdiff:earlier-result-overwritten', shape=shape)
            rec.count('history:cdiff:kept-results')


def run_steps(ctx, mep, n):
    rec = ctx.rec
    for i in ctx.cases('steps', n):
        rng = ctx.rng
        ST.steplog = []
        n_img, init, climbc, iopt, tsc = G.step_class(i)
        k, c = G.gen_surface_params(rng)
        S = O.TwoMinimum(k, c)
        S._vf_shift = 1e-5                      # requested: the default of central_difference
        coord = G.gen_string(rng, n_img, init, c)
        rec.case(('step', n_img, init, climbc, iopt, tsc), nontrivial=True, fp=fingerprint(coord, k, c))
        if i < 12:
            rec.sample(dict(images=n_img, init=init, climbindex=climbc, integrator=iopt, k=k, c=c, coord0=coord[:3]))
        kw = {} if iopt == 'omitted' else {'integratorfxn': iopt}
        p = None
        with ctx.guard('a path can be created with default options', 'create:exception'):
            form = G.COORD_FORMS[(i // 2) % 4]
            carg = coord.tolist() if form == 'list' else (tuple(tuple(r) for r in coord.tolist()) if form == 'tuple' else coord.copy())
            p = mep.create_path(carg, S, **kw)
        if p is None:
            continue
        rec.count('steps:coord-form:' + form)
        rec.count('steps:images:%d' % n_img)
        j = int(rng.integers(2, n_img - 4)) if n_img >= 8 else 1 + (n_img == 7) * int(rng.integers(0, 2))
        climb = {'none': None, 'int': j, 'list1': [j], 'list2': [j, j + 2], 'array1': np.array([j]), 'npint': np.int64(j)}[climbc]
        h = None if tsc == 'default' else float(rng.uniform(0.2, 1.0) / S.max_curvature(BOX, 9))
        before = len(ST.steplog)
        with ctx.guard(f'step(climbindex={climbc})', f'step:exception:{climbc}'):
            args = {}
            if h is not None:
                args['timestep'] = h
            if climb is not None:
                args['climbindex'] = climb
            if i % 4 == 1 and h is not None:
                q = p.step(h, climb)
            else:
                q = p.step(**args)
            rec.check(len(ST.steplog) == before + 1, 'the step monitor observed the call', 'harness:step-monitor')
            check_getters(rec, q, S, 'getters')
            rec.count('steps:climb:' + climbc)
            if isinstance(carg, np.ndarray):
                rec.check(np.array_equal(carg, coord), 'a step leaves the coordinate array the path was built from unchanged',
                          'step:input-mutated')


def run_climbpoints(ctx, mep, n):
    """Unrelaxed wavy strings with several energy maxima: which images climb."""
    rec = ctx.rec
    for i in ctx.cases('climbpoints', n):
        rng = ctx.rng
        ST.steplog = []
        n_img = (15, 21, 31, 24)[i % 4]
        cp = (1, 2, 3)[(i // 4 + i) % 3]
        rs = (0, 2)[(i // 2) % 2]
        k, c = G.gen_surface_params(rng)
        S = O.TwoMinimum(k, c)
        S._vf_shift = 1e-5
        t = np.linspace(0, 1, n_img)
        coord = np.stack([-1.1 + 2.2 * t + 0.05 * np.sin(np.pi * t), rng.uniform(0.5, 0.8) * np.sin(3 * np.pi * t + rng.uniform(-0.3, 0.3))], axis=1)
        rec.case(('climbpoints', n_img, cp, rs), nontrivial=True, fp=fingerprint(coord, k, c))
        with ctx.guard('relax with a few climbing steps', 'relax:exception:climbpoints'):
            p = mep.create_path(coord, S)
            h = 0.5 / S.max_curvature(BOX, 9)
            p.relax(relaxsteps=rs, climbsteps=3, timestep=h, tolerance=1e-12, climbpoints=cp, verbose=False)


def run_relaxations(ctx, mep, n):
    rec = ctx.rec
    for i in ctx.cases('relax', n):
        rng = ctx.rng
        ST.steplog = []
        ST.last_relax = None
        n_img, init, gopt, iopt, tsc, tolc, entry = G.relax_class(i)
        if tsc == 'default' and tolc == '1e-8':
            tolc = '1e-6'
        k, c = G.gen_surface_params(rng)
        S = O.TwoMinimum(k, c)
        S._vf_shift = {'shift1e-4': 1e-4, 'shift1e-6': 1e-6}.get(gopt, 1e-5)   # the shift that was asked for
        coord = G.gen_string(rng, n_img, init, c)
        cur = S.curvatures()
        Lam = S.max_curvature(BOX, 13)
        h = None if tsc == 'default' else float(tsc[2:]) / Lam
        tol = None if tolc == 'default' else float(tolc)
        h_eff = default_timestep(n_img) if h is None else h
        tol_eff = default_tolerance(n_img) if tol is None else tol
        slow = min(cur['min_lo'], cur['sad_pos'], cur['sad_neg'])
        budget = int(math.ceil(6.0 * math.log(2.0 / tol_eff) / (slow * h_eff)))
        climbing = (i % 5 != 4)
        verbose = (i % 11 == 0)
        e0 = S(coord)
        d_end0 = min(np.abs(coord[0] - S.minima[0]).max(), np.abs(coord[-1] - S.minima[1]).max())
        d_top0 = float(np.sqrt(((coord - S.saddle) ** 2).sum(axis=1)).min())
        rec.case(('relax', n_img, init, gopt, iopt, tsc, tolc, entry, 'climb' if climbing else 'noclimb'),
                 nontrivial=bool(d_end0 >= 0.01 and d_top0 >= 0.03), fp=fingerprint(coord, k, c, tsc, tolc))
        if i < 16:
            rec.sample(dict(images=n_img, init=init, gradient=gopt, integrator=iopt, timestep=tsc, tolerance=tolc, entry=entry,
                            k=k, c=c, h=h_eff, tol=tol_eff, budget=budget, ends0=[coord[0], coord[-1]]))
        p = integ = None
        with ctx.guard(f'a path can be created ({entry}; gradient option {gopt}; integrator option {iopt})', f'create:exception:{gopt}'):
            p, integ, kw = build_path(mep, S, coord, gopt, iopt, entry, as_list=(i % 3 == 0))
        if p is None:
            continue
        rec.count('relax:gradient-option:' + gopt)
        rec.count('relax:integrator-option:' + iopt)
        # construction clauses
        rec.check(p.energyfxn is S, 'the path stores the energy function', 'create:energyfxn')
        exp_shift = {'shift1e-4': {'shift': 1e-4}, 'shift1e-6': {'shift': 1e-6}}.get(gopt, {})
        rec.check(p.gradientkwargs == exp_shift, 'gradientkwargs omitted/None/{} mean "no extra settings"; a dict is kept', 'create:gradientkwargs',
                  got=p.gradientkwargs, option=gopt)
        rec.close(0.0, p.default_timestep, default_timestep(n_img), 'default time step is 0.05*min(0.2, 1/N)', 'create:default-timestep', rtol=1e-13)
        rec.close(0.0, p.default_tolerance, default_tolerance(n_img), 'default tolerance is max(N^-4, 1e-10)', 'create:default-tolerance', rtol=1e-13)
        rec.close(0.0, p.coord, coord, 'the path holds the given coordinates', 'create:coord')
        if i % 4 == 0:
            check_getters(rec, p, S, 'getters')
        args = dict(relaxsteps=budget, climbsteps=budget if climbing else 0, verbose=verbose)
        if h is not None:
            args['timestep'] = h
        if tol is not None:
            args['tolerance'] = tol
        q = None
        with ctx.guard('relax on an in-domain string', f'relax:exception:{iopt}'):
            if verbose:
                buf = io.StringIO()
                with contextlib.redirect_stdout(buf):
                    q = p.relax(**args)
                rec.count('relax:verbose')
            else:
                q = p.relax(**args)
        if q is None:
            continue
        info = ST.last_relax
        if not rec.check(info is not None, 'the relax monitor observed the call', 'harness:relax-monitor'):
            continue
        rec.count('relax:steps', info['n1'] + info['n2'])
        if integ is not None:
            rec.check(integ.ncalls >= info['n1'] + info['n2'], 'a user-supplied integrator performs every step of the relaxation',
                      'step:integratorfxn-dropped', integrator_calls=integ.ncalls, steps=info['n1'] + info['n2'])
        judge_relaxed(rec, S, q, info, e0, climbing, tol_eff, n_img)


def judge_relaxed(rec, S, q, info, e0, climbing, tol_eff, n_img, K='relax'):
    """Outcome clauses of one relaxation (q = returned path, info = what the relax monitor saw)."""
    k, c = S.k, S.c
    cur = S.curvatures()
    qc = np.asarray(q.coord, float)
    gt = grad_tolerance(q, S, qc)
    ends = np.array([qc[0], qc[-1]])
    dist_e = np.abs(ends - S.minima).max()
    converged = bool(info['conv2']) if climbing else bool(info['conv1'])
    # whatever happened, the ends must be in their own basins and not higher than they started
    rec.check(qc[0, 0] < -0.5 and qc[-1, 0] > 0.5 and S(qc[0]) <= e0[0] + 1e-12 and S(qc[-1]) <= e0[-1] + 1e-12,
              'the end images stay in their basins and do not gain energy', K + ':ends-basin', ends=ends)
    if not converged:
        rec.count(K + ':exempt:budget-exhausted')
        return False
    rec.count(K + ':converged')
    rate_b = 2.5 * tol_eff + gt
    b_end = rate_b / cur['min_lo'] + 1e-12
    rec.check(dist_e <= b_end, 'after relax the end images are at the minima (+-1, 0) (within (2.5 tol + gradient error)/lowest curvature)',
              K + ':ends', dist=float(dist_e), bound=b_end, tol=tol_eff, k=k, c=c, N=n_img)
    rec.close(2 * rate_b, S.grad(ends), np.zeros((2, 2)), 'the energy gradient vanishes at the relaxed end images', K + ':ends-gradient')
    en = S(qc)
    top = int(np.argmax(en))
    if climbing:
        cl = info['climb']
        if not rec.check(cl is not None and len(cl) == 1, 'exactly one image climbs on a two-minimum surface', K + ':one-climber', climb=cl):
            return False
        ci = cl[0]
        rec.check(top == ci, 'the climbing image is the highest image of the relaxed string', K + ':top-is-climber', top=top, climber=ci)
        b_sad = rate_b / min(cur['sad_neg'], cur['sad_pos']) + 1e-12
        dist_s = float(np.abs(qc[ci] - S.saddle).max())
        rec.check(dist_s <= b_sad, 'with climbing the highest image is at the saddle (0, -c)', K + ':saddle', dist=dist_s, bound=b_sad,
                  tol=tol_eff, k=k, c=c, N=n_img, image=qc[ci])
        gn = float(np.sqrt((S.grad(qc[ci]) ** 2).sum()))
        rec.check(gn <= 2 * rate_b, 'the gradient vanishes at the climbing image', K + ':saddle-gradient', grad=gn, bound=2 * rate_b)
        b_E = 0.5 * max(cur['sad_neg'], cur['sad_pos']) * 2 * b_sad ** 2 + 1e-13
        rec.check(abs(en[ci] - 1.0) <= b_E, 'the energy of the climbing image equals the barrier 1', K + ':barrier', E=float(en[ci]), bound=b_E)
        rec.check(abs(float(np.max(q.energy())) - 1.0) <= b_E, 'max of path.energy() equals the barrier', K + ':barrier-reported')
        rec.count(K + ':converged:climbing')
        if max(b_end, b_sad) <= 1e-3:
            rec.count(K + ':converged:bounds<=1e-3')
    else:
        # without climbing the string still straddles the ridge: its top image is within one image spacing of the saddle along x
        sp = float(np.diff(O.arc_coordinates(qc)).max())
        rec.check(abs(qc[top, 0]) <= sp, 'without climbing the highest image is within one image spacing of the ridge x=0',
                  K + ':noclimb-top', x=float(qc[top, 0]), spacing=sp)
        rec.count(K + ':converged:noclimb')
    # the relaxed string is evenly spaced in each segment up to the curvature of the polyline
    seg = np.diff(O.arc_coordinates(qc))
    th = O.turning_angles(qc)
    parts = [(0, len(seg))] if not climbing else [(0, info['climb'][0]), (info['climb'][0], len(seg))]
    worst = max((seg[a:b].max() / seg[a:b].min() - 1.0) for a, b in parts if b > a)
    rec.check(worst <= 0.02 + 0.5 * float(th.max()) ** 2,
              'images of the relaxed string are evenly spaced in arc length within each segment (up to the polyline curvature)',
              K + ':even-spacing', worst=float(worst), max_turning_angle=float(th.max()), N=n_img)
    check_getters(rec, q, S, 'getters:relaxed' + K[5:])
    return True


def build_entry(mep, entry, coord, S, alt, **kw):
    """One default-style construction through the named entry point."""
    if entry == 'ISMPath':
        return mep.ISMPath(coord, S, **kw)
    if entry == 'BasePath':
        return mep.BasePath(coord, S, **kw)
    if entry == 'create_path':
        return mep.create_path(coord, S, **kw)
    if entry == 'create_path-style-long':
        return mep.create_path(coord, S, style='improved_string_method', **kw)
    if entry == 'create_path-from-path':
        return mep.create_path(mep.ISMPath(coord, S, **kw), S, **kw)
    if entry == 'deepcopy':                      # a copy / a pickle round trip of a freshly built path
        p0 = mep.ISMPath(coord, S, **kw)
        return pickle.loads(pickle.dumps(p0)) if alt else copy.deepcopy(p0)
    raise ValueError(entry)


def judge_default_path(rec, B, S, coord, entry, when):
    """A path built WITHOUT gradient settings differentiates with the defaults of central_difference (shift 1e-5),
    whatever was done to other paths before or after."""
    rec.check(B.gradientkwargs == {}, 'a path built without gradient settings has none, whatever was done to other paths',
              f'leak:{entry}:gradientkwargs', got=dict(B.gradientkwargs), when=when)
    mid = 0.5 * (coord[1:] + coord[:-1])
    for pts, what in ((None, 'images'), (mid, 'given points')):
        ref = coord if pts is None else pts
        tol = grad_tolerance(B, S, ref)                     # from the requested (default) shift
        g = B.grad_energy() if pts is None else B.grad_energy(pts)
        rec.close(tol, g, S.grad(ref), f'grad_energy of a default path is the analytic gradient at the {what} to second order in the '
                  'default shift 1e-5', f'leak:{entry}:grad', when=when)
    rec.close(1e-13 * (1 + S.magnitude(coord)), B.energy(), S(coord), 'energy() evaluates the path\'s own energy function', f'leak:{entry}:energy')
    rec.count(f'history:default-judged:{when}')


def run_histories(ctx, mep, n):
    """State kept between path instances: default path B0 (results kept) -> path A customised / edited in place ->
    default path B1; B1 and B0 are judged against the analytic surface with the DEFAULT gradient settings."""
    rec = ctx.rec
    for i in ctx.cases('histories', n):
        rng = ctx.rng
        ST.steplog = []
        ST.last_relax = None
        entry, kind, s_edit, n_img = G.history_class(i)
        ism = entry != 'BasePath'
        if kind == 'edit-child' and not ism:
            kind = 'edit-default'                   # BasePath cannot step: the edit goes to the path itself
        alt = bool((i // 6) % 2)
        surf, strings = [], []
        for j in range(3):
            S = O.TwoMinimum(float(rng.uniform(2.0, 4.0)), float(rng.uniform(-0.6, 0.6)))
            S._vf_shift = 1e-5
            surf.append(S)
            strings.append(G.gen_string(rng, n_img, G.INITIAL[(i + j) % 4], S.c))
        rec.case(('history', entry, kind, s_edit, n_img), nontrivial=True,
                 fp=fingerprint(*strings, *[S.k for S in surf], *[S.c for S in surf]))
        if i < 8:
            rec.sample(dict(entry=entry, history=kind, shift_written=s_edit, images=n_img, k=[S.k for S in surf], c=[S.c for S in surf]))
        kwB = {'gradientkwargs': None} if kind == 'edit-none' else {}
        kwA = {'gradientkwargs': {'shift': s_edit}} if kind == 'custom-then-default' else dict(kwB)
        hs = [float(rng.uniform(0.5, 1.0)) / S.max_curvature(BOX, 9) for S in surf]
        short = dict(relaxsteps=3, climbsteps=2, tolerance=1e-12, verbose=False)
        with ctx.guard('paths are built, used and edited one after the other', f'history:exception:{entry}'):
            # ---- 1. default path B0; its results are kept ---------------------------------------------------------
            B0 = build_entry(mep, entry, strings[0].copy(), surf[0], alt, **kwB)
            S0 = B0.energyfxn                       # (the copy entry point carries a copy of the surface)
            judge_default_path(rec, B0, S0, strings[0], entry, 'before')
            g0 = B0.grad_energy()
            g0_keep = np.array(g0, copy=True)
            if ism:
                q0 = B0.step(timestep=hs[0])
                q0_keep = np.array(q0.coord, copy=True)
                r0 = B0.relax(timestep=hs[0], **short)
                r0_keep = np.array(r0.coord, copy=True)
            # ---- 2. path A on another surface, customised --------------------------------------------------------
            if kind == 'custom-then-default':
                surf[1]._vf_shift = s_edit
            A = build_entry(mep, entry, strings[1].copy(), surf[1], alt, **kwA)
            S1 = A.energyfxn
            S1._vf_shift = surf[1]._vf_shift
            target = A
            if kind == 'edit-child':
                target = A.step(timestep=hs[1])     # settings travel with the returned path; edit them there
            if kind != 'custom-then-default':
                target.gradientkwargs['shift'] = s_edit
                S1._vf_shift = s_edit
            tc = np.asarray(target.coord, float)
            rec.close(grad_tolerance(target, S1, tc), target.grad_energy(), S1.grad(tc),
                      'the customised path differentiates to second order in the shift it was given', f'history:{entry}:customised-grad',
                      shift=s_edit, kind=kind)
            if ism:
                check_getters(rec, target, S1, 'getters:customised')
                target.relax(timestep=hs[1], **short)
            rec.count('history:kind:' + kind)
            rec.count('history:entry:' + entry)
            # ---- 3. default path B1 on a third surface, built after the customisation -----------------------------
            B1 = build_entry(mep, entry, strings[2].copy(), surf[2], alt, **kwB)
            S2 = B1.energyfxn
            judge_default_path(rec, B1, S2, strings[2], entry, 'after')
            # ---- 4. re-judge B0: kept results untouched, same calls give the same values ---------------------------
            judge_default_path(rec, B0, S0, strings[0], entry, 'earlier-path')
            rec.check(np.array_equal(g0, g0_keep), 'a gradient array handed out earlier is not changed by later work on other paths',
                      f'history:{entry}:kept-result-changed', what='grad_energy')
            rec.check(np.array_equal(B0.grad_energy(), g0_keep), 'the same path gives the same gradient again after other paths were '
                      'built, edited and relaxed', f'history:{entry}:repeat-differs', what='grad_energy')
            if ism:
                rec.check(np.array_equal(q0.coord, q0_keep) and np.array_equal(r0.coord, r0_keep),
                          'paths returned earlier by step/relax are not changed by later work on other paths',
                          f'history:{entry}:kept-result-changed', what='step/relax')
                rec.check(np.array_equal(B0.step(timestep=hs[0]).coord, q0_keep), 'the same step from the same path gives the same string '
                          'again', f'history:{entry}:repeat-differs', what='step')
                rec.check(np.array_equal(B0.relax(timestep=hs[0], **short).coord, r0_keep), 'the same relaxation from the same path '
                          'gives the same string again', f'history:{entry}:repeat-differs', what='relax')
                rec.count('history:repeat-judged')
            # ---- 5. B1 relaxes onto the minima and the saddle of ITS surface --------------------------------------
            if not ism:
                continue
            cur = S2.curvatures()
            tol = 1e-5
            h = 1.0 / S2.max_curvature(BOX, 13)
            budget = int(math.ceil(6.0 * math.log(2.0 / tol) / (min(cur['min_lo'], cur['sad_pos'], cur['sad_neg']) * h)))
            ST.last_relax = None
            q = B1.relax(relaxsteps=budget, climbsteps=budget, timestep=h, tolerance=tol, verbose=False)
            info = ST.last_relax
            if rec.check(info is not None, 'the relax monitor observed the call', 'harness:relax-monitor'):
                rec.count('history:relax-steps', info['n1'] + info['n2'])
                judge_relaxed(rec, S2, q, info, S2(strings[2]), True, tol, n_img, K='relax-after-edit')
                rec.check(B1.gradientkwargs == {} and q.gradientkwargs == {}, 'relaxing a default path leaves it (and the returned path) '
                          'without gradient settings', f'leak:{entry}:gradientkwargs', when='relaxed')


def run(ctx):
    import atomman  # noqa: F401
    from atomman import mep
    rec = ctx.rec
    O.selfcheck()
    files = ['atomman/mep/ISMPath.py', 'atomman/mep/BasePath.py', 'atomman/mep/integrator/euler.py',
             'atomman/mep/integrator/rungekutta.py', 'atomman/mep/gradient/central_difference.py']
    cover.start(files)
    install_monitors(rec, mep)

    import time
    for name, fn, nq, nt in (('integrators', run_integrators, 768, 19200), ('slopes', run_slopes, 288, 5760),
                             ('gradients', run_gradients, 360, 7200), ('steps', run_steps, 96, 1920),
                             ('climbpoints', run_climbpoints, 24, 240), ('histories', run_histories, 48, 480),
                             ('relax', run_relaxations, 84, 504)):
        t0 = time.process_time()
        fn(ctx, mep, ctx.pick(nq, nt))
        rec.count('cpu_ms:' + name, int(1000 * (time.process_time() - t0)))

    for k_, v_ in monitor.calls.items():
        if isinstance(v_, int):
            rec.count('monitor_calls:' + k_, v_)
    # anchored-line reach
    rec.count('reach:ISMPath.step', cover.hits('atomman/mep/ISMPath.py', 106, 161))
    rec.count('reach:ISMPath.step:climb-branch', cover.hits('atomman/mep/ISMPath.py', 127, 136))
    rec.count('reach:ISMPath.relax', cover.hits('atomman/mep/ISMPath.py', 202, 288))
    rec.count('reach:ISMPath.relax:break', cover.hits('atomman/mep/ISMPath.py', 238, 238) + cover.hits('atomman/mep/ISMPath.py', 277, 277))
    rec.count('reach:ISMPath.relax:climbpoints-cut', cover.hits('atomman/mep/ISMPath.py', 255, 255))
    rec.count('reach:BasePath.gradientkwargs-None', cover.hits('atomman/mep/BasePath.py', 64, 64))
    rec.count('reach:BasePath.gradientkwargs-dict', cover.hits('atomman/mep/BasePath.py', 66, 66))
    rec.count('reach:euler', cover.hits('atomman/mep/integrator/euler.py', 34, 34))
    rec.count('reach:rungekutta', cover.hits('atomman/mep/integrator/rungekutta.py', 34, 39))
    rec.count('reach:central_difference', cover.hits('atomman/mep/gradient/central_difference.py', 35, 57))

    for name, m in (('monitor:euler:linear-steps', 300), ('monitor:rungekutta:linear-steps', 300),
                    ('slope:euler:evaluated', 60), ('slope:rungekutta:evaluated', 60),
                    ('monitor:cdiff:evaluated', 200), ('monitor:cdiff:evaluated:int-coord', 20), ('cdiff:slope:evaluated', 30),
                    ('monitor:step', 2000), ('monitor:step:climbing', 500), ('monitor:relax', 80),
                    ('monitor:relax:climb-choice', 60), ('monitor:relax:more-maxima-than-climbpoints', 8),
                    ('relax:converged', 60), ('relax:converged:climbing', 45), ('relax:converged:noclimb', 10),
                    ('relax:converged:bounds<=1e-3', 45),
                    ('relax:gradient-option:omitted', 8), ('relax:gradient-option:none', 8), ('relax:gradient-option:empty', 8),
                    ('relax:gradient-option:shift1e-4', 8), ('relax:gradient-option:analytic-callable', 8),
                    ('relax:integrator-option:omitted', 8), ('relax:integrator-option:euler', 8), ('relax:integrator-option:rk', 8),
                    ('relax:integrator-option:callable-euler', 8),
                    ('steps:climb:list2', 10), ('steps:climb:int', 10), ('steps:climb:none', 10),
                    ('integrator:euler:kwargs', 20), ('integrator:rungekutta:kwargs', 20), ('integrator:euler:list', 20),
                    ('integrator:rungekutta:batch', 20), ('gradient:shape:abn', 20), ('gradient:shape:list', 20), ('gradient:shape:int', 20),
                    ('history:default-judged:before', 40), ('history:default-judged:after', 40), ('history:default-judged:earlier-path', 40),
                    ('history:repeat-judged', 30), ('relax-after-edit:converged', 30), ('relax-after-edit:converged:climbing', 30),
                    ('history:entry:ISMPath', 6), ('history:entry:create_path', 6), ('history:entry:BasePath', 6),
                    ('history:entry:create_path-style-long', 6), ('history:entry:create_path-from-path', 6), ('history:entry:deepcopy', 6),
                    ('history:kind:edit-default', 8), ('history:kind:edit-none', 8), ('history:kind:custom-then-default', 8),
                    ('history:kind:edit-child', 8),
                    ('history:euler:kept-results', 250), ('history:rungekutta:kept-results', 250), ('history:cdiff:kept-results', 200),
                    ('integrator:euler:int', 20), ('integrator:rungekutta:int', 20), ('integrator:euler:float32', 20),
                    ('integrator:rungekutta:float32', 20), ('integrator:euler:tuple', 20), ('integrator:rungekutta:tuple', 20),
                    ('integrator:euler:batch1', 20), ('integrator:rungekutta:batch1', 20), ('integrator:euler:scalar', 5),
                    ('integrator:rungekutta:scalar', 5), ('gradient:shape:float32', 20), ('gradient:shape:tuple', 20),
                    ('steps:images:5', 5), ('steps:images:7', 5), ('steps:coord-form:list', 15), ('steps:coord-form:tuple', 15),
                    ('reach:ISMPath.step', 8), ('reach:ISMPath.step:climb-branch', 8), ('reach:ISMPath.relax', 8),
                    ('reach:ISMPath.relax:break', 8), ('reach:ISMPath.relax:climbpoints-cut', 1),
                    ('reach:BasePath.gradientkwargs-None', 1), ('reach:BasePath.gradientkwargs-dict', 1),
                    ('reach:euler', 1), ('reach:rungekutta', 1), ('reach:central_difference', 1)):
        rec.floor(name, m)
