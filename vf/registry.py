"""Per-property run configuration (flavours, shards, seeds, watchdogs)."""

NATIVE = {'C02', 'C03', 'C17'}          # properties that execute Cython code directly


def config(prop: str, tier: str) -> dict:
    native = prop in NATIVE
    if tier == 'quick':
        c = dict(flavours=['plain', 'checked'] if native else ['plain'],
                 shards=8, seeds=1, timeout=600)
    else:
        c = dict(flavours=['plain', 'checked', 'asan'] if native else ['plain'],
                 shards=16, seeds=3, timeout=3600)
    c.update(OVERRIDES.get((prop, tier), {}))
    # a property module may carry its own settings: CONFIG = {'quick': {...}, 'thorough': {...}}
    try:
        import importlib
        mod = importlib.import_module('vf.props.' + prop.lower())
        c.update(getattr(mod, 'CONFIG', {}).get(tier, {}))
    except ImportError:
        pass
    return c


# individual adjustments (filled in as modules are tuned)
OVERRIDES = {
}

TITLES = {}
