"""``python -m vf.replay <path>``: rebuild the shadow from /repo's current tree
and re-evaluate exactly the recorded case (same seed, group and index)."""
from __future__ import annotations

import json
import sys

from . import check


def main(argv=None):
    argv = argv or sys.argv[1:]
    doc = json.loads(open(argv[0]).read())
    first = doc['first']
    print('replaying', doc['property'], 'key=', doc['key'], 'group=', first.get('group'), 'case=', first.get('case'),
          'seed=', first.get('seed'), 'tier=', first.get('tier'))
    print('recorded detail:', json.dumps(first.get('detail'))[:3000])
    if first.get('group') is None or first.get('case') is None:
        print('no single case recorded (sanitizer/crash report): re-run the whole check')
        return check.main([doc['property'], '--tier', first.get('tier', 'quick'), '--seed', str(first.get('seed', 0)),
                           '--no-evidence'])
    args = [doc['property'], '--tier', first['tier'], '--seed', str(first['seed']),
            '--only', f"{first['group']}:{first['case']}", '--no-evidence']
    if first.get('flavour') and first['flavour'] != 'plain':
        args += ['--flavour', first['flavour']]
    return check.main(args)


if __name__ == '__main__':
    sys.exit(main())
