"""The repository's own test-suite as an extra workload: after a property module's own workload has run (its
monitors are then installed on the real entry points), the tests under /repo/tests are executed in the same worker
process, so every call the tests make into a monitored function is judged by the same postconditions.

Only modules that declare ``REPOTESTS = True`` take part: their monitors must be self-sufficient (judge a call from
its arguments and result alone, no harness-provided ground truth).  The group runs once per check (thorough tier,
plain flavour, shard 0, first seed) as case ``repotests:0``; a violation recorded during it carries the pytest node
id in its ``context``.  A failing repository test is counted, not judged (the properties say nothing about it).
"""
from __future__ import annotations

import io
import os
import contextlib
from pathlib import Path

from . import monitor

TESTS = Path(os.environ.get('VF_REPO_TESTS', '/repo/tests'))


class _Plugin:
    def __init__(self, rec):
        self.rec = rec

    def pytest_runtest_logstart(self, nodeid, location):
        self.rec.context = nodeid

    def pytest_runtest_logreport(self, report):
        if report.when == 'call':
            self.rec.count('repotests:' + report.outcome)
        elif report.when == 'setup' and report.outcome == 'skipped':
            self.rec.count('repotests:skipped')

    def pytest_runtest_logfinish(self, nodeid, location):
        self.rec.context = None


def run(ctx):
    rec = ctx.rec
    for _ in ctx.cases('repotests', 1):
        import pytest
        before = {k: v for k, v in monitor.calls.items() if isinstance(v, int)}
        clauses_before = sum(v for k, v in rec.counters.items() if k.startswith('clause:'))
        viol_before = rec.n_violations
        buf = io.StringIO()
        cwd = os.getcwd()
        try:
            with contextlib.redirect_stdout(buf), contextlib.redirect_stderr(buf):
                rc = pytest.main(['-q', '-p', 'no:cacheprovider', '-W', 'ignore', '--rootdir', str(TESTS.parent),
                                  '-o', 'addopts=', str(TESTS)], plugins=[_Plugin(rec)])
        finally:
            os.chdir(cwd)
            rec.context = None
        rec.count('repotests:exit-status', int(rc))
        total = 0
        for k, v in monitor.calls.items():
            if isinstance(v, int) and not k.endswith('_error'):
                d = v - before.get(k, 0)
                if d > 0:
                    rec.count('repotests:monitor_calls:' + k, d)
                    total += d
        rec.count('repotests:monitor_calls_total', total)
        rec.count('repotests:clauses_evaluated', sum(v for k, v in rec.counters.items() if k.startswith('clause:')) - clauses_before)
        rec.count('repotests:violations', rec.n_violations - viol_before)
        rec.floor('repotests:monitor_calls_total', 1)
        rec.case(('repotests',), nontrivial=total > 0, fp='repotests')
        rec.sample(dict(workload='repository test-suite under the installed monitors', pytest_exit=int(rc),
                        monitored_calls=total, tail=buf.getvalue()[-300:]), group='repotests')
