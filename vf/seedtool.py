"""Confirm and file a seeded property-breaking change produced by an independent agent.

  python -m vf.seedtool ingest /tmp/seed/C05/out/1 --prop C05 --id C05-1

In a fresh scratch worktree of /repo (outside /repo and /verif, removed afterwards):
  clean tree   -> repo tests pass, demo exits 0
  patched tree -> repo tests pass, demo exits non-zero
Only then is it copied to /verif/seeded/<id>/ (patch.diff, demo.py, notes.md, meta.json).
"""
from __future__ import annotations

import argparse
import json
import os
import shutil
import subprocess
import sys
import tempfile
from pathlib import Path

VERIF = Path(__file__).resolve().parent.parent
PY = sys.executable


def sh(cmd, cwd, timeout=1800):
    env = dict(os.environ)
    env.pop('ATOMMAN_VERIF', None)
    env.pop('PYTHONPATH', None)
    r = subprocess.run(cmd, cwd=cwd, capture_output=True, text=True, timeout=timeout, env=env)
    return r.returncode, (r.stdout + r.stderr)


def tests(wt):
    rc, out = sh([PY, '-m', 'pytest', '-q', '-p', 'no:cacheprovider', '-x', 'tests'], wt)
    tail = (out.strip().splitlines() or ['?'])[-1]
    return rc == 0, tail


def build(wt):
    rc, out = sh([PY, 'setup.py', '-q', 'build_ext', '--inplace'], wt)
    shutil.rmtree(Path(wt) / 'build', ignore_errors=True)
    if rc != 0:
        raise RuntimeError('build failed: ' + out[-800:])


def validate(src: Path):
    wt = Path(tempfile.mkdtemp(prefix='vf-seedwt-'))
    wt.rmdir()
    rc, out = sh(['git', '-C', '/repo', 'worktree', 'add', '-q', '--detach', str(wt), 'HEAD'], '/')
    if rc != 0:
        raise RuntimeError(out)
    res = {}
    try:
        build(wt)
        shutil.copy(src / 'demo.py', wt / '_demo.py')
        res['clean_tests'], res['clean_tests_tail'] = tests(wt)
        rc, out = sh([PY, '-W', 'ignore', '_demo.py'], wt, 900)
        res['clean_demo_rc'] = rc
        res['clean_demo_tail'] = out[-400:]
        rc, out = sh(['git', 'apply', str(src / 'patch.diff')], wt)
        if rc != 0:
            res['apply_error'] = out[-500:]
            return res
        if '.pyx' in (src / 'patch.diff').read_text() or '.pxd' in (src / 'patch.diff').read_text():
            build(wt)
        res['patched_tests'], res['patched_tests_tail'] = tests(wt)
        rc, out = sh([PY, '-W', 'ignore', '_demo.py'], wt, 900)
        res['patched_demo_rc'] = rc
        res['patched_demo_tail'] = out[-600:]
    finally:
        sh(['git', '-C', '/repo', 'worktree', 'remove', '--force', str(wt)], '/')
        shutil.rmtree(wt, ignore_errors=True)
    res['ok'] = bool(res.get('clean_tests') and res.get('clean_demo_rc') == 0 and res.get('patched_tests')
                     and res.get('patched_demo_rc') not in (0, None))
    return res


def main(argv=None):
    ap = argparse.ArgumentParser()
    ap.add_argument('cmd', choices=['ingest', 'validate'])
    ap.add_argument('src')
    ap.add_argument('--prop')
    ap.add_argument('--id')
    a = ap.parse_args(argv)
    src = Path(a.src)
    res = validate(src)
    print(json.dumps(res, indent=1))
    if a.cmd == 'ingest' and res.get('ok'):
        dst = VERIF / 'seeded' / a.id
        dst.mkdir(parents=True, exist_ok=True)
        for n in ('patch.diff', 'demo.py', 'notes.md'):
            if (src / n).exists():
                shutil.copy(src / n, dst / n)
        notes = (src / 'notes.md').read_text() if (src / 'notes.md').exists() else ''
        meta = {'property': a.prop, 'id': a.id, 'origin': 'independent sub-agent given only the property text and a scratch worktree',
                'needs_to_manifest': notes[:1500],
                'confirmed': {'clean: repo tests': res['clean_tests_tail'], 'clean: demo exit': res['clean_demo_rc'],
                              'patched: repo tests': res['patched_tests_tail'], 'patched: demo exit': res['patched_demo_rc'],
                              'patched: demo output tail': res['patched_demo_tail'][-300:]},
                'ran': 'python -m vf.seedtool ingest (fresh git worktree of /repo HEAD, build_ext --inplace, pytest tests, demo.py; then git apply patch.diff and the same again)',
                'detected_by': None}
        (dst / 'meta.json').write_text(json.dumps(meta, indent=1) + '\n')
        print('filed', dst)
    return 0 if res.get('ok') else 1


if __name__ == '__main__':
    sys.exit(main())
