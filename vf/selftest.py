"""Mutation campaign: apply deliberate property-breaking changes to a scratch
copy of /repo/atomman (never to /repo) and require the check to fire.

  python -m vf.selftest C01                 # all mutants of mutants/C01.json
  python -m vf.selftest C01 --name swap-xz  # one of them
  python -m vf.selftest C01 --tests         # also confirm the repo's own tests stay green
  python -m vf.selftest --seeded            # every /verif/seeded/<id>/patch.diff against its property

A mutant is {"name", "file", "old", "new"[, "count"]} (literal replacement) in
mutants/<PROP>.json, or a unified diff in seeded/<id>/patch.diff.
"""
from __future__ import annotations

import argparse
import json
import os
import shutil
import subprocess
import sys
import tempfile
from pathlib import Path

VERIF = Path(__file__).resolve().parent.parent
REPO = Path('/repo')
PY = sys.executable


def scratch_copy():
    root = Path(tempfile.mkdtemp(prefix='vf-mut-'))
    shutil.copytree(REPO / 'atomman', root / 'atomman',
                    ignore=lambda d, names: [n for n in names if n == '__pycache__' or n.endswith(('.so', '.c', '.pyc'))])
    return root


def apply_literal(root, m):
    p = root / m['file']
    s = p.read_text()
    cnt = s.count(m['old'])
    want = m.get('count', 1)
    if cnt != want:
        raise RuntimeError(f"{m['name']}: pattern occurs {cnt}x in {m['file']}, expected {want}")
    p.write_text(s.replace(m['old'], m['new']))


def apply_diff(root, diff):
    r = subprocess.run(['patch', '-p1', '-s', '-i', str(diff)], cwd=root, capture_output=True, text=True)
    if r.returncode != 0:
        raise RuntimeError(f'patch failed: {r.stdout}{r.stderr}')


def run_check(root, prop, tier='quick', seed=0, timeout=3600):
    env = dict(os.environ, VF_REPO=str(root))
    r = subprocess.run([PY, '-m', 'vf.check', prop, '--tier', tier, '--seed', str(seed), '--no-evidence'],
                       cwd=VERIF, env=env, capture_output=True, text=True, timeout=timeout)
    return r.returncode, r.stdout + r.stderr


def run_repo_tests(root):
    """The repository's own suite against the mutant (fresh extensions)."""
    from . import build
    sh = build.shadow('plain', repo=root)
    try:
        env = dict(os.environ, PYTHONPATH=str(sh))
        env.pop('ATOMMAN_VERIF', None)
        r = subprocess.run([PY, '-m', 'pytest', '-q', '-x', '-p', 'no:cacheprovider', str(REPO / 'tests')],
                           cwd=sh, env=env, capture_output=True, text=True, timeout=1800)
        tail = (r.stdout.strip().splitlines() or ['?'])[-1]
        return r.returncode == 0, tail
    finally:
        build.remove(sh)


def main(argv=None):
    ap = argparse.ArgumentParser()
    ap.add_argument('prop', nargs='?')
    ap.add_argument('--name')
    ap.add_argument('--tier', default='quick')
    ap.add_argument('--tests', action='store_true')
    ap.add_argument('--seeded', action='store_true')
    ap.add_argument('--verbose', action='store_true')
    ap.add_argument('--record', action='store_true', help='with --seeded: write the verdict into seeded/<id>/meta.json (detected_by)')
    a = ap.parse_args(argv)
    jobs = []
    if a.seeded:
        for d in sorted((VERIF / 'seeded').glob('*/')):
            meta = json.loads((d / 'meta.json').read_text())
            if a.prop and meta['property'] != a.prop.upper():
                continue
            if a.name and d.name != a.name:
                continue
            jobs.append((meta['property'], d.name, ('diff', d / 'patch.diff')))
    else:
        prop = a.prop.upper()
        for m in json.loads((VERIF / 'mutants' / f'{prop}.json').read_text()):
            if a.name and m['name'] != a.name:
                continue
            jobs.append((m.get('property', prop), m['name'], ('literal', m)))
    missed = 0
    for prop, name, (kind, payload) in jobs:
        root = scratch_copy()
        try:
            try:
                apply_literal(root, payload) if kind == 'literal' else apply_diff(root, payload)
            except RuntimeError as e:
                print(f'{prop} {name:40s} NOT-APPLICABLE {e}')
                missed += 1
                continue
            tests = ''
            if a.tests:
                ok, tail = run_repo_tests(root)
                tests = f' repo-tests={"pass" if ok else "FAIL"} ({tail})'
            rc, out = run_check(root, prop, a.tier)
            verdict = {0: 'MISSED', 1: 'caught', 2: 'inconclusive'}.get(rc, f'rc={rc}')
            if rc != 1:
                missed += 1
            keys = [l.strip() for l in out.splitlines() if l.strip().startswith('clause:')]
            print(f'{prop} {name:40s} {verdict}{tests}  {keys[0][:150] if keys else ""}')
            if a.record and a.seeded and kind == 'diff':
                mp = payload.parent / 'meta.json'
                meta = json.loads(mp.read_text())
                allkeys = sorted({k.split('key: ')[1].split('  occurrences')[0] for k in keys if 'key: ' in k})
                meta['detected_by'] = {'check': f'python -m vf.check {prop} --tier {a.tier}', 'verdict': verdict,
                                       'violation_keys': allkeys[:12]}
                mp.write_text(json.dumps(meta, indent=1) + '\n')
            if a.verbose or rc not in (0, 1):
                print(out[-1500:])
        finally:
            shutil.rmtree(root, ignore_errors=True)
    return 1 if missed else 0


if __name__ == '__main__':
    sys.exit(main())
