"""One worker process: runs a property module's workload (one seed, one
shard, one build flavour) against the shadow tree and writes its observations."""
from __future__ import annotations

import argparse
import faulthandler
import importlib
import json
import os
import sys
import time
import traceback
import warnings


def main(argv=None):
    ap = argparse.ArgumentParser()
    ap.add_argument('prop')
    ap.add_argument('--tier', default='quick')
    ap.add_argument('--seed', type=int, default=0)
    ap.add_argument('--shard', default='0/1')
    ap.add_argument('--out', required=True)
    ap.add_argument('--only', default=None, help='group:i[,group:i...] (replay)')
    a = ap.parse_args(argv)
    faulthandler.enable()
    warnings.simplefilter('ignore')
    t0 = time.time()

    from vf.core import Ctx, Recorder
    shard, nshards = map(int, a.shard.split('/'))
    flavour = os.environ.get('VF_FLAVOUR', 'plain')
    rec = Recorder(a.prop, a.seed, a.tier, flavour, shard, nshards)
    only = None
    if a.only:
        only = set()
        for t in a.only.split(','):
            g, i = t.rsplit(':', 1)
            only.add((g, int(i)))
    ctx = Ctx(rec, only)
    out = {'harness_error': None}
    try:
        import atomman
        shadow = os.environ.get('VF_SHADOW')
        if shadow:
            files = [atomman.__file__] + [sys.modules[m].__file__ for m in
                                          ('atomman.core.nlist', 'atomman.core.dvect', 'atomman.core.dmag',
                                           'atomman.defect.Strain', 'atomman.defect.slip_vector')]
            for f in files:
                assert os.path.realpath(f).startswith(os.path.realpath(shadow)), \
                    f'{f} not loaded from the shadow tree {shadow}'
            out['tree'] = open(os.path.join(shadow, 'BUILD_INFO')).read().split()[1]
        mod = importlib.import_module('vf.props.' + a.prop.lower())
        out['rule'] = getattr(mod, 'RULE', '')
        out['assumptions'] = list(getattr(mod, 'ASSUMPTIONS', []))
        mod.run(ctx)
        # the repository's own tests as an extra workload under the module's (self-sufficient) monitors
        want = only is None and a.tier == 'thorough' and shard == 0 and flavour == 'plain' and os.environ.get('VF_FIRST_SEED') == str(a.seed)
        if os.environ.get('VF_REPOTESTS') == 'force' or (getattr(mod, 'REPOTESTS', False) and (want or (only is not None and ('repotests', 0) in only))):
            from vf import repotests
            repotests.run(ctx)
    except BaseException as e:  # harness failure => inconclusive, never 'held'
        out['harness_error'] = ''.join(traceback.format_exception(type(e), e, e.__traceback__))[-4000:]
    out.update(rec.to_json())
    out['wall_s'] = time.time() - t0
    tmp = a.out + '.tmp'
    with open(tmp, 'w') as f:
        json.dump(out, f)
    os.replace(tmp, a.out)


if __name__ == '__main__':
    main()
